import Mathlib.Algebra.BigOperators.Intervals
import Mathlib.Algebra.BigOperators.Ring.Finset
import Mathlib.Data.Real.Basic
open Finset BigOperators

/-- interval split: Σ_{[a,c)} = Σ_{[a,b)} + Σ_{[b,c)} -/
theorem sum_split (f : ℕ → ℝ) (a b c : ℕ) (h1 : a ≤ b) (h2 : b ≤ c) :
    ∑ i ∈ Ico a c, f i = ∑ i ∈ Ico a b, f i + ∑ i ∈ Ico b c, f i := by
  rw [Finset.sum_Ico_consecutive f h1 h2]

/-- linearity -/
theorem sum_linear (f g : ℕ → ℝ) (k : ℝ) (a b : ℕ) :
    ∑ i ∈ Ico a b, (k * f i + g i) = k * ∑ i ∈ Ico a b, f i + ∑ i ∈ Ico a b, g i := by
  rw [Finset.sum_add_distrib, Finset.mul_sum]

/-- shift -/
theorem sum_shift (f : ℕ → ℝ) (p n : ℕ) :
    ∑ i ∈ range n, f (p + i) = ∑ r ∈ Ico p (p + n), f r := by
  rw [Finset.range_eq_Ico, Finset.sum_Ico_add f 0 n p]
  simp [Nat.add_comm]

/-- permutation invariance over a finite index type -/
theorem sum_perm {K : ℕ} (f : Fin K → ℝ) (σ : Equiv.Perm (Fin K)) :
    ∑ i, f (σ i) = ∑ i, f i := Equiv.sum_comp σ f
