import z3, time
# CPA: code formula vs definition, over moment symbols (reals)
n,Sx,Sy,Sxx,Syy,Sxy = z3.Reals('n Sx Sy Sxx Syy Sxy')
def sqrt_of(s, e, name):
    r = z3.Real(name); s.add(r>=0, r*r==e); return r
s = z3.Solver(); s.set('timeout', 60000)
s.add(n>=2)
# code (standard): (Sxy - Sx*(Sy/n)) / (sqrt(Sxx - n*(Sx/n)^2)*sqrt(Syy - n*(Sy/n)^2))
vx = Sxx - n*((Sx/n)*(Sx/n)); vy = Syy - n*((Sy/n)*(Sy/n))
s.add(vx>0, vy>0)
c1 = sqrt_of(s, vx, 'c1'); c2 = sqrt_of(s, vy, 'c2')
code = (Sxy - Sx*(Sy/n))/(c1*c2)
# spec: cov / sqrt(varx*vary), with sums normalised: Σ(x-mx)(y-my) = Sxy - mx*Sy - my*Sx + n mx my
mx = Sx/n; my = Sy/n
cov = Sxy - mx*Sy - my*Sx + n*mx*my
sxx = Sxx - 2*mx*Sx + n*mx*mx; syy = Syy - 2*my*Sy + n*my*my
d = sqrt_of(s, sxx*syy, 'd')
spec = cov/d
s.add(code != spec)
t=time.time(); print('std', s.check(), time.time()-t)
# alternative
s = z3.Solver(); s.set('timeout', 60000)
s.add(n>=2)
ax = n*Sxx - Sx*Sx; ay = n*Syy - Sy*Sy
s.add(ax>0, ay>0)
a1 = sqrt_of(s, ax,'a1'); a2 = sqrt_of(s, ay,'a2')
code = (n*Sxy - Sy*Sx)/(a2*a1)
d = sqrt_of(s, sxx*syy, 'd')
s.add(code != cov/d)
t=time.time(); print('alt', s.check(), time.time()-t)
# mutated: n-1
s = z3.Solver(); s.set('timeout', 60000)
s.add(n>=2); s.add(ax>0, ay>0)
a1 = sqrt_of(s, (n-1)*Sxx - Sx*Sx,'a1'); a2 = sqrt_of(s, ay,'a2')
s.add((n-1)*Sxx - Sx*Sx > 0)
code = (n*Sxy - Sy*Sx)/(a2*a1)
d = sqrt_of(s, sxx*syy, 'd')
s.add(code != cov/d)
t=time.time(); r=s.check(); print('mut', r, time.time()-t); 
if r==z3.sat: print(s.model())
