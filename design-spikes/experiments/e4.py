import numpy as np, scared, warnings
warnings.simplefilter('ignore'); np.seterr(all='ignore')
from scared import traces as est
rng = np.random.default_rng(3)
def mk(n, S=4, vals=4):
    d = rng.integers(0, vals, (n,1)).astype('uint8')
    t = (d*np.arange(1,S+1) + rng.normal(0,0.1,(n,S))).astype('float64')
    return est.read_ths_from_ram(samples=t, data=d), t, d
@scared.reverse_selection_function
def rsf(data): return data
@scared.attack_selection_function(guesses=np.arange(4,dtype='uint8'), words=0)
def asf(data, guesses):
    out = np.empty((data.shape[0], len(guesses), 1), dtype='uint8')
    for i,g in enumerate(guesses): out[:, i, :] = (data ^ g) 
    return out
ths_b, tb, db = mk(400); ths_m, tm, dm = mk(50)
res = {}
for parts in [[0,1,2,3],[3,1,2,0],[0,1,2,3,7]]:
    a = scared.TemplateDPAAttack(container_building=scared.Container(ths_b), reverse_selection_function=rsf, selection_function=asf, model=scared.Value(), partitions=parts, precision='float64')
    a.build()
    try:
        a.run(scared.Container(ths_m)); print(parts, 'TemplateDPA scores', a.scores.ravel())
    except Exception as e: print(parts, 'EXC', type(e).__name__, e)
print('== singleton class template')
d = np.array([[0],[0],[1],[2],[2]],dtype='uint8'); t = np.array([[1.,2],[3,4],[10,20],[5,5],[7,9]])
ths = est.read_ths_from_ram(samples=t, data=d)
a = scared.TemplateAttack(container_building=scared.Container(ths), reverse_selection_function=rsf, model=scared.Value(), partitions=[0,1,2], precision='float64')
a.build(); print(a.templates); print(a.pooled_covariance)
