import numpy as np, scared, warnings
warnings.simplefilter('ignore')
np.seterr(all='ignore')
from scared.signal_processing import find_peaks, find_width
print("== C19 find_peaks last sample")
base = [1,0,2,0,3,0,0,0,0,0,0,0,0,0,0,0,0,0,0]
for last in [0, 10]:
    d = np.array(base+[last], dtype=float)
    print(last, find_peaks(d, 6, 0.5))
print("== C18 int32 square / product")
t = np.array([[100000, -100000, 3]], dtype='int32')
print(scared.preprocesses.square(t), scared.preprocesses.square(t).dtype)
P = scared.preprocesses.high_order.Product()
print(P(t), P(t).dtype)
t = np.array([[2**31, 5, 3]], dtype='uint32'); print(P(t), P(t).dtype)
t = np.array([[2**40, 2**40, 3]], dtype='int64'); print(P(t), P(t).dtype)
t = np.array([[255, 255, 3]], dtype='uint8'); print(P(t), P(t).dtype)
t = np.array([[32767, -32768, 3]], dtype='int16'); print(P(t), P(t).dtype)
D = scared.preprocesses.high_order.Difference()
t = np.array([[2**31-1, -2**31, 3]], dtype='int32'); print(D(t), D(t).dtype)
print(scared.preprocesses.ToPower(3)(np.array([[2000, 3]],dtype='int32')))
print(scared.preprocesses.CenterOn(mean=np.array([1,1]))(np.array([[2000, 3]],dtype='int32')).dtype)
print("== C15 Monobit 8")
try: print(scared.Monobit(8)(np.array([[255, 1]],dtype='uint8')))
except Exception as e: print('EXC', type(e).__name__, e)
try: print(scared.Monobit(8)(np.array([[256, 511, 1]],dtype='uint16')))
except Exception as e: print('EXC', type(e).__name__, e)
print(scared.Monobit(7)(np.array([[255, 1]],dtype='uint8')))
print("== C03 DPA undefined")
d = scared.DPADistinguisher()
n=200000
tr = np.full((n,2), 255, dtype='uint8'); tr[::3,1]=7
data = np.ones((n,2),dtype='uint8'); data[::2,1]=0
d.update(tr,data); print(d.compute())
d = scared.CPAAlternativeDistinguisher()
d.update(tr, (data*3).astype('uint8')); print(d.compute())
d = scared.CPADistinguisher()
d.update(tr, (data*3).astype('uint8')); print(d.compute())
