import numpy as np, scared, warnings
warnings.simplefilter('ignore')
np.seterr(all='ignore')
print("== C12 auto class set thresholds")
for mx in [0,1,8,9,10,63,64,65,255]:
    d = scared.SNRDistinguisher()
    data = np.array([[0],[mx],[mx],[0]],dtype='uint8')
    tr = np.array([[1.,2],[3,4],[5,7],[2,2]])
    try:
        d.update(tr, data)
        print(mx, 'partitions len', len(d.partitions), 'contains max', mx in d.partitions, d.compute())
    except Exception as e:
        print(mx, 'EXC', type(e).__name__, e)
print("== C12 MIA undeclared values")
d = scared.MIADistinguisher(bin_edges=np.linspace(0,10,5), partitions=[0,1,2])
tr = np.array([[1.],[3],[5],[7],[9],[2]])
data = np.array([[0],[1],[2],[0],[1],[2]],dtype='uint8')
d.update(tr,data); r1=d.compute()
d2 = scared.MIADistinguisher(bin_edges=np.linspace(0,10,5), partitions=[0,1,2])
tr2 = np.vstack([tr, [[4.],[6.]]]); data2=np.vstack([data,[[7],[9]]]).astype('uint8')
d2.update(tr2,data2); r2=d2.compute()
print(r1, r2, d2.accumulators[0,:,:,0])
print("== C13 bin edges")
for be in [[0,1,2,3],[0,1,3,4],[0,3,4,4.5],[0,1,3,6],[0,2,3,5]]:
    try:
        scared.MIADistinguisher(bin_edges=be); print(be,'accepted')
    except Exception as e: print(be,'refused',e)
print("== C16 rejected update")
d = scared.CPADistinguisher()
d.update(np.random.rand(5,3), np.random.randint(0,9,(5,2)).astype('uint8'))
try: d.update(np.random.rand(4,7), np.random.randint(0,9,(4,2)).astype('uint8'))
except Exception as e: print('rejected', type(e).__name__)
print('processed', d.processed_traces)
d = scared.DPADistinguisher()
try: d.update(np.random.rand(5,3), np.random.randint(0,9,(5,2)).astype('uint8'))
except Exception as e: print('first rejected', type(e).__name__, e)
try:
    d.update(np.random.rand(5,3), np.random.randint(0,2,(5,2)).astype('uint8')); print('ok', d.processed_traces, d.compute())
except Exception as e: print('second valid call fails:', type(e).__name__, e)
