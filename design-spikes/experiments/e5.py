import numpy as np, subprocess, scared, os
from scared import des, aes
rng = np.random.default_rng(7)
def ossl(alg, key, data, dec=False):
    p = subprocess.run(['openssl','enc','-'+alg,'-K',key.tobytes().hex(),'-nopad','-provider','legacy','-provider','default']+(['-d'] if dec else []), input=data.tobytes(), capture_output=True)
    assert p.returncode==0, p.stderr
    return np.frombuffer(p.stdout, dtype='uint8')
bad=0
for alg,kl in [('des-ecb',8),('des-ede-ecb',16),('des-ede3-ecb',24)]:
    for _ in range(20):
        k = rng.integers(0,256,kl).astype('uint8'); pt = rng.integers(0,256,8).astype('uint8')
        c = des.encrypt(pt,k); o = ossl(alg,k,pt)
        d = des.decrypt(o,k)
        if not (np.array_equal(c,o) and np.array_equal(d,pt)): bad+=1
print('DES/TDES mismatches vs openssl:', bad)
bad=0
for alg,kl in [('aes-128-ecb',16),('aes-192-ecb',24),('aes-256-ecb',32)]:
    for _ in range(20):
        k = rng.integers(0,256,kl).astype('uint8'); pt = rng.integers(0,256,16).astype('uint8')
        c = aes.encrypt(pt,k); o = ossl(alg,k,pt)
        if not (np.array_equal(c,o) and np.array_equal(aes.decrypt(o,k),pt)): bad+=1
print('AES mismatches vs openssl:', bad)
# DES last-round selection function vs real state
from scared.des import selection_functions as dsf
k = rng.integers(0,256,8).astype('uint8'); pts = rng.integers(0,256,(5,8)).astype('uint8')
cts = des.encrypt(pts,k)
sf = dsf.encrypt.LastSboxes()
out = sf(ciphertext=cts)
ek = sf.compute_expected_key(key=k)
real = des.encrypt(pts,k,at_round=15,after_step=des.Steps.SBOXES)
print('LastSboxes true-key column == real round-16 sbox out:', all(np.array_equal(out[:, ek[w], w], real[:, w]) for w in range(8)))
sf = dsf.encrypt.FirstSboxes(); out = sf(plaintext=pts); ek = sf.compute_expected_key(key=k)
real = des.encrypt(pts,k,at_round=0,after_step=des.Steps.SBOXES)
print('FirstSboxes:', all(np.array_equal(out[:, ek[w], w], real[:, w]) for w in range(8)))
from scared.aes import selection_functions as asf
k = rng.integers(0,256,16).astype('uint8'); pts = rng.integers(0,256,(5,16)).astype('uint8'); cts = aes.encrypt(pts,k)
sf = asf.encrypt.LastSubBytes(); out = sf(ciphertext=cts); ek = sf.compute_expected_key(key=k)
st = aes.encrypt(pts,k,at_round=9,after_step=aes.Steps.ADD_ROUND_KEY)
print('AES LastSubBytes == shift_rows(state9):', all(np.array_equal(out[:, ek[w], w], aes.shift_rows(st)[:, w]) for w in range(16)))
