import numpy as np, scared, warnings
warnings.simplefilter('ignore')
np.seterr(all='ignore')
print("== C11 kernels, float32 traces, float64 precision, large offset")
from scared.distinguishers.partitioned import PartitionedDistinguisherMixin as P
rng = np.random.default_rng(1)
n,S,W,K=50,3,2,4
tr = (rng.random((n,S))*1 + 1000.0).astype('float32')
data = rng.integers(0,K,(n,W)).astype('int32')
def run(core, prec):
    s=np.zeros((S,W,K),dtype=prec); ss=np.zeros((S,W,K),dtype=prec); c=np.zeros((W,K),dtype=prec)
    core(tr, data, s, ss, c, np.dtype(prec)); return s,ss,c
a=run(P._accumulate_core_1,'float64'); b=run(P._accumulate_core_2,'float64')
print('sum diff', np.abs(a[0]-b[0]).max(), 'sumsq diff', np.abs(a[1]-b[1]).max(), 'rel', (np.abs(a[1]-b[1])/np.abs(b[1]).clip(1e-300)).max(), 'cnt', np.abs(a[2]-b[2]).max())
exact = np.zeros((S,W,K))
for t in range(n):
    for w in range(W):
        exact[:,w,data[t,w]] += tr[t].astype('float64')**2
print('core1 vs exact', np.abs(a[1]-exact).max(), 'core2 vs exact', np.abs(b[1]-exact).max())
# effect on SNR result
for force in [0,1]:
    d = scared.SNRDistinguisher(partitions=range(K), precision='float64')
    d._timings = [-2,-1] if force==0 else [1,-1]
    d.update(tr, data[:, :])
    print('kernel', force, d.compute()[0])
print("== template kernels")
from scared.distinguishers.template import _TemplateBuildDistinguisherMixin as T
def runt(core, prec):
    e=np.zeros((K,S),dtype=prec); ee=np.zeros((K,S,S),dtype=prec); c=np.zeros((K,),dtype=prec)
    core(tr, data[:, :1], e, ee, c, np.dtype(prec).type); return e,ee,c
a=runt(T._accumulate_core_1,'float64'); b=runt(T._accumulate_core_2,'float64')
print('exi diff', np.abs(a[0]-b[0]).max(), 'exxi rel diff', (np.abs(a[1]-b[1])/np.abs(b[1]).clip(1e-300)).max())
