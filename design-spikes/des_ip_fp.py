"""Throw-away spike: exec the REAL source of scared.des.base primitives under a symbolic numpy stub,
with a symbolic (unbounded) batch dimension N, and prove IP/FP against FIPS bit tables with z3."""
import ast, z3, sys, types, itertools, time

SRC = open('/repo/scared/des/base.py').read()
tree = ast.parse(SRC)

# ---------- symbolic scalar -------------
W = {'uint8': 8, 'int64': 64, 'bool': 1}
class Sc:
    def __init__(s, t, dt): s.t = t; s.dt = dt
def lift(v, dt):
    if isinstance(v, Sc): return v
    if isinstance(v, bool): v = int(v)
    return Sc(z3.BitVecVal(v, W[dt]), dt)
def cast(s, dt):
    if s.dt == dt: return s
    w0, w1 = W[s.dt], W[dt]
    if s.dt == 'bool': return Sc(z3.ZeroExt(w1-1, s.t), dt) if w1 > 1 else s
    if w1 > w0: return Sc(z3.ZeroExt(w1-w0, s.t), dt)
    return Sc(z3.Extract(w1-1, 0, s.t), dt)
def binop(a, b, f):
    if not isinstance(b, Sc): b = lift(b, a.dt if a.dt != 'bool' else 'int64')
    if not isinstance(a, Sc): a = lift(a, b.dt if b.dt != 'bool' else 'int64')
    dt = a.dt if W[a.dt] >= W[b.dt] else b.dt
    a, b = cast(a, dt), cast(b, dt)
    return Sc(f(a.t, b.t), dt)

# ---------- lambda tensor with storage/view ----------
def _key(i): return tuple(k if isinstance(k, int) else ('z', k.get_id()) for k in i)
def memo(f):
    cache = {}
    def g(i):
        k = _key(i)
        if k not in cache: cache[k] = (f(i), i)
        return cache[k][0]
    return g
class Storage:
    def __init__(s, fn): s._fn = memo(fn)
    @property
    def fn(s): return s._fn
    @fn.setter
    def fn(s, f): s._fn = memo(f)
class T:
    ndarray_marker = True
    def __init__(s, shape, st, imap, dt): s.shape = tuple(shape); s.st = st; s.imap = imap; s.dtype = dt
    @property
    def ndim(s): return len(s.shape)
    def at(s, idx): return s.st.fn(s.imap(tuple(idx)))
    @staticmethod
    def fresh(shape, fn, dt): return T(shape, Storage(fn), lambda i: i, dt)
    def reshape(s, shp):
        shp = tuple(shp) if isinstance(shp, (tuple, list)) else (shp,)
        # spike: only reshapes that keep (N, k) / identity
        if len(shp) == 2 and shp[0] == -1 and s.ndim == 2 and shp[1] == s.shape[1]: return s
        if tuple(shp) == s.shape: return s
        if len(shp) == 2 and shp[1] == s.shape[1]: return s
        raise NotImplementedError(('reshape', s.shape, shp))
    def _sel(s, key):
        if not isinstance(key, tuple): key = (key,)
        assert len(key) == s.ndim, key
        return key
    def __getitem__(s, key):
        key = s._sel(key); shape = []; plan = []
        for ax, k in enumerate(key):
            if isinstance(k, slice):
                start = 0 if k.start is None else k.start; stop = s.shape[ax] if k.stop is None else k.stop
                assert k.step in (None, 1); shape.append(stop - start); plan.append(('s', start))
            else: plan.append(('i', int(k)))
        def imap(idx, plan=plan, base=s.imap):
            it = iter(idx); full = []
            for kind, v in plan: full.append(v + next(it) if kind == 's' else v)
            return base(tuple(full))
        return T(shape, s.st, imap, s.dtype)
    def __setitem__(s, key, val):
        key = s._sel(key)
        assert s.imap.__name__ == '<lambda>' and s.ndim == 2   # spike: only on base arrays
        old = s.st.fn
        conds = []; back = []
        for ax, k in enumerate(key):
            if isinstance(k, slice):
                start = 0 if k.start is None else k.start; stop = s.shape[ax] if k.stop is None else k.stop
                conds.append(lambda i, ax=ax, a=start, b=stop: z3.And(i[ax] >= a, i[ax] < b) if not isinstance(i[ax], int) else (a <= i[ax] < b))
                back.append((ax, start))
            else:
                conds.append(lambda i, ax=ax, k=int(k): (i[ax] == k))
        def newfn(i, old=old, conds=conds, back=back, val=val, dt=s.dtype):
            cs = [c(i) for c in conds]
            if any(c is False for c in cs): return old(i)
            vi = tuple(i[ax] - st for ax, st in back)
            v = val.at(vi) if isinstance(val, T) else lift(val, dt)
            v = cast(v, dt)
            cs = [c for c in cs if c is not True]
            if not cs: return v
            o = old(i)
            return Sc(z3.If(z3.And(*cs), v.t, o.t), dt)
        s.st.fn = newfn
    def _ew(s, o, f):
        if isinstance(o, T):
            assert o.shape == s.shape, (o.shape, s.shape)
            a_, b_ = s, o
            snap_a, snap_b = a_.st.fn, b_.st.fn   # value semantics: snapshot storages
            ia, ib = a_.imap, b_.imap
            fn = lambda i: binop(snap_a(ia(i)), snap_b(ib(i)), f)
        else:
            snap_a, ia = s.st.fn, s.imap
            fn = lambda i: binop(snap_a(ia(i)), o, f)
        probe = fn(tuple(0 for _ in s.shape)) if all(isinstance(d, int) for d in s.shape) else None
        return T.fresh(s.shape, fn, None)
    def __rshift__(s, o): return s._ew(o, lambda a, b: z3.LShR(a, b))
    def __lshift__(s, o): return s._ew(o, lambda a, b: a << b)
    def __and__(s, o): return s._ew(o, lambda a, b: a & b)
    def __add__(s, o): return s._ew(o, lambda a, b: a + b)
    def __xor__(s, o): return s._ew(o, lambda a, b: a ^ b)
    def __ilshift__(s, o): s[tuple(slice(None) for _ in s.shape)] = (s << o); return s
    def __iadd__(s, o): s[tuple(slice(None) for _ in s.shape)] = (s + o); return s

# NOTE: in-place ops on a *view* (out[:, 0] <<= 1) arrive in Python as:  tmp = out[:,0]; tmp = tmp.__ilshift__(1); out[:,0] = tmp
# so view.__ilshift__ may simply return a new value tensor:
def _iop(f):
    def g(s, o): return f(s, o)
    return g
T.__ilshift__ = _iop(T.__lshift__); T.__iadd__ = _iop(T.__add__)

class NP:
    uint8 = 'uint8'; int64 = 'int64'; ndarray = T
    @staticmethod
    def zeros(shape, dtype='float64'): return T.fresh(shape, lambda i, dt=dtype: lift(0, dt), dtype)
    @staticmethod
    def arange(n): return range(n)
    @staticmethod
    def bitwise_xor(a, b): return a ^ b

N = z3.Int('N')
def run(fname, inp):
    fn = [n for n in tree.body if isinstance(n, ast.FunctionDef) and n.name == fname][0]
    mod = ast.Module(body=[fn], type_ignores=[])
    g = {'_np': NP, '_is_bytes_of_len': lambda *a, **k: True, 'int': int}
    exec(compile(mod, f'/repo/scared/des/base.py::{fname}', 'exec'), g)
    return g[fname](inp)

X = z3.Function('X', z3.IntSort(), z3.IntSort(), z3.BitVecSort(8))
state = T.fresh((N, 8), lambda i: Sc(X(i[0], z3.IntVal(i[1]) if isinstance(i[1], int) else i[1]), 'uint8'), 'uint8')
t0 = time.time()
out = run('initial_permutation', state)
print('executed IP symbolically in', round(time.time() - t0, 2), 's; shape', out.shape)

IP = [58,50,42,34,26,18,10,2,60,52,44,36,28,20,12,4,62,54,46,38,30,22,14,6,64,56,48,40,32,24,16,8,
      57,49,41,33,25,17,9,1,59,51,43,35,27,19,11,3,61,53,45,37,29,21,13,5,63,55,47,39,31,23,15,7]
r = z3.Int('r')
def bit(tensor, row, b):   # FIPS bit numbering 1..64, bit 1 = MSB of byte 0
    byte, pos = (b - 1) // 8, 7 - (b - 1) % 8
    return z3.Extract(pos, pos, tensor.at((row, byte)).t)
s = z3.Solver(); s.add(r >= 0, r < N)
goal = z3.And(*[bit(out, r, k + 1) == bit(state, r, IP[k]) for k in range(64)])
s.add(z3.Not(goal)); t0 = time.time(); print('IP == FIPS table for all N, all rows:', s.check(), round(time.time() - t0, 2), 's')
# FP(IP(x)) == x
t0 = time.time(); back = run('final_permutation', out)
s = z3.Solver(); s.add(r >= 0, r < N)
s.add(z3.Not(z3.And(*[back.at((r, j)).t == state.at((r, j)).t for j in range(8)])))
print('FP(IP(x)) == x:', s.check(), round(time.time() - t0, 2), 's')
# mutation: break one shift in the real source text and re-run
SRC2 = SRC.replace("out[:, 0] += data[:, 7 - current_byte] >> 6 & 0x01", "out[:, 0] += data[:, 7 - current_byte] >> 5 & 0x01", 1)
tree = ast.parse(SRC2); out2 = run('initial_permutation', state)
s = z3.Solver(); s.add(r >= 0, r < N)
s.add(z3.Not(z3.And(*[bit(out2, r, k + 1) == bit(state, r, IP[k]) for k in range(64)])))
res = s.check(); print('mutant:', res)
if res == z3.sat:
    m = s.model(); rr = m.eval(r, model_completion=True); print(' counterexample row', rr, 'N', m.eval(N, model_completion=True), [m.eval(X(rr, j), model_completion=True) for j in range(8)])
