"""Throw-away spike 2: exec the REAL CPA _update / CPAAlternative _compute with symbolic N,S,W (unbounded),
Sum terms normalised to moment functions, then prove additivity and Pearson equality with z3."""
import ast, z3, time, itertools
SRC = open('/repo/scared/distinguishers/cpa.py').read()
tree = ast.parse(SRC)
I, R = z3.IntSort(), z3.RealSort()

def contains(t, v):
    if t.eq(v): return True
    return any(contains(c, v) for c in t.children())

MOM = {}; ROWS = {}
def moment(mon_key, mon_fn, lo, hi):
    # uninterpreted moment function per canonical monomial; args (lo, hi)
    if mon_key not in MOM:
        MOM[mon_key] = (z3.Function('M%d' % len(MOM), I, I, R), mon_fn)
    return MOM[mon_key][0](lo, hi)

RB = z3.Int('__r')   # canonical bound variable
def Sum(body_fn, lo, hi):
    """Σ_{r in [lo,hi)} body_fn(r) normalised: linearity + monomial canonicalisation."""
    body = z3.simplify(body_fn(RB), som=True, mul_to_power=False)
    terms = body.children() if z3.is_add(body) else [body]
    total = z3.RealVal(0)
    for t in terms:
        facs = []; dens = []
        def flat(e):
            if z3.is_mul(e):
                for c_ in e.children(): flat(c_)
            elif z3.is_div(e) and not contains(e.arg(1), RB): flat(e.arg(0)); dens.append(e.arg(1))
            else: facs.append(e)
        flat(t)
        dep = [f for f in facs if contains(f, RB)]; free = [f for f in facs if not contains(f, RB)]
        coeff = z3.RealVal(1)
        for f in free: coeff = coeff * f
        for f in dens: coeff = coeff / f
        if not dep: total = total + coeff * z3.ToReal(hi - lo); continue
        # shift canonicalisation: if every row argument is (c + r) with the same r-free c, re-index r' = c + r
        rows = set()
        def collect(e):
            if z3.is_app(e) and e.decl().name() in ('X', 'Y'): rows.add(z3.simplify(e.arg(0) - RB).sexpr()); ROWS[z3.simplify(e.arg(0) - RB).sexpr()] = z3.simplify(e.arg(0) - RB)
            for c_ in e.children(): collect(c_)
        for f in dep: collect(f)
        shift = z3.IntVal(0)
        if len(rows) == 1:
            shift = ROWS[next(iter(rows))]
            if not contains(shift, RB):
                dep = [z3.simplify(z3.substitute(f, (RB, RB - shift))) for f in dep]
            else: shift = z3.IntVal(0)
        lo_, hi_ = z3.simplify(lo + shift), z3.simplify(hi + shift)
        dep_sorted = sorted(dep, key=lambda e: e.sexpr())
        key = ' * '.join(e.sexpr() for e in dep_sorted)
        def mon_fn(r, dep_sorted=dep_sorted):
            out = z3.RealVal(1)
            for e in dep_sorted: out = out * z3.substitute(e, (RB, r))
            return out
        total = total + coeff * moment(key, mon_fn, lo_, hi_)
    return z3.simplify(total)

class Dim:
    def __init__(s, z): s.z = z
    def __eq__(s, o): return isinstance(o, Dim) and bool(z3.simplify(s.z == o.z))
    def __ne__(s, o): return not s.__eq__(o)
    def __hash__(s): return hash(s.z)
def uz(d): return d.z if isinstance(d, Dim) else d
class Sc:
    def __init__(s, z): s.z = z
    def __mul__(s, o): return o.__rmul__(s.z) if isinstance(o, T) else Sc(s.z * uz2(o))
def uz2(o): return o.z if isinstance(o, Sc) else o
class T:   # lambda tensor of reals, value semantics (spike: no views needed here)
    def __init__(s, shape, fn): s.shape = tuple(shape); s.fn = fn; s.dtype = 'f'
    def at(s, *i): return s.fn(*i)
    def astype(s, dt): return T(s.shape, s.fn)
    @property
    def T(s): assert len(s.shape) == 2; return T((s.shape[1], s.shape[0]), lambda i, j: s.fn(j, i))
    def _ew(s, o, f):
        if isinstance(o, T):
            if len(o.shape) == len(s.shape): return T(s.shape, lambda *i: f(s.fn(*i), o.fn(*i)))
            raise NotImplementedError
        return T(s.shape, lambda *i: f(s.fn(*i), o))
    def __add__(s, o): return s._ew(o, lambda a, b: a + b)
    def __iadd__(s, o): return s._ew(o, lambda a, b: a + b)
    def __sub__(s, o): return s._ew(o, lambda a, b: a - b)
    def __mul__(s, o): return s._ew(o, lambda a, b: a * b)
    def __rmul__(s, o): return s._ew(o, lambda a, b: b * a)
    def __truediv__(s, o): return s._ew(o, lambda a, b: a / b)
    def __pow__(s, k): assert k == 2; return T(s.shape, lambda *i: s.fn(*i) * s.fn(*i))
    def __getitem__(s, key):   # only [:, None] / [None, :]
        if key == (slice(None), None): return T((s.shape[0], 1), lambda i, j: s.fn(i))
        if key == (None, slice(None)): return T((1, s.shape[0]), lambda i, j: s.fn(j))
        raise NotImplementedError(key)
SQ = []
class NP:
    ndarray = T
    @staticmethod
    def sum(a, axis): assert axis == 0 and len(a.shape) == 2; return T((a.shape[1],), lambda j: Sum(lambda r: a.fn(r, j), 0, uz(a.shape[0])))
    @staticmethod
    def dot(a, b): return T((a.shape[0], b.shape[1]), lambda i, j: Sum(lambda r: a.fn(i, r) * b.fn(r, j), 0, uz(a.shape[1])))
    @staticmethod
    def matmul(a, b):
        assert a.shape[1] == 1 and b.shape[0] == 1; return T((a.shape[0], b.shape[1]), lambda i, j: a.fn(i, 0) * b.fn(0, j))
    @staticmethod
    def sqrt(a):
        def f(*i):
            v = a.fn(*i); q = z3.FreshReal('sqrt'); SQ.append((q, v)); return q
        memo = {}
        def g(*i):
            k = tuple(x if isinstance(x, int) else x.get_id() for x in i)
            if k not in memo: memo[k] = f(*i)
            return memo[k]
        return T(a.shape, g)

class Log:
    def info(self, *a, **k): pass
    debug = info
class _A: pass
class _B: pass
g = {'_np': NP, 'logger': Log(), 'DistinguisherMixin': _A, '_StandaloneDistinguisher': _B, 'DistinguisherError': Exception, 'logging': None}
body = [n for n in tree.body if isinstance(n, ast.ClassDef)]
exec(compile(ast.Module(body=body, type_ignores=[]), '/repo/scared/distinguishers/cpa.py', 'exec'), g)

# ---- stream model: rows X(r,s), Y(r,w); state after P rows; new batch = rows [P, P+n)
X = z3.Function('X', I, I, R); Y = z3.Function('Y', I, I, R)
P, n, S_, W_ = z3.Ints('P n S W'); S, W, nD = Dim(S_), Dim(W_), Dim(n)
def wf_state(obj, upto):
    obj.ex  = T((S,), lambda s: Sum(lambda r: X(r, s), 0, upto))
    obj.ex2 = T((S,), lambda s: Sum(lambda r: X(r, s) * X(r, s), 0, upto))
    obj.ey  = T((W,), lambda w: Sum(lambda r: Y(r, w), 0, upto))
    obj.ey2 = T((W,), lambda w: Sum(lambda r: Y(r, w) * Y(r, w), 0, upto))
    obj.exy = T((W, S), lambda w, s: Sum(lambda r: Y(r, w) * X(r, s), 0, upto))
d = g['CPAAlternativeDistinguisherMixin'].__new__(g['CPAAlternativeDistinguisherMixin'])
d.precision = 'float32'; d.processed_traces = P
wf_state(d, P)
traces = T((nD, S), lambda i, s: X(P + i, s)); data = T((nD, W), lambda i, w: Y(P + i, w))
t0 = time.time()
g['CPADistinguisherMixin']._update(d, traces=traces, data=data)       # REAL code
s0, w0 = z3.Ints('s0 w0')
# expected: wf over [0, P+n)
e = type('E', (), {})(); wf_state(e, P + n)
sol = z3.Solver(); sol.add(P >= 0, n >= 1, S_ >= 1, W_ >= 1, 0 <= s0, s0 < S_, 0 <= w0, w0 < W_)
# interval-split + shift lemma instances for every moment function (Lean-checked rules; here as axioms)
a, b, c = z3.Ints('a b c')
goal = z3.And(d.ex.at(s0) == e.ex.at(s0), d.ex2.at(s0) == e.ex2.at(s0), d.ey.at(w0) == e.ey.at(w0),
              d.ey2.at(w0) == e.ey2.at(w0), d.exy.at(w0, s0) == e.exy.at(w0, s0))
for key, (M, mon) in MOM.items():
    sol.add(z3.ForAll([a, b, c], z3.Implies(z3.And(a <= b, b <= c), M(a, c) == M(a, b) + M(b, c))))
print('moments:', list(MOM)[:8])
print('sample term ex after update:', d.ex.at(s0))
sol.push(); sol.add(z3.Not(goal)); print('additivity of real _update (all P,n,S,W):', sol.check(), round(time.time() - t0, 2), 's'); sol.pop()

# ---- compute: REAL CPAAlternative._compute on wf state with P rows vs Pearson definition
d2 = g['CPAAlternativeDistinguisherMixin'].__new__(g['CPAAlternativeDistinguisherMixin'])
d2.processed_traces = Sc(z3.ToReal(P)); wf_state(d2, P)
res = d2._compute()                                                    # REAL code
val = res.at(w0, s0)
nn = z3.ToReal(P)
mx = Sum(lambda r: X(r, s0), 0, P) / nn; my = Sum(lambda r: Y(r, w0), 0, P) / nn
cov = Sum(lambda r: (X(r, s0) - mx) * (Y(r, w0) - my), 0, P)
vx = Sum(lambda r: (X(r, s0) - mx) * (X(r, s0) - mx), 0, P); vy = Sum(lambda r: (Y(r, w0) - my) * (Y(r, w0) - my), 0, P)
q = z3.Real('q')
sol2 = z3.Solver(); sol2.set('timeout', 120000)
sol2.add(P >= 2, vx > 0, vy > 0, q >= 0, q * q == vx * vy)
for (sq, v) in SQ: sol2.add(sq >= 0, sq * sq == v, v >= 0)
sol2.add(val != cov / q)
t0 = time.time(); print('CPAAlternative._compute == Pearson definition:', sol2.check(), round(time.time() - t0, 2), 's')

print('--- debug')
for nm, (x, y) in {'ex': (d.ex.at(s0), e.ex.at(s0)), 'ex2': (d.ex2.at(s0), e.ex2.at(s0)), 'ey': (d.ey.at(w0), e.ey.at(w0)), 'exy': (d.exy.at(w0, s0), e.exy.at(w0, s0))}.items():
    sol.push(); sol.add(x != y); print(nm, sol.check(), '|', x, '|', y); sol.pop()
print('compute val:', val)
print('cov:', cov); print('vx:', vx)
