import z3, time
# hand-coded VC: middle loop (trace_idx) preservation for partitioned._accumulate_core_1 at fixed sample s
I=z3.IntSort(); R=z3.RealSort()
x = z3.Function('x', I, I, R)          # traces[t,s]
d = z3.Function('d', I, I, I)          # data[t,w]  (class index or -1)
sum0 = z3.Function('sum0', I,I,I, R)
sumA = z3.Function('sumA', I,I,I, R)   # state before iteration t
sumB = z3.Function('sumB', I,I,I, R)   # state after iteration t
ps = z3.Function('ps', I,I,I,I, R)     # ps(s,w,c,t) = Σ_{r<t} [d(r,w)=c] x(r,s)
s,t,n,W,K = z3.Ints('s t n W K')
w,c,sp = z3.Ints('w c sp')
S = z3.Solver(); S.set('timeout', 30000)
S.add(0<=t, t<n, W>=1, K>=1, s>=0)
# def axiom of ps (one unfolding, quantified)
S.add(z3.ForAll([sp,w,c,t], ps(sp,w,c,t+1) == ps(sp,w,c,t) + z3.If(d(t,w)==c, x(t,sp), 0)))
# data validity precondition: -1 <= d < K
S.add(z3.ForAll([t,w], z3.And(d(t,w)>=-1, d(t,w)<K)))
# invariant before: for all w in [0,W), c in [0,K): sumA[s,w,c] = sum0[s,w,c] + ps(s,w,c,t); other samples untouched
S.add(z3.ForAll([w,c], z3.Implies(z3.And(0<=w,w<W,0<=c,c<K), sumA(s,w,c) == sum0(s,w,c) + ps(s,w,c,t))))
# effect of inner loop over data_idx (its own contract): for all w,c: sumB[s,w,c] = sumA[s,w,c] + (d(t,w)==c and d!=-1 ? x : 0); frame: other sample rows unchanged
S.add(z3.ForAll([w,c], z3.Implies(z3.And(0<=w,w<W,0<=c,c<K), sumB(s,w,c) == sumA(s,w,c) + z3.If(z3.And(d(t,w)!=-1, d(t,w)==c), x(t,s), 0))))
# goal: invariant after
w0,c0 = z3.Ints('w0 c0')
S.add(0<=w0,w0<W,0<=c0,c0<K)
S.add(sumB(s,w0,c0) != sum0(s,w0,c0) + ps(s,w0,c0,t+1))
t0=time.time(); print(S.check(), time.time()-t0)
