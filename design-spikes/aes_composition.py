"""Throw-away spike 3: path exploration by re-execution (SymBool.__bool__ / SymInt.__index__ fork),
modular calls (primitives replaced by uninterpreted spec functions through identity-preserving dispatchers),
on the REAL scared/aes/base.py: _prepare_keys, _prepare_rounds, _parametric_cipher, encrypt, decrypt."""
import ast, z3, time, builtins, enum, sys
SRC = open('/repo/scared/aes/base.py').read()
if len(sys.argv) > 1 and sys.argv[1] == 'mutant':
    SRC = SRC.replace("if i == n_rounds - 1:", "if i == n_rounds:", 1)      # last round keeps MixColumns
tree = ast.parse(SRC)
BV8 = z3.BitVecSort(8); I = z3.IntSort()

# ------------------------------------------------------------------ path oracle
class Abort(Exception): pass
class Path:
    def __init__(s, prefix): s.prefix = prefix; s.pos = 0; s.pc = []; s.taken = []
PATH = None; WORK = []
def feasible(extra):
    sl = z3.Solver(); sl.set('timeout', 2000); sl.add(*PATH.pc); sl.add(extra); return sl.check() != z3.unsat
def decide(c):
    c = z3.simplify(c)
    if z3.is_true(c): return True
    if z3.is_false(c): return False
    if PATH.pos < len(PATH.prefix): v = PATH.prefix[PATH.pos]
    else:
        t, f = feasible(c), feasible(z3.Not(c))
        if t and f: WORK.append(PATH.taken + [False]); v = True
        elif t: v = True
        elif f: v = False
        else: raise Abort()
    PATH.pos += 1; PATH.taken.append(v); PATH.pc.append(c if v else z3.Not(c)); return v
class SB_:
    def __init__(s, z): s.z = z
    def __bool__(s): return decide(s.z)
def zi(o): return o.z if isinstance(o, SymInt) else z3.IntVal(int(o))
class SymInt:
    def __init__(s, z): s.z = z
    def __index__(s):
        # finite case split: ask the solver for candidate values one by one, each a binary decision
        while True:
            sl = z3.Solver(); sl.add(*PATH.pc); 
            if sl.check() != z3.sat: raise Abort()
            v = sl.model().eval(s.z, model_completion=True).as_long()
            if decide(s.z == v): return v
    def __add__(s, o): return SymInt(s.z + zi(o))
    __radd__ = __add__
    def __sub__(s, o): return SymInt(s.z - zi(o))
    def __rsub__(s, o): return SymInt(zi(o) - s.z)
    def __lt__(s, o): return SB_(s.z < zi(o))
    def __gt__(s, o): return SB_(s.z > zi(o))
    def __le__(s, o): return SB_(s.z <= zi(o))
    def __ge__(s, o): return SB_(s.z >= zi(o))
    def __eq__(s, o): return SB_(s.z == zi(o))
    def __ne__(s, o): return SB_(s.z != zi(o))
    __hash__ = None

# ------------------------------------------------------------------ tensors (value semantics suffices here)
def _key(i): return tuple(k if isinstance(k, int) else ('z', k.get_id()) for k in i)
def memo(f):
    cache = {}
    def g_(*i):
        k = _key(i)
        if k not in cache: cache[k] = (f(*i), i)
        return cache[k][0]
    return g_
class T:
    def __init__(s, shape, fn): s.shape = tuple(shape); s.fn = memo(fn); s.dtype = 'uint8'
    ndim = property(lambda s: len(s.shape))
    def at(s, *i): return s.fn(*i)
    def reshape(s, shp):
        if shp == (1,) + s.shape: return T(shp, lambda k, *i: s.fn(*i))
        raise NotImplementedError(shp)
    def __getitem__(s, key):
        if isinstance(key, tuple) and len(key) == 3 and key[0] == slice(None) and key[2] == slice(None):
            i = key[1]; return T((s.shape[0], s.shape[2]), lambda k, j: s.fn(k, i, j))
        raise NotImplementedError(key)
    def squeeze(s):
        keep = [ax for ax, d in enumerate(s.shape) if not (isinstance(d, int) and d == 1)]
        # a symbolic extent equal to 1 would also be squeezed: fork on it
        for ax, d in enumerate(s.shape):
            if not isinstance(d, int) and bool(SB_(d == 1)): keep.remove(ax)
        def fn(*i):
            full = [0] * len(s.shape)
            for a, v in zip(keep, i): full[a] = v
            return s.fn(*full)
        return T([s.shape[a] for a in keep], fn)
class NP:
    uint8 = 'uint8'; ndarray = T
    @staticmethod
    def array(x, dtype=None, copy=None):
        if isinstance(x, T): return T(x.shape, x.fn)
        if isinstance(x, list) and x and isinstance(x[0], T): return T((len(x),) + x[0].shape, lambda k, *i: x[k].fn(*i) if isinstance(k, int) else x[0].fn(*i))
        return ('table', x)
    @staticmethod
    def copy(x): return T(x.shape, x.fn)
    @staticmethod
    def flip(x, axis):
        assert axis == 1; n = x.shape[1]; return T(x.shape, lambda k, i, *j: x.fn(k, n - 1 - i, *j))
    @staticmethod
    def bitwise_xor(a, b): return T(a.shape if a.ndim >= b.ndim else b.shape, lambda *i: a.fn(*i[-a.ndim:]) ^ b.fn(*i[-b.ndim:]))   # (N,16)^(1,16)/(16,) spike-level broadcasting

# ------------------------------------------------------------------ modular stubs: uninterpreted spec functions
SBf = z3.Function('SubBytes', BV8, BV8); ISBf = z3.Function('InvSubBytes', BV8, BV8)
MCf = [z3.Function('MC%d' % k, BV8, BV8, BV8, BV8, BV8) for k in range(4)]
IMCf = [z3.Function('IMC%d' % k, BV8, BV8, BV8, BV8, BV8) for k in range(4)]
SR = [0, 5, 10, 15, 4, 9, 14, 3, 8, 13, 2, 7, 12, 1, 6, 11]; ISR = [SR.index(j) for j in range(16)]
KSf = z3.Function('KS', I, I, BV8)     # round key byte (round, j) of THE key (single-key case)
def last(i): return i[-1]
def pre(i): return i[:-1]
SPEC = {
 'sub_bytes': lambda state: (lambda st: T(st.shape, lambda *i: SBf(st.fn(*i))))(state),
 'inv_sub_bytes': lambda state: (lambda st: T(st.shape, lambda *i: ISBf(st.fn(*i))))(state),
 'shift_rows': lambda state: (lambda st: T(st.shape, lambda *i: st.fn(*pre(i), SR[last(i)])))(state),
 'inv_shift_rows': lambda state: (lambda st: T(st.shape, lambda *i: st.fn(*pre(i), ISR[last(i)])))(state),
 'mix_columns': lambda state: (lambda st: T(st.shape, lambda *i: MCf[last(i) % 4](*[st.fn(*pre(i), 4 * (last(i) // 4) + k) for k in range(4)])))(state),
 'inv_mix_columns': lambda state: (lambda st: T(st.shape, lambda *i: IMCf[last(i) % 4](*[st.fn(*pre(i), 4 * (last(i) // 4) + k) for k in range(4)])))(state),
 'key_schedule': lambda key: T((NR[0], 16), lambda i, j: KSf(z3.IntVal(i) if isinstance(i, int) else i, j)),
}
NR = [11]
class Dispatcher:          # T2: identity-preserving wrapper deciding body vs contract
    def __init__(s, name, body): s.name = name; s.body = body; s.__name__ = name
    def __call__(s, *a, **k):
        if s.name in SPEC: return SPEC[s.name](*a, **k)
        return s.body(*a, **k)
class Deco(ast.NodeTransformer):
    def visit_FunctionDef(s, n):
        n.decorator_list.append(ast.Call(func=ast.Name(id='__pyvc__', ctx=ast.Load()), args=[ast.Constant(n.name)], keywords=[])); return n
tree = ast.fix_missing_locations(Deco().visit(tree))
tree.body = [n for n in tree.body if not isinstance(n, (ast.Import, ast.ImportFrom))]
def shim_isinstance(o, c): return True if (isinstance(o, SymInt) and c is int) else builtins.isinstance(o, c)
def shim_range(*a): return builtins.range(*[x.__index__() if isinstance(x, SymInt) else x for x in a])
bi = dict(vars(builtins)); bi.update(isinstance=shim_isinstance, range=shim_range)
g = {'__builtins__': bi, '_np': NP, 'enum': enum, '_is_bytes_array': lambda a: True, '__pyvc__': lambda name: (lambda f: Dispatcher(name, f)), '__name__': 'scared.aes.base'}
exec(compile(tree, '/repo/scared/aes/base.py', 'exec'), g)

# ------------------------------------------------------------------ FIPS-197 spec sequence (independent text)
def spec_state(X, r, mode, at_round, after_step, nr):
    st = [X(r, j) for j in range(16)]
    rk = lambda i: [KSf(z3.IntVal(i), j) for j in range(16)]
    xor = lambda a, b: [x ^ y for x, y in zip(a, b)]
    sb = lambda a: [SBf(x) for x in a]; isb = lambda a: [ISBf(x) for x in a]
    sr = lambda a: [a[SR[j]] for j in range(16)]; isr = lambda a: [a[ISR[j]] for j in range(16)]
    mc = lambda a: [MCf[j % 4](*a[4 * (j // 4):4 * (j // 4) + 4]) for j in range(16)]
    imc = lambda a: [IMCf[j % 4](*a[4 * (j // 4):4 * (j // 4) + 4]) for j in range(16)]
    for rnd in range(at_round + 1):
        if mode == 'encrypt':
            ops = [sb, sr, mc, lambda a: xor(a, rk(rnd))]
            if rnd == 0: ops = [None, None, None, ops[3]]
            if rnd == nr - 1: ops[2] = None
        else:
            ops = [lambda a: xor(a, rk(nr - 1 - rnd)), imc, isr, isb]
            if rnd == 0: ops[1] = None
            if rnd == nr - 1: ops = [ops[0], None, None, None]
        stop = after_step if rnd == at_round else 3
        for op in ops[:stop + 1]:
            if op is not None: st = op(st)
    return st

X = z3.Function('X', I, I, BV8); N = z3.Int('N'); r = z3.Int('r')
FAST = [0]
def explore(mode):
    global PATH, WORK
    WORK = [[]]; npaths = nobl = 0; failed = []; t0 = time.time()
    while WORK:
        PATH = Path(WORK.pop()); PATH.pc = [N >= 1, r >= 0, r < N]
        ar, st_ = SymInt(z3.Int('at_round')), SymInt(z3.Int('after_step'))
        PATH.pc += [ar.z >= 0, ar.z <= NR[0] - 1]          # requires: at_round in [0, Nr]
        state = T((N, 16), lambda k, j: X(k, j)); key = T((16,), lambda j: z3.BitVec('k%d' % j, 8))
        try:
            out = (g['encrypt'] if mode == 'encrypt' else g['decrypt'])(state, key, at_round=ar, after_step=st_)
        except Abort: continue
        except (ValueError, TypeError) as e:
            sl = z3.Solver(); sl.add(*PATH.pc); sl.add(z3.And(st_.z >= 0, st_.z <= 3))   # raises only outside the documented range
            if sl.check() != z3.unsat: failed.append(('raises-inside-range', str(e)))
            npaths += 1; continue
        npaths += 1
        sl = z3.Solver(); sl.add(*PATH.pc); assert sl.check() == z3.sat; m = sl.model()
        a, s_ = m.eval(ar.z, model_completion=True).as_long(), m.eval(st_.z, model_completion=True).as_long()   # fully determined on this path
        exp = spec_state(X, r if out.ndim == 2 else z3.IntVal(0), mode, a, s_, NR[0])
        got = [out.at(r, j) for j in range(16)] if out.ndim == 2 else [out.at(j) for j in range(16)]
        nobl += 1
        if all(x.eq(y) for x, y in zip(got, exp)): FAST[0] += 1; continue
        goal = z3.Goal(); goal.add(*PATH.pc); goal.add(z3.Not(z3.And(*[x == y for x, y in zip(got, exp)])))
        sl2 = z3.Then('simplify', 'solve-eqs', 'propagate-values', 'simplify', 'smt').solver(); sl2.set('timeout', 60000)
        for f_ in goal: sl2.add(f_)
        res = sl2.check()
        if res != z3.unsat: failed.append((mode, a, s_, str(res), 'N=', sl2.model().eval(N) if res == z3.sat else None))
    print(f'{mode}: fast-path(structural)={FAST[0]} paths={npaths} obligations={nobl} failed={failed[:3]} ({len(failed)}) in {time.time() - t0:.1f}s')
explore('encrypt'); explore('decrypt')
