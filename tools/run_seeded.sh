#!/bin/bash
# run_seeded.sh <patch> <label> <CHECK> [outdir] : apply the patch to a scratch copy of /repo (under /dev/shm), run the quick check against it,
# write a summary json (exit code, violation counts by kind, first failing obligation), remove the copy.  Development-time tool (DESIGN.md section 11).
P=$(readlink -f "$1"); L=$2; ID=$3; OUT=${4:-/dev/shm/matrix}; mkdir -p $OUT
S=/dev/shm/pyvc-scratch-$$; mkdir -p $S/out; cp -r /repo $S/repo
if ! (cd $S/repo && git apply "$P"); then echo "{\"label\":\"$L\",\"check\":\"$ID\",\"error\":\"patch does not apply\"}" > $OUT/${L}__${ID}.json; rm -rf $S; exit 9; fi
cd /verif; t0=$(date +%s)
PYVC_REPO=$S/repo PYVC_OUT_DIR=$S/out timeout ${TMO:-2400} ./check $ID --tier quick > $S/log 2>&1; rc=$?
t1=$(date +%s)
python3 - "$S/log" "$L" "$ID" "$rc" "$((t1-t0))" "$OUT" <<'PY'
import sys,json,re
log=open(sys.argv[1]).read().splitlines(); L,ID,rc,secs,OUT=sys.argv[2],sys.argv[3],int(sys.argv[4]),int(sys.argv[5]),sys.argv[6]
viol=[l for l in log if l.startswith('VIOLATION')]; obl=[l.strip() for l in log if l.strip().startswith('obligation:')]
und=[l for l in log if l.startswith('UNDECIDED')]; eng=[l for l in log if l.startswith('ENGINE-ERROR')]
summ=[l for l in log if re.match(r'^C\d\d \[', l)]
proof=[o for o in obl if not o.startswith('obligation: bounded[')]; nat=[o for o in obl if o.startswith('obligation: bounded[')]
nofail=sum(1 for v in viol if v.endswith('no-failing-input-found'))
json.dump(dict(label=L,check=ID,exit=rc,secs=secs,violations=len(viol),proof_violations=len(proof),native_violations=len(nat),no_failing_input=nofail,first_proof=(proof[0][:300] if proof else None),first_native=(nat[0][:300] if nat else None),undecided=len(und),first_undecided=(und[0][:300] if und else None),engine_errors=eng[:2],summary=(summ[-1] if summ else None), suppressed=[l.strip() for l in log if 'further refuted' in l]),open('%s/%s__%s.json'%(OUT,L,ID),'w'),indent=1)
PY
rm -rf $S
