#!/usr/bin/env python3
"""print a python file without docstrings, comments and big literal tables (reading aid only)"""
import ast, sys
src = open(sys.argv[1]).read()
tree = ast.parse(src)
class Strip(ast.NodeTransformer):
    def visit_Expr(self, n):
        if isinstance(n.value, ast.Constant) and isinstance(n.value.value, str): return None
        return n
    def visit_List(self, n):
        self.generic_visit(n)
        if len(ast.unparse(n)) > 300: return ast.Name(id='<BIGLIST %d>' % len(n.elts), ctx=ast.Load())
        return n
tree = Strip().visit(tree)
for n in ast.walk(tree):
    if hasattr(n, 'body') and isinstance(n.body, list) and not n.body: n.body = [ast.Pass()]
print(ast.unparse(tree))
