#!/bin/bash
# run the repository's suite and check that every stable baseline test still passes
cd /repo && /venv/bin/python -m pytest -q -p no:cacheprovider --timeout=900 --continue-on-collection-errors --junitxml=/dev/shm/base_$$.xml >/dev/shm/base_$$.log 2>&1
python3 - /dev/shm/base_$$.xml <<'PY'
import json, sys, xml.etree.ElementTree as ET
b=json.load(open('/root/.vp/BASELINE.json')); stable=set(b['stable_pass'])
res={}
for tc in ET.parse(sys.argv[1]).iter('testcase'):
    res[tc.get('classname')+'::'+tc.get('name')] = not any(c.tag in('failure','error','skipped') for c in tc)
missing=[s for s in stable if not res.get(s)]
print('tests run',len(res),'passed',sum(res.values()),'stable missing',len(missing)); print('\n'.join(missing[:20]))
sys.exit(1 if missing else 0)
PY
rc=$?; rm -f /dev/shm/base_$$.xml /dev/shm/base_$$.log; exit $rc
