#!/bin/bash
# usage: try_patch.sh <patch.diff> <ID> [tier]   -- apply to /repo, run the check, undo
P=$1; ID=$2; TIER=${3:-quick}
cd /repo && git apply "$P" || { echo "PATCH DOES NOT APPLY"; exit 9; }
cd /verif && ./check $ID --tier $TIER 2>&1 | grep -v "^WARNING" | grep -E "VIOLATION|KNOWN|UNDECIDED|ENGINE|obligation:|^C[0-9]+ \[" | head -${4:-12}
rc=${PIPESTATUS[0]}
cd /repo && git checkout -- . && git status --short | head -3
echo "exit=$rc"
