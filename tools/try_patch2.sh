#!/bin/bash
# usage: try_patch2.sh <patch.diff> <ID> [tier]  -- apply the patch to a scratch copy of /repo (under /dev/shm), run the check against it, remove the copy
P=$(readlink -f "$1"); ID=$2; TIER=${3:-quick}
S=/dev/shm/pyvc-scratch-$$; mkdir -p $S/out; cp -r /repo $S/repo
cd $S/repo && git apply "$P" || { echo "PATCH DOES NOT APPLY"; rm -rf $S; exit 9; }
cd /verif && PYVC_REPO=$S/repo PYVC_OUT_DIR=$S/out timeout ${TMO:-1500} ./check $ID --tier $TIER 2>&1 | grep -v "^WARNING" | grep -E "VIOLATION|KNOWN|UNDECIDED|ENGINE|obligation:|^C[0-9]+ \[" | head -${4:-10} | cut -c1-400
rc=${PIPESTATUS[0]}
rm -rf $S
echo "exit=$rc"
