"""C13 -- MIA result is the mutual information between binned samples and value classes.

  binning     MIADistinguisherMixin._accumulate_core (real source): for uniform edges e_k = e0 + k*w (e0 SYMBOLIC, widths from a grid, 2-3 bins)
              and EVERY sample value x: the entry incremented is the unique bin with e_k <= x < e_{k+1}, x == e_B goes to the last bin,
              anything else (below e0, above e_B) increments nothing; class -1 increments nothing
  MI          _compute / _compute_pdf: for arbitrary non-negative counts a[s,b,c] (S symbolic, 2 bins x 2 classes and 3 x 2):
              result == H(B) - H(B|V) = sum_c p(c) sum_b [p(b|c) ln p(b|c) - p(b) ln p(b)] with ln uninterpreted (ln 1 = 0), empty bins and
              empty classes contributing 0
  edges       bin_edges setter: every accepted edge list (3..5 symbolic edges) is strictly increasing with all consecutive widths equal
              within 1e-9; uniform lists are accepted; wrong types / too short lists are refused
"Zero when independent, never negative" are theorems about the definition (Gibbs' inequality), not re-proved: sampled natively."""
import sys, os, argparse, json, itertools
from fractions import Fraction
sys.path.insert(0, os.path.dirname(os.path.dirname(os.path.abspath(__file__))))
import z3
import numpy as _rnp
from pyvc import core, symnp, solve, loader as L, harness as H, report as R, parallel as P
from pyvc.core import SInt, SBV, SFloat, zi
from props import dist_common as DCm, kernels as KN
from props.dist_common import real_of

MM = KN.MM
def native(case): return R.replay_native('props.c13_native', case)

def binning(u, rep, B, width, tdtype, timeout):
    fnc = L.unwrap(u.mia.MIADistinguisherMixin.__dict__['_accumulate_core']); fn = MM + '::MIADistinguisherMixin._accumulate_core'
    wq = Fraction(width)
    for cls in (0, 1, -1):
        def body():
            X = KN.sym_traces('X', 1, 1, tdtype); D = symnp.from_real(_rnp.array([[cls]], dtype='int32'))
            e0 = core.sym_real('e0')
            edges = symnp.ndarray.fresh((B + 1,), lambda i: SFloat(e0.v + core.realval(wq) * z3.ToReal(zi(i[0])), 'float64'), 'float64')
            f = z3.Function('ACC', *([z3.IntSort()] * 5))
            acc = symnp.ndarray.fresh((1, B, 2, 1), lambda i: SBV(z3.Int2BV(f(*[zi(k) for k in i]), 32), 'uint32', f(*[zi(k) for k in i])), 'uint32')
            old = acc.snapshot(); fnc(X, D, edges, acc)
            return X, e0, acc, old
        for p, outc, exc in core.explore(body):
            nm = 'post[binning: %d bins of width %s, %s traces, class index %d]' % (B, width, tdtype, cls)
            if exc is not None:
                rep.obligation(nm, fn, 'post', dict(result='sat', backend='exec', secs=0), sample=repr(exc)); rep.violation(nm, fn, 'raises %r' % (exc,), dict(kind='binning', B=B, width=str(width)), None, *native(dict(kind='binning', B=B, width=str(width)))); continue
            X, e0, acc, old = outc; x = real_of(X.at(0, 0)); goals = []
            for b in range(B):
                lo = e0.v + core.realval(wq * b); hi = e0.v + core.realval(wq * (b + 1))
                inb = z3.And(x >= lo, z3.Or(x < hi, x == hi) if b == B - 1 else x < hi)
                for c in range(2):
                    g = acc.at(0, b, c, 0); o = old((0, b, c, 0))
                    inc = z3.If(inb, 1, 0) if c == cls else z3.IntVal(0)
                    goals.append((g.ival if g.ival is not None else z3.BV2Int(g.z)) == o.ival + inc)
            res = solve.discharge(p.pc, z3.And(*goals), extra=core.integral_axioms(), timeout_ms=timeout)
            rep.obligation(nm, fn, 'post', res, sample='forall x, e0: exactly the bin containing x is incremented (right-most edge inclusive), nothing outside the edges')
            if res['result'] == 'sat':
                m = res['model']; case = dict(kind='binning', B=B, width=str(width), x=str(solve.mval(m, x)), e0=str(solve.mval(m, e0.v)), cls=cls)
                rep.violation(nm, fn, 'sample %s with first edge %s lands in the wrong bin' % (case['x'], case['e0']), case, str(m)[:400], *native(case))

def ln(x): return core.flog(x)
def mi_spec(a, B, K, dt):
    """H(B) - H(B|V) = sum_c p(c) sum_b [p(b|c) ln p(b|c) - p(b) ln p(b)]   (uses sum_c p(c) = 1), probabilities estimated by counts,
    0 ln 0 = 0 (a zero probability is replaced by 1 under the logarithm), an empty class has weight 0"""
    F = lambda v: SFloat(v, dt)
    n = sum(a[b][c] for b in range(B) for c in range(K))
    nc = [sum(a[b][c] for b in range(B)) for c in range(K)]; nb = [sum(a[b][c] for c in range(K)) for b in range(B)]
    def prob(num, den): return F(num) / F(z3.If(den == 0, z3.RealVal(1), den))
    def plogp(p_):
        q = core.Ite(core.mk_bool(p_.v == 0), F(z3.RealVal(1)), p_); return q * ln(q)
    expected = [plogp(prob(nb[b], n)) for b in range(B)]
    total = F(z3.RealVal(0))
    for c in range(K):
        inner = F(z3.RealVal(0))
        for b in range(B): inner = inner + (plogp(prob(a[b][c], nc[c])) - expected[b])
        total = total + inner * (F(nc[c]) / F(n))
    return total

def mi_compute(u, rep, B, K, timeout):
    fn = MM + '::MIADistinguisherMixin._compute'
    def body():
        d = u.d.MIADistinguisher(bins_number=B, bin_edges=[float(k) for k in range(B + 1)], partitions=list(range(K)), precision='float64')
        n = core.sym_int('n', 1); S = core.sym_int('S', 1)
        d.processed_traces = n; d._origin_shape = (n, 1); d._trace_length = S; d._data_words = 1
        d.accumulators = H.sym_reals('A', (S, B, K, 1), 'float64')
        return d, S, d.compute()
    for p, outc, exc in core.explore(body, max_paths=200):
        nm = 'post[MI == H(B) - H(B|V): %d bins x %d classes]' % (B, K)
        if exc is not None:
            rep.obligation(nm, fn, 'post', dict(result='sat', backend='exec', secs=0), sample=repr(exc)); rep.violation(nm, fn, 'raises %r' % (exc,), dict(kind='mi', B=B, K=K), None, *native(dict(kind='mi', B=B, K=K))); continue
        d, S, res = outc
        s = z3.Int('s!'); cons = [s >= 0, s < S.z]
        a = [[real_of(d.accumulators.at(SInt(s), b, c, 0)) for c in range(K)] for b in range(B)]
        req = [a[b][c] >= 0 for b in range(B) for c in range(K)] + [sum(a[b][c] for b in range(B) for c in range(K)) > 0]      # at least one trace fell inside the edges
        ok_shape = isinstance(res, symnp.ndarray) and res.ndim == 2 and res.shape[0] == 1 and H.structurally_equal([res.shape[1]], [S])
        got = res.at(0, SInt(s)) if ok_shape else None
        exp = mi_spec(a, B, K, 'float64')
        r_ = solve.discharge(p.pc + cons + req, core.scalar_eq(got, exp), timeout_ms=timeout, nra=True) if ok_shape else dict(result='sat', backend='exec', secs=0)
        rep.obligation(nm, fn, 'post', r_, sample='forall non-negative counts, all samples; ln uninterpreted with ln 1 = 0; empty bins/classes contribute 0')
        if r_['result'] == 'sat': rep.violation(nm, fn, 'result differs from H(B) - H(B|V)', dict(kind='mi', B=B, K=K), str(r_.get('model'))[:500], *native(dict(kind='mi', B=B, K=K)))

def edges_setter(u, rep, nedges, timeout):
    fn = MM + '::MIADistinguisherMixin.bin_edges'
    def body():
        es = [core.sym_real('e%d' % k) for k in range(nedges)]
        d = u.d.MIADistinguisher(bins_number=nedges - 1, bin_edges=list(es))
        return es, d
    acc = 0
    for p, outc, exc in core.explore(body, max_paths=500):
        if exc is not None:
            if not isinstance(exc, ValueError): rep.obligation('raises[bin_edges setter, %d edges]' % nedges, fn, 'raises', dict(result='sat', backend='exec', secs=0), sample=repr(exc)); rep.violation('raises[bin_edges setter, %d edges]' % nedges, fn, 'unexpected %r' % (exc,), dict(kind='edges'), None, *native(dict(kind='edges')))
            continue
        es, d = outc; acc += 1
        w = [es[k + 1].v - es[k].v for k in range(nedges - 1)]
        tol = core.realval(Fraction(1e-9))          # the exact value of the float literal 1e-9 used by the setter
        goal = z3.And(*([wk > 0 for wk in w] + [z3.And(w[k + 1] - w[k] <= tol, w[k] - w[k + 1] <= tol) for k in range(len(w) - 1)]))
        res = solve.discharge(p.pc, goal, timeout_ms=timeout)
        nm = 'post[bin_edges setter accepts %d edges only if increasing and equally spaced (1e-9)]' % nedges
        rep.obligation(nm, fn, 'post', res, sample='on every accepting path of the real setter')
        if res['result'] == 'sat':
            m = res['model']; vals = [float(solve.mval(m, e.v)) for e in es]; case = dict(kind='edges', edges=vals)
            rep.violation(nm, fn, 'non-uniform edge list %s is accepted' % vals, case, str(m)[:300], *native(case))
    rep.cover('the setter has an accepting path for %d edges' % nedges, acc > 0)

def edges_refusals(u, rep):
    fn = MM + '::MIADistinguisherMixin.bin_edges'
    for name, val, et in (('uniform list accepted', [0.0, 0.5, 1.0, 1.5], None), ('string refused', 'abc', TypeError), ('single edge refused', [1.0], ValueError), ('decreasing refused', [3.0, 2.0, 1.0], ValueError), ('compensating widths refused', [0.0, 1.0, 3.0, 4.0], ValueError), ('narrowing refused', [0.0, 3.0, 4.0, 4.5], ValueError)):
        for p, outc, exc in core.explore(lambda: u.d.MIADistinguisher(bins_number=3, bin_edges=val)):
            ok = (exc is None) if et is None else isinstance(exc, et)
            rep.obligation('edges[%s]' % name, fn, 'raises' if et else 'post', dict(result='unsat' if ok else 'sat', backend='exec', secs=0), sample=repr(exc))
            if not ok: rep.violation('edges[%s]' % name, fn, '%s: got %r' % (name, exc), dict(kind='edges', edges=val if isinstance(val, list) else None), None, *native(dict(kind='edges', edges=val if isinstance(val, list) else None)))

def main():
    ap = argparse.ArgumentParser(); ap.add_argument('--tier', default=os.environ.get('VERIF_TIER', 'quick')); ap.add_argument('--replay')
    a = ap.parse_args(); seed = int(os.environ.get('VERIF_SEED', '0'))
    if a.replay:
        rp, o = native(json.load(open(a.replay))['case']); print(o); sys.exit(1 if rp else 0)
    rep = R.Report('C13', a.tier, seed); timeout = solve.TIMEOUT_MS[a.tier]
    R.prefetch_native('props.c13_native', ['bounded', str(seed), a.tier])      # the stand-in runs while the obligations are discharged
    u = DCm.Dist()
    for k in ('MIADistinguisherMixin._accumulate_core', 'MIADistinguisherMixin._compute', 'MIADistinguisherMixin._compute_pdf', 'MIADistinguisherMixin.bin_edges', 'MIADistinguisherMixin._accumulate', '_set_histogram_parameters'): rep.function(MM + '::' + k, u.sha(MM + '::' + k))
    units = []
    for B in (2, 3):
        for wd in (Fraction(1, 2), 1, 3):
            for td in (('float32',) if (a.tier == 'quick' and wd != 1) else ('float32', 'float64')): units.append(('bin', B, wd, td))
    units += [('mi', 2, 2), ('mi', 3, 2), ('edges', 3), ('edges', 4), ('edges', 5), ('refuse',)]
    units += [('miainv', 'float32', 3, -1, 2), ('miainv', 'float64', 2, 0, '1/2'), ('miainv', 'float32', 4, '1/4', '3/8'), ('miainv', 'uint8', 3, 0, 64)]      # the whole kernel by loop invariants, every extent symbolic
    def work(sub, kind, *args):
        if kind == 'bin': binning(u, sub, args[0], args[1], args[2], timeout)
        elif kind == 'mi': mi_compute(u, sub, args[0], args[1], timeout)
        elif kind == 'edges': edges_setter(u, sub, args[0], timeout)
        elif kind == 'refuse': edges_refusals(u, sub)
        elif kind == 'miainv':
            from props import kernel_inv as KI
            KI.report(sub, KI.mia_core(u, args[0], args[1], args[2], args[3]), 'MIA kernel loop invariants, all extents symbolic, %s traces, %d bins from %s of width %s' % args, KN.MM + '::MIADistinguisherMixin._accumulate_core', timeout, [(1, 1, 1), (1, 1, 0)], native, dict(kind='bin'))
    P.run_units(rep, work, units)
    rc, o, so, se = R.run_native('props.c13_native', ['bounded', str(seed), a.tier], timeout=2400)
    if o is None: rep.errors.append('native stand-in failed: %s %s' % (so[-400:], se[-900:]))
    else:
        rep.bounded.append(dict(function='MIADistinguisher end to end vs an independent histogram / entropy computation; edge-list refusals', bound=o['bound'], evaluations=o['evaluations'], distinct=o['evaluations'], exhaustive=False, failures=o['failures']))
        for f in o['failing'][:3]: rep.violation('bounded[native,%s]' % f.get('kind'), MM + '::MIADistinguisherMixin._compute', f.get('detail', 'differs'), f, None, True, f)
    rep.assume('A1', 'A2', 'A4', 'A6', 'T-pyvc')
    rep.trust('ln is uninterpreted apart from ln 1 = 0', 'the float product (x - min) * norm is exact (A1)')
    rep.not_decided.append('"zero when bins and classes are independent, never negative beyond rounding" are theorems about the definition H(B) - H(B|V) (Gibbs), not about the code: sampled by the native stand-in only')
    rep.not_decided.append('binning is proved for a symbolic first edge and widths 1/2, 1, 3 with 2 and 3 bins (the width enters a division: non-linear); MI for 2x2 and 3x2 bins x classes with a symbolic number of samples')
    sys.exit(rep.finish('./check C13 --tier %s' % a.tier))

if __name__ == '__main__':
    main()
