"""C11 -- results are independent of run-time kernel selection and thread count.

  same contract for both kernels   partitioned kernel 1 / kernel 2 and template-build kernel 1 / kernel 2 each satisfy the SAME postcondition
        (accumulator' == accumulator + batch moment, for an arbitrary accumulator state and fully symbolic batch contents, small concrete
        extents, class counts on both sides of the 9-class switch): the result is a function of the inputs, not of the kernel
  dispatch         the real _accumulate is executed with the measured timings replaced by arbitrary reals (havoc): every choice the timing
        comparison can make is explored and meets the same postcondition; with more than 9 classes kernel 1 is always taken
  precision flow   on the dtype grid (integer / float32 / float64 traces x float32 / float64 precision) no inexact floating-point operation is
        performed in a type narrower than the accumulator (precision taint carried by every symbolic float)
  thread count     data-race freedom of every prange loop (partitioned kernel 1, template kernels 1 and 2, MIA kernel, t-test kernel): each
        iteration writes only entries indexed by its own prange variable, or under `variable == 0` (syntactic check on the current AST);
        with A3 (prange == sequential range when race-free) the thread count cannot matter
"""
import sys, os, argparse, json, ast
sys.path.insert(0, os.path.dirname(os.path.dirname(os.path.abspath(__file__))))
import z3
import numpy as _rnp
from pyvc import core, symnp, solve, loader as L, harness as H, report as R, parallel as P
from pyvc.core import SFloat, zi
from props import kernel_inv as KI
from props import dist_common as DCm, kernels as KN
from props.dist_common import moment_tensor, real_of

def native(case): return R.replay_native('props.c11_native', case)

def dispatch(u, rep, dist, K, tdtype, precision, timeout):
    """_accumulate with havoc timings: all reachable kernel choices meet the additivity contract"""
    n, S, W = 2, 1, 1
    fn = (KN.PM + '::PartitionedDistinguisherMixin._accumulate') if dist == 'SNR' else (KN.TM + '::_TemplateBuildDistinguisherMixin._accumulate')
    import itertools
    chosen = set()
    for asg in KN.class_index_assignments(n, 1, K, limit=40):
        def body():
            core.NARROW_FLOWS.clear()
            if dist == 'SNR':
                d = u.d.SNRDistinguisher(partitions=list(range(K)), precision=precision)
                d.sum = moment_tensor('SUM', (S, W, K), precision); d.sum_square = moment_tensor('SQ', (S, W, K), precision); d.counters = moment_tensor('CNT', (W, K), precision)
                accs = ('sum', 'sum_square', 'counters')
            else:
                d = type('TB', (u.part.PartitionedDistinguisherBase, u.tpl._TemplateBuildDistinguisherMixin), {})(partitions=list(range(K)), precision=precision)
                d._exi = moment_tensor('EXI', (K, S), precision); d._exxi = moment_tensor('EXXI', (K, S, S), precision); d._counters = moment_tensor('CNT', (K,), precision)
                accs = ('_exi', '_exxi', '_counters')
            t1, t2 = core.sym_real('timing1'), core.sym_real('timing2'); d._timings = [t1, t2]
            calls = []
            for w_ in (1, 2):
                key = (KN.PM + '::PartitionedDistinguisherMixin._accumulate_core_%d' % w_) if dist == 'SNR' else (KN.TM + '::_TemplateBuildDistinguisherMixin._accumulate_core_%d' % w_)
                calls.append(key)
            log = []
            stubs = {k: (lambda body_, *a, _k=k, **kw: (log.append(_k), body_(*a, **kw))[1]) for k in calls}
            L.set_task(stubs=stubs)
            X = KN.sym_traces('X', n, S, tdtype); D, _ = KN.sym_class_index('D', n, 1, K, asg)
            old = {a_: getattr(d, a_).snapshot() for a_ in accs}
            d._accumulate(X, D); L.set_task()
            return d, X, D, old, log, list(core.NARROW_FLOWS), accs
        for p, outc, exc in core.explore(body):
            tag = '%s dispatch, %d classes, %s->%s' % (dist, K, tdtype, precision)
            if exc is not None:
                rep.obligation('post[%s]' % tag, fn, 'post', dict(result='sat', backend='exec', secs=0), sample=repr(exc)); rep.violation('post[%s]' % tag, fn, 'raises %r' % (exc,), dict(kind='dispatch', dist=dist, K=K), None, *native(dict(kind='dispatch', dist=dist, K=K))); continue
            d, X, D, old, log, flows, accs = outc
            chosen.add(log[0][-1] if log else '?')
            goals = []
            x = [real_of(X.at(t, 0)) for t in range(n)]
            for c in range(K):
                ind = [1 if int(D.concrete[t, 0]) == c else 0 for t in range(n)]
                if dist == 'SNR':
                    goals += [real_of(d.sum.at(0, 0, c)) == real_of(old['sum']((0, 0, c))) + sum(i * v for i, v in zip(ind, x)), real_of(d.sum_square.at(0, 0, c)) == real_of(old['sum_square']((0, 0, c))) + sum(i * v * v for i, v in zip(ind, x)),
                              real_of(d.counters.at(0, c)) == real_of(old['counters']((0, c))) + sum(ind)]
                else:
                    goals += [real_of(d._exi.at(c, 0)) == real_of(old['_exi']((c, 0))) + sum(i * v for i, v in zip(ind, x)), real_of(d._exxi.at(c, 0, 0)) == real_of(old['_exxi']((c, 0, 0))) + sum(i * v * v for i, v in zip(ind, x)),
                              real_of(d._counters.at(c)) == real_of(old['_counters']((c,))) + sum(ind)]
            res = solve.discharge(p.pc, z3.And(*goals), timeout_ms=timeout)
            nm = 'post[%s, kernel %s chosen: accumulator\' == accumulator + batch moment]' % (tag, chosen and (log[0][-1] if log else '?'))
            rep.obligation(nm, fn, 'post', res, sample='timings are arbitrary reals: every choice the comparison can make is explored')
            if res['result'] == 'sat': rep.violation(nm, fn, 'the chosen kernel does not add the batch moment', dict(kind='dispatch', dist=dist, K=K, tdtype=tdtype, precision=precision), str(res['model'])[:400], *native(dict(kind='dispatch', dist=dist, K=K, tdtype=tdtype, precision=precision)))
            okf = not flows
            rep.obligation('dtype[%s, kernel %s]' % (tag, log[0][-1] if log else '?'), fn, 'dtype-flow', dict(result='unsat' if okf else 'sat', backend='taint-scan', secs=0))
            if not okf: rep.violation('dtype[%s, kernel %s]' % (tag, log[0][-1] if log else '?'), fn, 'arithmetic in float%d flows into a float%d accumulator' % flows[0], dict(kind='dtype', dist=dist, tdtype=tdtype, precision=precision), 'precision taint', *native(dict(kind='dtype', dist=dist, tdtype=tdtype, precision=precision)))
    want = {'1'} if (dist == 'SNR' and K > 9) else {'1', '2'}
    rep.cover('%s with %d classes: kernel choices explored %s (expected %s)' % (dist, K, sorted(chosen), sorted(want)), chosen == want)

def race_freedom(u, rep):
    """every store inside a prange loop is indexed by the prange variable, or guarded by `variable == 0`"""
    targets = [(KN.PM, 'PartitionedDistinguisherMixin._accumulate_core_1'), (KN.TM, '_TemplateBuildDistinguisherMixin._accumulate_core_1'), (KN.TM, '_TemplateBuildDistinguisherMixin._accumulate_core_2'),
               (KN.MM, 'MIADistinguisherMixin._accumulate_core'), (KN.TT, 'TTestThreadAccumulator._update_core')]
    for mod, q in targets:
        u.ld.load(mod); src = u.ld.source_segment(mod + '::' + q); key = mod + '::' + q
        rep.function(key, u.sha(key))
        tree = ast.parse(__import__('textwrap').dedent(src)); fdef = tree.body[0]
        params = {a.arg for a in fdef.args.args}
        found = 0; bad = []
        for node in ast.walk(fdef):
            if isinstance(node, ast.For) and isinstance(node.iter, ast.Call) and getattr(node.iter.func, 'attr', None) == 'prange':
                found += 1; var = node.target.id
                local = set()
                def visit(stmts, guarded):
                    for st in stmts:
                        if isinstance(st, ast.If):
                            g = guarded or (isinstance(st.test, ast.Compare) and isinstance(st.test.left, ast.Name) and st.test.left.id == var and isinstance(st.test.ops[0], ast.Eq) and isinstance(st.test.comparators[0], ast.Constant) and st.test.comparators[0].value == 0)
                            visit(st.body, g); visit(st.orelse, guarded); continue
                        if isinstance(st, (ast.For, ast.While)): visit(st.body, guarded); continue
                        tg = st.targets if isinstance(st, ast.Assign) else ([st.target] if isinstance(st, ast.AugAssign) else [])
                        for t in tg:
                            if isinstance(t, ast.Name): local.add(t.id); continue
                            if isinstance(t, ast.Subscript):
                                base = t.value
                                while isinstance(base, ast.Subscript): base = base.value
                                if isinstance(base, ast.Name) and base.id in local: continue            # array allocated inside the iteration
                                idx = t.slice.elts if isinstance(t.slice, ast.Tuple) else [t.slice]
                                uses = any(isinstance(e, ast.Name) and e.id == var for e in idx)
                                if not (uses or guarded): bad.append(ast.unparse(t))
                        if isinstance(st, ast.Continue) or isinstance(st, ast.Expr): continue
                visit(node.body, False)
        ok = found >= 1 and not bad
        rep.obligation('race-freedom[%s: stores of distinct prange iterations are disjoint]' % q, key, 'data-race-freedom', dict(result='unsat' if ok else 'sat', backend='ast-scan', secs=0), sample='%d prange loop(s); offending stores: %s' % (found, bad))
        if not ok: rep.violation('race-freedom[%s: stores of distinct prange iterations are disjoint]' % q, key, 'a store is shared between prange iterations: %s' % (bad or 'no prange loop found'), dict(kind='race', function=q, stores=bad), 'AST scan', *native(dict(kind='threads')))

def main():
    ap = argparse.ArgumentParser(); ap.add_argument('--tier', default=os.environ.get('VERIF_TIER', 'quick')); ap.add_argument('--replay')
    a = ap.parse_args(); seed = int(os.environ.get('VERIF_SEED', '0'))
    if a.replay:
        rp, o = native(json.load(open(a.replay))['case']); print(o); sys.exit(1 if rp else 0)
    rep = R.Report('C11', a.tier, seed); timeout = solve.TIMEOUT_MS[a.tier]
    R.prefetch_native('props.c11_native', ['bounded', str(seed), a.tier])      # the stand-in runs while the obligations are discharged
    u = DCm.Dist(); u.ld.load(KN.TT)
    for k in (KN.PM + '::PartitionedDistinguisherMixin._accumulate', KN.PM + '::PartitionedDistinguisherMixin._accumulate_core_1', KN.PM + '::PartitionedDistinguisherMixin._accumulate_core_2',
              KN.TM + '::_TemplateBuildDistinguisherMixin._accumulate', KN.TM + '::_TemplateBuildDistinguisherMixin._accumulate_core_1', KN.TM + '::_TemplateBuildDistinguisherMixin._accumulate_core_2'): rep.function(k, u.sha(k))
    units = []
    grid = [('uint8', 'float32'), ('int16', 'float64'), ('float32', 'float32'), ('float32', 'float64'), ('float64', 'float32'), ('float64', 'float64')]
    for which in (1, 2):
        for td, pr in grid:
            units.append(('part', which, 2, 2, 1, 2, td, pr)); units.append(('tpl', which, 2, 2, 2, td, pr))
        units.append(('part', which, 1, 1, 1, 10, 'float32', 'float64'))
    for td, pr in (('float32', 'float64'), ('uint8', 'float32')):
        units += [('disp', 'SNR', 3, td, pr), ('disp', 'SNR', 9, td, pr), ('disp', 'SNR', 10, td, pr), ('disp', 'TB', 3, td, pr)]
    units += [('tt', 2, 2, 'float32', 'float64'), ('tt', 2, 1, 'float64', 'float32'), ('mia', 1, 2, 1, 2, 2, 'float32')]
    for td, pr in grid: units += [('inv', 'pk1', td, pr), ('inv', 'tk1', td, pr), ('inv', 'tt', td, pr)]
    units += [('k2n', 2, 1, 2, 'float32', 'float64'), ('k2n', 1, 2, 3, 'uint8', 'float32'), ('k2n', 2, 1, 9, 'int16', 'float64')]
    def work(sub, kind, *args):
        if kind == 'k2n': KI.report(sub, KI.partitioned_core2(u, *args), 'partitioned kernel 2, number of traces symbolic, %d samples x %d words x %d classes, %s->%s' % args, KN.PM + '::PartitionedDistinguisherMixin._accumulate_core_2', timeout, (), native, dict(kind='kernel', dist='SNR', which=2, tdtype=args[3], precision=args[4]), sat_is_undecided=True); return
        if kind == 'inv':
            which, td, pr = args
            fn_, key_, exp_, dist_ = {'pk1': (KI.partitioned_core1, KN.PM + '::PartitionedDistinguisherMixin._accumulate_core_1', (1, 1, 1), 'SNR'), 'tk1': (KI.template_core1, KN.TM + '::_TemplateBuildDistinguisherMixin._accumulate_core_1', (1, 1), 'TemplateBuild'), 'tt': (KI.ttest_core, KN.TT + '::TTestThreadAccumulator._update_core', (1,), 'ttest')}[which]
            KI.report(sub, fn_(u, td, pr), '%s loop invariants (class by value of the index, -1 contributes nothing), all extents symbolic, %s->%s' % ({'pk1': 'partitioned kernel 1', 'tk1': 'template build kernel 1', 'tt': 't-test kernel'}[which], td, pr), key_, timeout, exp_, native, dict(kind='kernel', dist=dist_, which=1, tdtype=td, precision=pr)); return
        if kind == 'part':
            which, n, S, W, K, td, pr = args
            KN.report_kernel(sub, KN.partitioned_kernel(u, which, n, S, W, K, td, pr), 'partitioned kernel %d, %dx%dx%d, %d classes, %s->%s' % (which, n, S, W, K, td, pr), KN.PM + '::PartitionedDistinguisherMixin._accumulate_core_%d' % which, timeout, native, dict(kind='kernel', dist='SNR', which=which, tdtype=td, precision=pr))
        elif kind == 'tpl':
            which, n, S, K, td, pr = args
            KN.report_kernel(sub, KN.template_kernel(u, which, n, S, K, td, pr), 'template build kernel %d, %dx%d, %d classes, %s->%s' % (which, n, S, K, td, pr), KN.TM + '::_TemplateBuildDistinguisherMixin._accumulate_core_%d' % which, timeout, native, dict(kind='kernel', dist='TemplateBuild', which=which, tdtype=td, precision=pr))
        elif kind == 'disp': dispatch(u, sub, args[0], args[1], args[2], args[3], timeout)
        elif kind == 'tt': KN.report_kernel(sub, KN.ttest_kernel(u, args[0], args[1], args[2], args[3]), 't-test kernel %dx%d %s->%s' % args, KN.TT + '::TTestThreadAccumulator._update_core', timeout, native, dict(kind='kernel', dist='ttest'))
        elif kind == 'mia': KN.report_kernel(sub, KN.mia_kernel(u, *args), 'MIA kernel', KN.MM + '::MIADistinguisherMixin._accumulate_core', timeout, native, dict(kind='kernel', dist='MIA'), check_flows=False)
    P.run_units(rep, work, units)
    race_freedom(u, rep)
    rc, o, so, se = R.run_native('props.c11_native', ['bounded', str(seed), a.tier], timeout=2400)
    if o is None: rep.errors.append('native stand-in failed: %s %s' % (so[-400:], se[-900:]))
    else:
        rep.bounded.append(dict(function='real numba kernels: every sequence of forced kernel choices over 3 batches, thread counts 1..16, class counts 3/9/10, integer / float32 / float64 traces with and without offset', bound=o['bound'], evaluations=o['evaluations'], distinct=o['evaluations'], exhaustive=o.get('exhaustive', False), failures=o['failures']))
        for f in o['failing'][:3]: rep.violation('bounded[native,%s]' % f.get('dist'), KN.PM + '::PartitionedDistinguisherMixin._accumulate', f.get('detail', 'kernel choice / thread count changes the result'), f, None, True, f)
    rep.assume('A1', 'A2', 'A3', 'A4', 'A6', 'T-pyvc')
    rep.trust('numba executes a race-free prange loop with the meaning of the sequential loop (A3); real thread schedules are not explored by this family')
    rep.not_decided.append('"up to floating-point rounding": arithmetic is real (A1); the precision-taint obligation is the part of the rounding clause that a contract can state (no narrow inexact arithmetic feeds a wider accumulator)')
    rep.not_decided.append('kernels proved for fully symbolic contents and small concrete extents (bounded in shape)')
    sys.exit(rep.finish('./check C11 --tier %s' % a.tier))

if __name__ == '__main__':
    main()
