"""C10, DES key completion: `_convert_hypothesis_bits_into_keys` proved by STRUCTURAL INDUCTION on the recursion (function-modular:
the recursive call is replaced by the function's own contract = induction hypothesis, the body runs once on a generic head).

Spec (from the property: "enumerates the completions" -- every key compatible with the known bits, each once).  For a bit list
`array` of length L whose entries are 0, 1 or 255 (= unknown), an integer x MATCHES array iff 0 <= x < 2^L and for every i the
bit of weight 2^(L-1-i) of x equals array[i] when array[i] is 0 or 1 (free when 255).  Defined by recursion on the head, which is the
form the obligations use (M_rest is the matching predicate of the tail, an uninterpreted predicate: the tail is arbitrary):
    matches([b] + rest, x)  <=>  0 <= x < 2^L  and  ( x >= 2^(L-1) ? (b in {1,255} and M_rest(x - 2^(L-1))) : (b in {0,255} and M_rest(x)) )
Contract C(array): the returned list R satisfies
    sound     for every i: matches(array, R[i])
    complete  for every x with matches(array, x) there is an i with R[i] == x
    distinct  R[i] != R[j] for i != j
Induction hypothesis = C(rest) for the list K returned by the recursive call: K has an arbitrary SYMBOLIC length m >= 0 and
uninterpreted elements K(i); soundness / distinctness are instantiated at the indices read, completeness is skolemised (J(x) is the
position of x in K).  The step is proved for every list length L in 2..64 (the code computes 1 << (L-1) from len(array): a concrete
case split, complete for the 64-entry list `_find_possible_keys` passes) and each of the three head values.
Base case L == 1: the property needs [array[0]] to be the single completion of a KNOWN last bit -- checked for head in {0, 1}; an
unknown last entry (255) would be returned as the number 255: stated as a precondition of the contract (entry 63 of the list built by
`_find_possible_keys` is a parity position and always 0: obligation `pre[last entry known]` in the caller part when it is proved, native
stand-in until then)."""
import z3
from pyvc import core, solve, loader as L, harness as H, report as R
from pyvc.core import SInt

MOD = 'scared.des.base'
FN = MOD + '::_convert_hypothesis_bits_into_keys'

def _step_case(des, rep, Ln, timeout):
    tag = 'L%d' % Ln
    P2 = 1 << (Ln - 1)
    K = z3.Function('K!' + tag, z3.IntSort(), z3.IntSort())
    M = z3.Function('Mrest!' + tag, z3.IntSort(), z3.BoolSort())
    J = z3.Function('J!' + tag, z3.IntSort(), z3.IntSort())
    state = {}
    def body():
        b = core.sym_int('b', 0, 255); core.assume(z3.Or(b.z == 0, b.z == 1, b.z == 255))
        m = core.sym_int('m', 0)
        rest = [core.sym_int('rest%d' % i, 0, 255) for i in range(Ln - 1)]
        depth = [0]; seen = []
        def stub(real, array):
            depth[0] += 1
            try:
                if depth[0] == 1: return real(array)
                seen.append(array)
                return L.SymList(m, lambda i: SInt(K(core.zi(i))))
            finally: depth[0] -= 1
        L.set_task(stubs={FN: stub})
        out = des.fn('_convert_hypothesis_bits_into_keys')([b] + rest)
        return b, m, out, seen, rest
    def matches(bz, x):
        return z3.And(x >= 0, x < 2 * P2, z3.If(x >= P2, z3.And(z3.Or(bz == 1, bz == 255), M(x - P2)), z3.And(z3.Or(bz == 0, bz == 255), M(x))))
    npaths = 0
    for p, outc, exc in core.explore(body):
        npaths += 1
        oname = 'step[convert_hypothesis,%s,path%d]' % (tag, npaths)
        if exc is not None:
            rep.obligation(oname, FN, 'post', dict(result='sat', backend='exec', secs=0), sample=repr(exc))
            rep.violation(oname, FN, 'raises %r' % (exc,), dict(kind='convert', L=Ln), None, None); continue
        b, m, out, seen, rest = outc
        # the recursion is on the tail, once or not at all
        ok_call = len(seen) == 1 and len(seen[0]) == Ln - 1 and all(a is r for a, r in zip(seen[0], rest))
        rep.obligation('call[convert_hypothesis,%s,path%d] recursive call on array[1:]' % (tag, npaths), FN, 'call', dict(result='unsat' if ok_call else 'sat', backend='exec', secs=0))
        if not ok_call:
            rep.violation('call[convert_hypothesis,%s,path%d]' % (tag, npaths), FN, 'the recursive call is not on the tail of the list', dict(kind='convert', L=Ln), None, None); continue
        n_out = out.__pyvc_len__() if hasattr(out, '__pyvc_len__') else len(out)
        i = z3.Int('i!' + tag); j = z3.Int('j!' + tag); x = z3.Int('x!' + tag); i2 = z3.Int('i2!' + tag)
        nz = core.zi(n_out); mz = m.z; bz = b.z
        def elem(ix):
            e = out[SInt(ix)] if hasattr(out, '__pyvc_len__') else None
            return core.zi(e)
        # induction hypothesis, instantiated: sound + range at every index of K that a result element can read; distinct; complete (skolem J)
        idxs = [i, j, i - mz, j - mz, J(x), J(x - P2)]
        ih = []
        for t in idxs:
            ih.append(z3.Implies(z3.And(t >= 0, t < mz), z3.And(M(K(t)), K(t) >= 0, K(t) < P2)))
        for t in idxs:
            for u in idxs:
                ih.append(z3.Implies(z3.And(t >= 0, t < mz, u >= 0, u < mz, t != u), K(t) != K(u)))
        for t in (x, x - P2):
            ih.append(z3.Implies(z3.And(M(t), t >= 0, t < P2), z3.And(J(t) >= 0, J(t) < mz, K(J(t)) == t)))
            ih.append(z3.Implies(z3.And(J(t) >= 0, J(t) < mz), z3.And(M(K(J(t))), K(J(t)) >= 0, K(J(t)) < P2)))
        # the matching predicate of the tail only holds inside the tail's range
        ih.append(z3.Implies(M(x), z3.And(x >= 0, x < P2))); ih.append(z3.Implies(M(x - P2), z3.And(x - P2 >= 0, x - P2 < P2)))
        pc = list(p.pc) + ih
        ei = elem(i); ej = elem(j)
        res = solve.discharge(pc + [i >= 0, i < nz], matches(bz, ei), timeout_ms=timeout)
        rep.obligation(oname + ' sound: every returned number matches [head] + tail', FN, 'post', res)
        bad = res['result'] == 'sat'
        res2 = solve.discharge(pc + [i >= 0, i < nz, j >= 0, j < nz, i != j], ei != ej, timeout_ms=timeout)
        rep.obligation(oname + ' distinct: no completion twice', FN, 'post', res2); bad |= res2['result'] == 'sat'
        # completeness: witness position chosen from the skolemised hypothesis
        # (the order of the returned list is not part of the property: each candidate position of either concatenation order is offered)
        goal3 = z3.Or(*[z3.And(w >= 0, w < nz, elem(w) == x) for w in (J(x - P2), mz + J(x - P2), J(x), mz + J(x))])
        res3 = solve.discharge(pc + [matches(bz, x)], goal3, timeout_ms=timeout)
        rep.obligation(oname + ' complete: every matching number is returned', FN, 'post', res3); bad |= res3['result'] == 'sat'
        if bad:
            r = [r_ for r_ in (res, res2, res3) if r_['result'] == 'sat'][0]
            mdl = r.get('model'); hv = solve.mval(mdl, bz) if mdl is not None else 255
            case = dict(kind='convert', L=Ln, head=int(hv) if hv is not None else 255)
            rp_, o = R.replay_native('props.c10_native', case)
            rep.violation(oname, FN, 'completions of [head] + tail are not exactly the matching numbers (head=%s, length %d)' % (hv, Ln), case, str(mdl)[:800], rp_, o)
    return npaths

def _base_case(des, rep, timeout):
    def body():
        b = core.sym_int('b', 0, 1)
        L.set_task(stubs={})
        return b, des.fn('_convert_hypothesis_bits_into_keys')([b])
    for p, outc, exc in core.explore(body):
        if exc is not None:
            rep.obligation('base[convert_hypothesis]', FN, 'post', dict(result='sat', backend='exec', secs=0), sample=repr(exc))
            rep.violation('base[convert_hypothesis]', FN, 'raises %r' % (exc,), dict(kind='convert', L=1, head=0), None, None); continue
        b, out = outc
        ok = isinstance(out, list) and len(out) == 1
        res = solve.discharge(p.pc, core.zi(out[0]) == b.z, timeout_ms=timeout) if ok else dict(result='sat', backend='exec', secs=0)
        rep.obligation('base[convert_hypothesis] a one-entry list with a known bit has that bit as its only completion', FN, 'post', res)
        if res['result'] == 'sat':
            case = dict(kind='convert', L=1, head=0); rp_, o = R.replay_native('props.c10_native', case)
            rep.violation('base[convert_hypothesis]', FN, 'base case wrong', case, None, rp_, o)

def units(tier):
    return [('base', 0)] + [('step', n) for n in range(2, 65)]

def work(des, sub, kind, n, timeout):
    if kind == 'base': _base_case(des, sub, timeout)
    else:
        np_ = _step_case(des, sub, n, timeout)
        sub.cover('convert_hypothesis L=%d: the generic step is reachable' % n, np_ >= 1)

# ------------------------------------------------------------------------------------------------------------------------------------
# _find_possible_keys: the 48-iteration loop that undoes PC-2 branches on one round-key bit per iteration (2^48 paths when executed as
# written).  It is cut per iteration (loops.LoopCutAt, complete case split over the concrete index k): the invariant DETERMINES the
# 56-entry work array after k iterations -- entry PC2[j]-1 holds round-key bit j for j < k, every other entry its initial value (the
# code's own literal: 0, or 255 = unknown) -- so each exploration has two paths (bit set / clear).  After the loop the real code runs on
# (un-rotation, un-PC-1, the call of _convert_hypothesis_bits_into_keys -- a modular call whose argument is captured).
# Postcondition, for the round key r of an ARBITRARY key (64 symbolic bits, round key built with the spec schedule):
#   the bit list handed to _convert_hypothesis_bits_into_keys has, at every position, either the marker 255 or the key's own bit with the
#   parity positions (8, 16, .., 64) 0; exactly 8 markers; the last entry is known (precondition of the induction's base case).
# With the contract of _convert_hypothesis_bits_into_keys (complete: every number matching the list is returned) the key with cleared
# parity bits is therefore among the candidates, and (sound) every candidate agrees with the key on the 48 bits the round key fixes.
FPK = MOD + '::_find_possible_keys'

def _cval(v):
    """concrete value of an array element (python / numpy number or a constant machine integer), else None"""
    if not core.is_sym(v):
        try: return int(v)
        except Exception: return None
    return core.conc(v.z) if hasattr(v, 'z') else None

def find_possible_keys_case(des, rep, nb_round, timeout):
    import inspect
    from pyvc import symnp, loops
    from pyvc.core import SBV
    from specs import fips46 as D
    from props.des_common import bits_of
    tag = 'round %d' % nb_round
    npaths = 0; entered_bad = False
    for k in [None] + list(range(48)):
        cap = {}
        def body():
            key = H.sym_bytes('K', (8,), 'uint8')
            kb = sum([bits_of(key.at(j), 8) for j in range(8)], [])
            rkb = D.key_schedule_bits(kb)[nb_round]
            words = [SBV(z3.Concat(z3.BitVecVal(0, 2), *[b if z3.is_expr(b) else z3.BitVecVal(int(b), 1) for b in rkb[6 * w:6 * w + 6]]), 'uint8') for w in range(8)]
            rk = symnp.ndarray.fresh((8,), lambda i: words[i[0]], 'uint8')
            st = {}
            def arr():
                fr = [f for f in inspect.stack() if f.function == '_find_possible_keys' and 'ci_di' in f.frame.f_locals]
                return fr[0].frame.f_locals['ci_di']
            def bit_term(j): return SBV(z3.ZeroExt(7, rkb[j] if z3.is_expr(rkb[j]) else z3.BitVecVal(int(rkb[j]), 1)), 'uint8')
            def establish():
                a = arr(); st['init'] = [a.at(p) for p in range(56)]
                ok = all(_cval(v) in (0, 255) for v in st['init'])
                loops.oblige('establish: the work array starts from the 0 / unknown-marker literal', 'invariant-init', z3.BoolVal(ok))
            def state(kk):
                vals = list(st['init'])
                for j in range(kk): vals[D.PC2[j] - 1] = bit_term(j)
                return vals
            def havoc(kk):
                a = arr()
                for p, v in enumerate(state(kk)): a[p] = v
            def preserve(kk):
                a = arr(); exp = state(kk + 1)
                got = [a.at(p) for p in range(56)]
                goal = z3.And(*[core.zb(core.cast(g, 'uint8') == core.cast(e, 'uint8')) for g, e in zip(got, exp)])
                loops.oblige('preserve: after iteration %d entry PC2[%d]-1 holds round-key bit %d, all other entries unchanged' % (kk, kk, kk), 'invariant-step', goal)
            lc = loops.LoopCutAt('fpk', k, establish, havoc, preserve)
            def conv_stub(real, array): cap['list'] = list(array); return [0]
            L.set_task(stubs={FN: conv_stub}, loops={FPK + '#0': lc})
            out = des.fn('_find_possible_keys')(rk, nb_round)
            return kb, cap.get('list'), lc.entered
        for p, outc, exc in core.explore(body):
            npaths += 1
            oname = 'loop[_find_possible_keys,%s,iteration %s]' % (tag, k)
            if exc is not None:
                rep.obligation(oname, FPK, 'post', dict(result='sat', backend='exec', secs=0), sample=repr(exc))
                rep.violation(oname, FPK, 'raises %r' % (exc,), dict(kind='candidates', round=nb_round), None, *R.replay_native('props.c10_native', dict(kind='candidates', round=nb_round))); continue
            kb, lst, entered = outc
            if entered != 1: entered_bad = True
            for ob in p.obligations:
                res = solve.discharge(ob['pc'], ob['goal'], timeout_ms=timeout)
                rep.obligation('%s [%s]' % (ob['name'], tag), FPK, ob['kind'], res)
                if res['result'] == 'sat':
                    case = dict(kind='candidates', round=nb_round)
                    rep.violation('%s [%s]' % (ob['name'], tag), FPK, ob['name'], case, str(res.get('model'))[:600], *R.replay_native('props.c10_native', case))
            if k is None:
                # exit: the list handed to the completion helper, from the invariant at 48
                ok_len = isinstance(lst, list) and len(lst) == 64
                goals = []; markers = 0; structural_bad = None
                if ok_len:
                    for i, v in enumerate(lst):
                        iv = _cval(v)
                        if iv is not None:
                            if iv == 255:
                                markers += 1
                                if i % 8 == 7: structural_bad = structural_bad or 'unknown marker at parity position %d' % i
                            elif iv != 0 or i % 8 != 7: structural_bad = structural_bad or 'constant %d at key position %d' % (iv, i)
                        elif i % 8 == 7: structural_bad = structural_bad or 'parity position %d is not 0' % i
                        else: goals.append(core.zb(core.cast(v, 'uint8') == SBV(z3.ZeroExt(7, kb[i]), 'uint8')))
                    if markers != 8: structural_bad = structural_bad or '%d unknown markers, 8 expected' % markers
                    if _cval(lst[63]) != 0: structural_bad = structural_bad or 'last entry is not a known 0'
                else: structural_bad = 'the completion helper is not called with a 64-entry list'
                res = dict(result='sat', backend='exec', secs=0) if structural_bad else solve.discharge(p.pc, z3.And(*goals) if goals else z3.BoolVal(True), timeout_ms=timeout)
                rep.obligation('post[_find_possible_keys,%s]: the list completed is the key with 8 unknown markers, parity positions 0, last entry known' % tag, FPK, 'post', res, sample=structural_bad)
                if res['result'] == 'sat':
                    case = dict(kind='candidates', round=nb_round)
                    rep.violation('post[_find_possible_keys,%s]' % tag, FPK, structural_bad or 'a known position of the list differs from the key bit', case, str(res.get('model'))[:600], *R.replay_native('props.c10_native', case))
    if entered_bad: rep.errors.append('loop contract of _find_possible_keys entered a number of times other than 1 (%s)' % tag)
    rep.cover('_find_possible_keys %s: both values of a round-key bit explored in the generic iterations' % tag, npaths >= 48 * 2)
