"""C07 -- ready-made selection functions predict the real cipher state under the true key.

Contracts over scared/aes/selection_functions/encrypt.py, scared/des/selection_functions/encrypt.py (decrypt namespaces are
aliases, checked as such) and scared/selection_functions/base.py.  The cipher functions they call (aes.sub_bytes,
aes.inv_sub_bytes, aes.shift_rows, aes.key_schedule, des.encrypt, des.key_schedule) are MODULAR calls: replaced by their C05 /
C06 / C10 contracts, never by their bodies.
  per-word formula  out[n, g, w] == f_w(data[n], guesses[g])        (every other guess column is the same computation)
  shape             (traces, guesses, words), also for a batch of ONE trace
  expected key      _first_key / _last_key == first / last round key for every key length
  true-key lemma    with guesses[g] == expected_key(key)[w]: out[n, g, w] == the targeted word of fips cipher state
  words / guesses   selecting words (int, list, slice, array, Ellipsis) returns exactly that slice of the full output
"""
import sys, os, argparse, json
sys.path.insert(0, os.path.dirname(os.path.dirname(os.path.abspath(__file__))))
import z3
import numpy as _rnp
from pyvc import core, symnp, solve, loader as L, harness as H, report as R, parallel as P
from pyvc.core import SInt, SBV, zi
from specs import fips197 as F, fips46 as D
from props import aes_common as AC, des_common as DC
from props.aes_common import SymAlg
from props.des_common import SymBits, bits_of, word_of, words_of
from props import c05 as C5, c06 as C6

AMOD = 'scared.aes.selection_functions.encrypt'; DMOD = 'scared.des.selection_functions.encrypt'; BMOD = 'scared.selection_functions.base'
SR = F.shift_rows(list(range(16)))

def native(case): return R.replay_native('props.c07_native', case)

class Under:
    def __init__(self):
        self.aes = AC.AesUnderProof()                     # loads scared.aes.base (+ table hooks)
        self.ld = self.aes.ld
        self.des = DC.DesUnderProof.__new__(DC.DesUnderProof)
        # share one loader so that scared.aes/des modules are the same objects the selection functions import
        self.des.ld = self.ld; self.des.mod = self.ld.load('scared.des.base'); self.des.table_ok = {'SBOXES': True}; self.des.pending = []
        self.amod = self.ld.load(AMOD); self.dmod = self.ld.load(DMOD)
        self.adec = self.ld.load('scared.aes.selection_functions.decrypt'); self.ddec = self.ld.load('scared.des.selection_functions.decrypt')
        self.base = self.ld.load(BMOD)

# ----------------------------------------------------------------------------- modular stubs (contracts of the callees)
def aes_stubs():
    st = {C5.MOD + '::' + n: C5.prim_stub(n) for n in ('sub_bytes', 'inv_sub_bytes', 'shift_rows', 'inv_shift_rows')}
    st[C5.MOD + '::key_schedule'] = C5.key_schedule_stub
    st['scared._utils::_is_bytes_array'] = C5.bytes_stub
    return st

def des_encrypt_stub(body, plaintext, key, at_round=None, after_step=9, at_des=None):
    """C06 contract of des.encrypt for an expanded single-DES key (128 six-bit words), stop in pass 0"""
    assert key.ndim == 1 and key.shape[0] == 128 and plaintext.shape[-1] == 8
    many = plaintext.ndim == 2
    fs = plaintext.snapshot(); fk = key.snapshot(); rows = {}
    ar = 15 if at_round is None else int(at_round); stp = int(after_step)
    rks = [sum([bits_of(fk((8 * r + w,)), 6) for w in range(8)], []) for r in range(16)]
    probe = D.tdes([0] * 64, [[[0] * 48] * 16], 0, ar, stp)[0]
    nout = {'LR64': 8, 'E48': 8, 'S32': 8, 'P32': 4}[probe]
    def row_words(lead):
        k = symnp._key(lead)
        if k not in rows:
            block = sum([bits_of(fs(lead + (j,)), 8) for j in range(8)], [])
            kind, bits = D.tdes(block, [rks], 0, ar, stp, SymBits); rows[k] = (words_of(kind, bits), lead)
        return rows[k][0]
    if many:
        N = plaintext.shape[0]
        if isinstance(N, int): one = N == 1
        else: one = bool(N == 1)            # squeeze(): forks on a batch of one trace
        if not one: return symnp.ndarray.fresh((N, nout), lambda i: row_words((i[0],))[i[1]], 'uint8')
        return symnp.ndarray.fresh((nout,), lambda i: row_words((0,))[i[0]], 'uint8')
    return symnp.ndarray.fresh((nout,), lambda i: row_words(())[i[0]], 'uint8')

DRK = z3.Function('DesRoundKeyWordSF', z3.IntSort(), z3.IntSort(), z3.IntSort(), z3.BitVecSort(6))     # (key row, round, word)
def des_key_schedule_stub(body, key, interrupt_after_round=15):
    if key.ndim == 1: return symnp.ndarray.fresh((16, 8), lambda i: SBV(z3.ZeroExt(2, DRK(z3.IntVal(0), zi(i[0]), zi(i[1]))), 'uint8'), 'uint8')
    return symnp.ndarray.fresh((key.shape[0], 16, 8), lambda i: SBV(z3.ZeroExt(2, DRK(zi(i[0]), zi(i[1]), zi(i[2]))), 'uint8'), 'uint8')
def des_stubs():
    return {C6.MOD + '::encrypt': des_encrypt_stub, C6.MOD + '::key_schedule': des_key_schedule_stub, 'scared._utils::_is_bytes_array': C5.bytes_stub}

# ----------------------------------------------------------------------------- AES
AES_CLASSES = {      # class -> (tag, expected key = which round key, per-word formula, true-state description)
    'FirstAddRoundKey': ('plaintext', 'first'), 'FirstSubBytes': ('plaintext', 'first'),
    'LastAddRoundKey': ('ciphertext', 'last'), 'LastSubBytes': ('ciphertext', 'last'), 'DeltaRLastRounds': ('ciphertext', 'last'),
}
def aes_formula(cls, row, g, w):
    x = core.cast(row[w], 'uint8') ^ g
    if cls in ('FirstAddRoundKey', 'LastAddRoundKey'): return x
    if cls == 'FirstSubBytes': return SymAlg.sbox(x)
    if cls == 'LastSubBytes': return SymAlg.inv_sbox(x)
    if cls == 'DeltaRLastRounds': return core.cast(row[SR[w]], 'uint8') ^ SymAlg.inv_sbox(x)

def aes_true_state(cls, kl, w, pt_row, rks):
    """the targeted word of the FIPS-197 cipher state, as a term over the PLAINTEXT and the round keys; also returns the data row
    (plaintext or the FIPS ciphertext) the selection function is fed with"""
    nr = F.NR[kl]
    if cls == 'FirstAddRoundKey': return pt_row, F.cipher(pt_row, rks, 'encrypt', 0, 3, SymAlg)[w]
    if cls == 'FirstSubBytes': return pt_row, F.cipher(pt_row, rks, 'encrypt', 1, 0, SymAlg)[w]
    ct = F.cipher(pt_row, rks, 'encrypt', nr, 3, SymAlg)
    if cls == 'LastAddRoundKey': return ct, F.cipher(pt_row, rks, 'encrypt', nr, 1, SymAlg)[w]           # input of the last AddRoundKey
    s9 = F.cipher(pt_row, rks, 'encrypt', nr - 1, 3, SymAlg)
    if cls == 'LastSubBytes': return ct, s9[SR[w]]                                                        # input of the last SubBytes feeding position w
    if cls == 'DeltaRLastRounds': return ct, s9[SR[w]] ^ ct[SR[w]]

def aes_formula_case(u, rep, ns, cls, dtype, G, timeout):
    mod = u.amod if ns == 'encrypt' else u.adec
    cname = cls if ns == 'encrypt' else {'FirstAddRoundKey': 'LastAddRoundKey', 'LastAddRoundKey': 'FirstAddRoundKey', 'FirstSubBytes': 'LastSubBytes', 'LastSubBytes': 'FirstSubBytes', 'DeltaRLastRounds': 'DeltaRFirstRounds'}[cls]
    tag = AES_CLASSES[cls][0]
    def body():
        N = core.sym_int('N', 1); data = H.sym_bytes('X', (N, 16), dtype)
        guesses = H.sym_bytes('G', (G,), 'uint8') if G else None
        L.set_task(stubs=aes_stubs())
        sf = getattr(mod, cname)(guesses=guesses) if G else getattr(mod, cname)()
        return N, data, (guesses if G else sf.guesses), sf(**{tag: data})
    oname = 'post[aes.%s.%s,%s,G=%s]' % (ns, cname, dtype, G or 'default')
    case = dict(kind='aes_formula', ns=ns, cls=cname, dtype=dtype, G=G)
    for p, outc, exc in core.explore(body):
        if exc is not None:
            rep.obligation(oname, AMOD + '::' + cls, 'post', dict(result='sat', backend='exec', secs=0), sample=repr(exc))
            rep.violation(oname, AMOD + '::' + cls, 'raises %r' % (exc,), case, None, *native(case)); continue
        N, data, guesses, out = outc
        ng = guesses.shape[0]
        ok_shape = out.ndim == 3 and H.structurally_equal([out.shape[0]], [N]) and out.shape[1] == ng and out.shape[2] == 16
        if not ok_shape:
            rep.obligation(oname + ':shape', AMOD + '::' + cls, 'post', dict(result='sat', backend='exec', secs=0), sample='shape %s' % (out.shape,))
            rep.violation(oname + ':shape', AMOD + '::' + cls, 'output shape %s, expected (traces, guesses, 16)' % (out.shape,), case, None, *native(case)); continue
        n = z3.Int('n!'); cons = [n >= 0, n < N.z]; row = [data.at(SInt(n), j) for j in range(16)]
        gidx = range(ng) if G else [0, 1, 0x53, 0xff]
        got = []; exp = []
        for g in gidx:
            for w in range(16):
                got.append(out.at(SInt(n), g, w)); exp.append(aes_formula(cls, row, guesses.at(g), w))
        res = dict(result='unsat', backend='structural', secs=0) if H.structurally_equal(got, exp, simp=True) else solve.discharge(p.pc + cons, H.eq_all(got, exp), timeout_ms=timeout)
        rep.obligation(oname, AMOD + '::' + cls, 'post', res, sample='out[n, g, w] == f_w(data[n], guesses[g]) for every trace n, guess g, word w')
        if res['result'] == 'sat': rep.violation(oname, AMOD + '::' + cls, 'hypothesis differs from the one-key-word computation', case, str(res.get('model'))[:600], *native(case))

def aes_true_key_case(u, rep, cls, kl, timeout):
    tag, which = AES_CLASSES[cls]; nr = F.NR[kl]; uf = C5.ks_uf(nr)
    def body():
        pt = H.sym_bytes('P', (1, 16), 'uint8'); key = H.sym_bytes('K', (kl,), 'uint8')
        L.set_task(stubs=aes_stubs())
        sf0 = getattr(u.amod, cls)()
        ek = sf0.compute_expected_key(key=key)
        return pt, key, ek
    oname = 'lemma[aes.%s true key,%d]' % (cls, kl); case = dict(kind='aes_true', cls=cls, kl=kl)
    for p, outc, exc in core.explore(body):
        if exc is not None:
            rep.obligation(oname, AMOD + '::' + cls, 'lemma', dict(result='sat', backend='exec', secs=0), sample=repr(exc))
            rep.violation(oname, AMOD + '::' + cls, 'expected key raises %r' % (exc,), case, None, *native(case)); continue
        pt, key, ek = outc
        rks = [[SBV(uf(z3.IntVal(0), z3.IntVal(r), z3.IntVal(j)), 'uint8') for j in range(16)] for r in range(nr + 1)]
        want = rks[0] if which == 'first' else rks[nr]
        ok = isinstance(ek, symnp.ndarray) and ek.shape == (16,)
        res = dict(result='unsat', backend='structural', secs=0) if ok and H.structurally_equal([ek.at(j) for j in range(16)], want) else dict(result='sat', backend='exec', secs=0)
        rep.obligation('post[aes.%s expected key == %s round key,%d]' % (cls, which, kl), AMOD + ('::_first_key' if which == 'first' else '::_last_key'), 'post', res)
        if res['result'] == 'sat':
            rep.violation('post[aes.%s expected key == %s round key,%d]' % (cls, which, kl), AMOD + ('::_first_key' if which == 'first' else '::_last_key'), 'expected key is not the %s round key' % which, case, None, *native(case)); continue
        # feed the selection function with the data the real cipher produces, the guess being the expected key word
        pt_row = [pt.at(0, j) for j in range(16)]
        goals_g = []; goals_e = []
        for w in range(16):
            data_row, target = aes_true_state(cls, kl, w, pt_row, rks)
            goals_g.append(aes_formula(cls, data_row, ek.at(w), w)); goals_e.append(target)
        res = dict(result='unsat', backend='structural', secs=0) if H.structurally_equal(goals_g, goals_e, simp=True) else solve.discharge(p.pc, H.eq_all(goals_g, goals_e), extra=AC.sbox_axioms(), timeout_ms=timeout)
        rep.obligation(oname, AMOD + '::' + cls, 'lemma', res, sample='f_w(data, expected_key[w]) == targeted word of the FIPS-197 state (over the C05 contracts of encrypt)')
        if res['result'] == 'sat': rep.violation(oname, AMOD + '::' + cls, 'true-key hypothesis is not the targeted cipher state', case, str(res.get('model'))[:600], *native(case))

# ----------------------------------------------------------------------------- DES
DES_CLASSES = {'FirstAddRoundKey': ('plaintext', 'first', 2), 'LastAddRoundKey': ('ciphertext', 'last', 2), 'FirstSboxes': ('plaintext', 'first', 3), 'LastSboxes': ('ciphertext', 'last', 3),
               'FeistelRFirstRounds': ('plaintext', 'first', 7), 'FeistelRLastRounds': ('ciphertext', 'last', 7), 'DeltaRFirstRounds': ('plaintext', 'first', 8), 'DeltaRLastRounds': ('ciphertext', 'last', 8)}
DEC_ALIAS = {'FirstAddRoundKey': 'LastAddRoundKey', 'LastAddRoundKey': 'FirstAddRoundKey', 'FirstSboxes': 'LastSboxes', 'LastSboxes': 'FirstSboxes',
             'FeistelRFirstRounds': 'FeistelRLastRounds', 'FeistelRLastRounds': 'FeistelRFirstRounds', 'DeltaRFirstRounds': 'DeltaRLastRounds', 'DeltaRLastRounds': 'DeltaRFirstRounds'}

def des_formula_words(step, block_bits, g6):
    """words of the first-round stop value when every round-key word equals the six bits g6"""
    kind, bits = D.des_pass(block_bits, [g6 * 8] + [[0] * 48] * 15, 0, step, True, True, SymBits)
    return words_of(kind, bits)

def des_formula_case(u, rep, ns, cls, N1, G, timeout):
    mod = u.dmod if ns == 'encrypt' else u.ddec
    base_cls = cls if ns == 'encrypt' else DEC_ALIAS[cls]
    tag, which, step = DES_CLASSES[base_cls]
    def body():
        N = 1 if N1 else core.sym_int('N', 2)
        data = H.sym_bytes('X', (N, 8), 'uint8'); guesses = H.sym_bytes('G', (G,), 'uint8', bits=6) if G else None
        L.set_task(stubs=des_stubs())
        sf = getattr(mod, cls)(guesses=guesses) if G else getattr(mod, cls)()
        return N, data, (guesses if G else sf.guesses), sf(**{tag: data})
    oname = 'post[des.%s.%s,%s,G=%s]' % (ns, cls, 'one trace' if N1 else 'N traces', G or 'default'); case = dict(kind='des_formula', ns=ns, cls=cls, one=N1, G=G)
    for p, outc, exc in core.explore(body):
        if exc is not None:
            rep.obligation(oname, DMOD + '::_des_function', 'post', dict(result='sat', backend='exec', secs=0), sample=repr(exc))
            rep.violation(oname, DMOD + '::_des_function', 'raises %r' % (exc,), case, None, *native(case)); continue
        N, data, guesses, out = outc
        ng = guesses.shape[0]
        ok_shape = out.ndim == 3 and H.structurally_equal([out.shape[0]], [N]) and out.shape[1] == ng and out.shape[2] == 8
        if not ok_shape:
            rep.obligation(oname + ':shape', DMOD + '::_des_function', 'post', dict(result='sat', backend='exec', secs=0), sample='shape %s' % (out.shape,))
            rep.violation(oname + ':shape', DMOD + '::_des_function', 'output shape %s, expected (traces, guesses, 8)' % (out.shape,), case, None, *native(case)); continue
        if N1: n, cons = 0, []
        else: nn = z3.Int('n!'); n = SInt(nn); cons = [nn >= 0, nn < N.z]
        block = sum([bits_of(data.at(n, j), 8) for j in range(8)], [])
        got = []; exp = []
        for g in (range(ng) if G else [0, 1, 33, 63]):
            ws = des_formula_words(step, block, bits_of(guesses.at(g), 6))
            for w in range(8): got.append(word_of(bits_of(out.at(n, g, w), 8))); exp.append(ws[w])
        res = dict(result='unsat', backend='structural', secs=0) if H.structurally_equal(got, exp) else solve.discharge(p.pc + cons, H.eq_all(got, exp), timeout_ms=timeout)
        rep.obligation(oname, DMOD + '::_des_function', 'post', res, sample='out[n, g, w] == word w of the first-round value with round-key word g (FIPS 46-3, over the C06 contract of encrypt)')
        if res['result'] == 'sat': rep.violation(oname, DMOD + '::_des_function', 'hypothesis differs from the one-key-word computation', case, str(res.get('model'))[:600], *native(case))

def des_true_key_case(u, rep, cls, timeout):
    tag, which, step = DES_CLASSES[cls]
    def body():
        key = H.sym_bytes('K', (8,), 'uint8'); L.set_task(stubs=des_stubs())
        return key, getattr(u.dmod, cls)().compute_expected_key(key=key)
    oname = 'lemma[des.%s true key]' % cls; case = dict(kind='des_true', cls=cls)
    for p, outc, exc in core.explore(body):
        if exc is not None:
            rep.obligation(oname, DMOD + '::' + cls, 'lemma', dict(result='sat', backend='exec', secs=0), sample=repr(exc))
            rep.violation(oname, DMOD + '::' + cls, 'expected key raises %r' % (exc,), case, None, *native(case)); continue
        key, ek = outc
        rkw = lambda r, w: SBV(z3.ZeroExt(2, DRK(z3.IntVal(0), z3.IntVal(r), z3.IntVal(w))), 'uint8')
        r_want = 0 if which == 'first' else 15
        ok = isinstance(ek, symnp.ndarray) and ek.shape == (8,) and H.structurally_equal([ek.at(w) for w in range(8)], [rkw(r_want, w) for w in range(8)])
        res = dict(result='unsat' if ok else 'sat', backend='structural' if ok else 'exec', secs=0)
        nm = 'post[des.%s expected key == round key %d]' % (cls, r_want + 1)
        rep.obligation(nm, DMOD + ('::_first_key' if which == 'first' else '::_last_key'), 'post', res)
        if not ok: rep.violation(nm, DMOD + ('::_first_key' if which == 'first' else '::_last_key'), 'expected key is not round key %d' % (r_want + 1), case, None, *native(case)); continue
        # real cipher on a symbolic plaintext with symbolic round keys; the selection function is fed the plaintext (First*) or the FIPS ciphertext (Last*)
        pt = [z3.BitVec('pt%d' % i, 1) for i in range(64)]
        rks = [sum([bits_of(rkw(r, w), 6) for w in range(8)], []) for r in range(16)]
        if which == 'first':
            data_bits = pt; kind, target = D.des_pass(pt, rks, 0, step, True, True, SymBits)
        else:
            data_bits = D.des_block(pt, rks, False, SymBits)                         # ciphertext = IP^-1(R16 L16)
            # the first round computed on the ciphertext with K16 is the last round seen from the other side (Feistel symmetry):
            #   E(R15)^K16, S(E(R15)^K16), P^-1(L15), P^-1(L15^R15) ... expressed on the encryption of pt
            lr = D.permute(pt, D.IP); l, r = lr[:32], lr[32:]
            for rnd in range(15):
                e, x, s, pp = D.f_function(r, rks[rnd], SymBits); l, r = r, D.xor_bits(l, pp, SymBits)
            e, x, s, pp = D.f_function(r, rks[15], SymBits)          # l = L15, r = R15
            if step == 2: kind, target = 'E48', x
            elif step == 3: kind, target = 'S32', s
            elif step == 7: kind, target = 'S32', D.permute(l, D.PINV)                   # P^-1 of the new right half seen from the ciphertext side = P^-1(L15)
            elif step == 8: kind, target = 'S32', D.permute(D.xor_bits(r, l, SymBits), D.PINV)
        got = []; exp = words_of(kind, target)
        for w in range(8):
            g6 = bits_of(ek.at(w), 6)
            got.append(des_formula_words(step, data_bits, g6)[w])
        res = dict(result='unsat', backend='structural', secs=0) if H.structurally_equal(got, exp) else solve.discharge(p.pc, H.eq_all(got, exp), timeout_ms=timeout)
        rep.obligation(oname, DMOD + '::' + cls, 'lemma', res, sample='f_w(data, expected_key[w]) == targeted word of the FIPS 46-3 round state (Feistel symmetry for the Last* classes)')
        if res['result'] == 'sat': rep.violation(oname, DMOD + '::' + cls, 'true-key hypothesis is not the targeted cipher state', case, str(res.get('model'))[:600], *native(case))

# ----------------------------------------------------------------------------- words / guesses selection (selection_functions/base.py)
def words_case(u, rep, words, label, timeout):
    def body():
        N = core.sym_int('N', 1); data = H.sym_bytes('X', (N, 16), 'uint8'); L.set_task(stubs=aes_stubs())
        full = u.amod.FirstSubBytes(guesses=H.sym_bytes('G', (3,), 'uint8'))(plaintext=data)
        sel = u.amod.FirstSubBytes(guesses=H.sym_bytes('G', (3,), 'uint8'), words=words)(plaintext=data)
        return N, full, sel
    oname = 'post[words=%s selects that slice]' % label; case = dict(kind='words', words=label)
    for p, outc, exc in core.explore(body):
        if exc is not None:
            rep.obligation(oname, BMOD + '::SelectionFunction.__call__', 'post', dict(result='sat', backend='exec', secs=0), sample=repr(exc))
            rep.violation(oname, BMOD + '::SelectionFunction.__call__', 'raises %r' % (exc,), case, None, *native(case)); continue
        N, full, sel = outc
        wl = list(range(16))[words] if isinstance(words, (int, slice)) else (list(range(16)) if words is Ellipsis or words is None else [int(x) for x in (words if isinstance(words, list) else words.concrete)])
        n = z3.Int('n!'); cons = [n >= 0, n < N.z]
        if isinstance(wl, int):
            ok = sel.ndim == 2; got = [sel.at(SInt(n), g) for g in range(3)] if ok else []; exp = [full.at(SInt(n), g, wl) for g in range(3)]
        else:
            ok = sel.ndim == 3 and sel.shape[2] == len(wl); got = [sel.at(SInt(n), g, k) for g in range(3) for k in range(len(wl))] if ok else []; exp = [full.at(SInt(n), g, w) for g in range(3) for w in wl]
        res = dict(result='unsat', backend='structural', secs=0) if ok and H.structurally_equal(got, exp, simp=True) else (solve.discharge(p.pc + cons, H.eq_all(got, exp), timeout_ms=timeout) if ok else dict(result='sat', backend='exec', secs=0))
        rep.obligation(oname, BMOD + '::SelectionFunction.__call__', 'post', res, sample='sf(words=W)(data) == sf()(data)[:, :, W]')
        if res['result'] == 'sat': rep.violation(oname, BMOD + '::SelectionFunction.__call__', 'word selection returns something else than that slice of the full output', case, None, *native(case))

def tags_case(u, rep, which, timeout):
    """the targeted text and the key are the metadata designated by the TAGS, whatever other metadata fields are passed along
    (Analysis.process hands the selection function every metadata field of the batch, including ones that happen to be called 'data' or 'key')"""
    fn = BMOD + '::_AttackSelectionFunctionWrapped.__call__'
    cls, tagarg, deftag = {'aes_first': ('FirstSubBytes', 'plaintext_tag', 'plaintext'), 'aes_last': ('LastSubBytes', 'ciphertext_tag', 'ciphertext')}[which]
    for custom in (False, True):
        tag = 'my_text' if custom else deftag; ktag = 'my_key' if custom else 'key'
        def body():
            N = core.sym_int('N', 1); data = H.sym_bytes('X', (N, 16), 'uint8'); other = H.sym_bytes('O', (N, 16), 'uint8'); other2 = H.sym_bytes('O2', (N, 16), 'uint8')
            key = H.sym_bytes('K', (16,), 'uint8'); okey = H.sym_bytes('OK', (16,), 'uint8')
            L.set_task(stubs=aes_stubs())
            G = H.sym_bytes('G', (2,), 'uint8')
            kw = {tagarg: tag, 'key_tag': ktag} if custom else {}
            sf = getattr(u.amod, cls)(guesses=G, **kw); ref = getattr(u.amod, cls)(guesses=G, **kw)
            meta = {tag: data, 'data': other, 'foo': other2, ktag: key}
            if custom: meta[deftag] = other2; meta['key'] = okey
            out = sf(**meta); exp = ref(**{tag: data})
            ek = sf.compute_expected_key(**meta); ekr = ref.compute_expected_key(**{ktag: key})
            return N, out, exp, ek, ekr
        oname = 'post[aes.%s, %s tags: extra metadata fields (also ones named data / key / %s) do not change hypotheses or expected key]' % (cls, 'custom' if custom else 'default', deftag)
        case = dict(kind='tags', cls=cls, custom=custom)
        for p, outc, exc in core.explore(body):
            if exc is not None:
                rep.obligation(oname, fn, 'post', dict(result='sat', backend='exec', secs=0), sample=repr(exc)); rep.violation(oname, fn, 'raises %r' % (exc,), case, None, *native(case)); continue
            N, out, exp, ek, ekr = outc
            n = z3.Int('n!'); cons = [n >= 0, n < N.z]
            ok = out.ndim == 3 and exp.ndim == 3 and out.shape[1:] == exp.shape[1:] and tuple(ek.shape) == tuple(ekr.shape)
            got = [out.at(SInt(n), g, w) for g in range(2) for w in range(16)] + [ek.at(w) for w in range(ek.shape[0])] if ok else []
            ex_ = [exp.at(SInt(n), g, w) for g in range(2) for w in range(16)] + [ekr.at(w) for w in range(ekr.shape[0])] if ok else []
            res = dict(result='sat', backend='exec', secs=0) if not ok else (dict(result='unsat', backend='structural', secs=0) if H.structurally_equal(got, ex_, simp=True) else solve.discharge(p.pc + cons, H.eq_all(got, ex_), timeout_ms=timeout))
            rep.obligation(oname, fn, 'post', res, sample='sf(**all metadata) == sf(tagged field only); expected key from the key_tag field')
            if res['result'] == 'sat': rep.violation(oname, fn, 'another metadata field overrides the tagged one', case, str(res.get('model'))[:400], *native(case))

def reuse_case(u, rep, ns, cls, timeout):
    """results of earlier calls stay what they were: a second call (next batch, or another selection function of the same shape) must not overwrite an
    array that was returned before (no buffer shared between calls)"""
    mod = u.amod if ns == 'aes' else u.dmod; width = 16 if ns == 'aes' else 8
    tag = (AES_CLASSES if ns == 'aes' else DES_CLASSES)[cls][0] if ns == 'aes' else 'plaintext'
    fn = (AMOD if ns == 'aes' else DMOD) + '::' + cls
    def body():
        N = core.sym_int('N', 1); X1 = H.sym_bytes('X1', (N, width), 'uint8'); X2 = H.sym_bytes('X2', (N, width), 'uint8'); G = H.sym_bytes('G', (2,), 'uint8')
        L.set_task(stubs=aes_stubs() if ns == 'aes' else des_stubs())
        sf = getattr(mod, cls)(guesses=G); other = getattr(mod, cls)(guesses=G)
        out1 = sf(**{tag: X1})
        n = z3.Int('n!'); core.assume(z3.And(n >= 0, n < N.z))
        before = [out1.at(SInt(n), g, w) for g in range(2) for w in range(width)]
        out2 = sf(**{tag: X2}); out3 = other(**{tag: X2})
        after = [out1.at(SInt(n), g, w) for g in range(2) for w in range(width)]
        return before, after, out1.st is out2.st or out1.st is out3.st
    oname = 'history[%s.%s: an array returned by an earlier call is not overwritten by later calls]' % (ns, cls); case = dict(kind='reuse', ns=ns, cls=cls)
    for p, outc, exc in core.explore(body):
        if exc is not None:
            rep.obligation(oname, fn, 'post', dict(result='sat', backend='exec', secs=0), sample=repr(exc)); rep.violation(oname, fn, 'raises %r' % (exc,), case, None, *native(case)); continue
        before, after, shared = outc
        res = dict(result='sat', backend='frame-scan', secs=0) if shared else (dict(result='unsat', backend='structural', secs=0) if H.structurally_equal(before, after, simp=True) else solve.discharge(p.pc, H.eq_all(before, after), timeout_ms=timeout))
        rep.obligation(oname, fn, 'frame', res, sample='out1 read again after two more calls of the same shape')
        if res['result'] == 'sat': rep.violation(oname, fn, 'the result of an earlier call aliases a buffer that later calls write', case, None, *native(case))

def alias_case(u, rep):
    pairs = [(u.adec, u.amod, {'FirstAddRoundKey': 'LastAddRoundKey', 'LastAddRoundKey': 'FirstAddRoundKey', 'FirstSubBytes': 'LastSubBytes', 'LastSubBytes': 'FirstSubBytes', 'DeltaRFirstRounds': 'DeltaRLastRounds'}, 'aes'),
             (u.ddec, u.dmod, DEC_ALIAS, 'des')]
    for dec, enc, table, nm in pairs:
        for d, e in table.items():
            ok = getattr(dec, d, None) is getattr(enc, e)
            rep.obligation('alias[%s.decrypt.%s is encrypt.%s]' % (nm, d, e), 'scared.%s.selection_functions.decrypt::%s' % (nm, d), 'post', dict(result='unsat' if ok else 'sat', backend='exec', secs=0))
            if not ok: rep.violation('alias[%s.decrypt.%s is encrypt.%s]' % (nm, d, e), 'scared.%s.selection_functions.decrypt::%s' % (nm, d), 'decrypt namespace no longer mirrors the encrypt one', dict(kind='alias', ns=nm, d=d, e=e), None, None)

def canary(u, rep, timeout):
    def body():
        N = core.sym_int('N', 1); data = H.sym_bytes('X', (N, 16), 'uint8'); L.set_task(stubs=aes_stubs())
        return N, data, u.amod.FirstSubBytes(guesses=H.sym_bytes('G', (2,), 'uint8'))(plaintext=data)
    for p, (N, data, out), exc in core.explore(body):
        n = z3.Int('n!'); g = H.sym_bytes('G', (2,), 'uint8')
        res = solve.discharge(p.pc + [n >= 0, n < N.z], out.at(SInt(n), 0, 1).z == SymAlg.sbox(data.at(SInt(n), 0) ^ g.at(1)).z, timeout_ms=timeout)
        rep.canary('guess and word axes swapped', res['result'] == 'sat')

def main():
    ap = argparse.ArgumentParser(); ap.add_argument('--tier', default=os.environ.get('VERIF_TIER', 'quick')); ap.add_argument('--replay')
    a = ap.parse_args(); seed = int(os.environ.get('VERIF_SEED', '0'))
    if a.replay:
        rp, o = native(json.load(open(a.replay))['case']); print(o); sys.exit(1 if rp else 0)
    rep = R.Report('C07', a.tier, seed); timeout = solve.TIMEOUT_MS[a.tier]
    R.prefetch_native('props.c07_native', ['bounded', str(seed), a.tier])      # the stand-in runs while the obligations are discharged
    u = Under()
    for m, names in ((AMOD, ['_add_round_key', '_sub_bytes', '_inv_sub_bytes', '_delta_last_rounds', '_first_key', '_last_key'] + [c + '.__new__' for c in AES_CLASSES]),
                     (DMOD, ['_des_function', '_add_round_key', '_sboxes', '_first_round', '_delta_last_rounds', '_first_key', '_last_key'] + [c + '.__new__' for c in DES_CLASSES]),
                     (BMOD, ['SelectionFunction.__init__', 'SelectionFunction._set_words', 'SelectionFunction.__call__', '_AttackSelectionFunction.__init__', '_AttackSelectionFunction.compute_expected_key',
                             '_decorated_selection_function', '_AttackSelectionFunctionWrapped.__init__', '_AttackSelectionFunctionWrapped.__call__', '_AttackSelectionFunctionWrapped.compute_expected_key'])):
        for n in names: rep.function(m + '::' + n, u.ld.fn_hash.get(m + '::' + n))
    units = []
    for ns in ('encrypt', 'decrypt'):
        for cls in AES_CLASSES:
            for dt in (('uint8', 'int64') if a.tier == 'quick' else ('uint8', 'uint16', 'int32', 'int64')):
                units.append(('af', ns, cls, dt, 3))
            units.append(('af', ns, cls, 'uint8', 0))
    for cls in AES_CLASSES:
        for kl in (16, 24, 32): units.append(('at', cls, kl))
    for ns in ('encrypt', 'decrypt'):
        for cls in DES_CLASSES:
            for one in (False, True): units.append(('df', ns, cls, one, 3))
            units.append(('df', ns, cls, False, 0))
    for cls in DES_CLASSES: units.append(('dt', cls))
    wsel = [(3, 'int 3'), ([0, 5, 5, 15], 'list [0,5,5,15]'), (slice(2, 11, 3), 'slice(2,11,3)'), (symnp.from_real(_rnp.array([15, 0, 7], dtype='uint8')), 'array [15,0,7]'), (Ellipsis, 'Ellipsis'), (None, 'None')]
    for k in range(len(wsel)): units.append(('w', k))
    units += [('tags', 'aes_first'), ('tags', 'aes_last')]
    units += [('reuse', 'aes', 'FirstAddRoundKey'), ('reuse', 'aes', 'LastAddRoundKey'), ('reuse', 'aes', 'FirstSubBytes'), ('reuse', 'aes', 'DeltaRLastRounds')]
    def work(sub, kind, *args):
        if kind == 'af': aes_formula_case(u, sub, args[0], args[1], args[2], args[3], timeout)
        elif kind == 'at': aes_true_key_case(u, sub, args[0], args[1], timeout)
        elif kind == 'df': des_formula_case(u, sub, args[0], args[1], args[2], args[3], timeout)
        elif kind == 'dt': des_true_key_case(u, sub, args[0], timeout)
        elif kind == 'w': words_case(u, sub, wsel[args[0]][0], wsel[args[0]][1], timeout)
        elif kind == 'tags': tags_case(u, sub, args[0], timeout)
        elif kind == 'reuse': reuse_case(u, sub, args[0], args[1], timeout)
    P.run_units(rep, work, units)
    alias_case(u, rep); canary(u, rep, timeout)
    rc, o, so, se = R.run_native('props.c07_native', ['bounded', str(seed), a.tier], timeout=1500)
    if o is None: rep.errors.append('native stand-in failed: %s %s' % (so[-400:], se[-800:]))
    else:
        rep.bounded.append(dict(function='all ready-made AES/DES selection functions vs real scared encrypt/decrypt stop points under /venv/bin/python', bound=o['bound'], evaluations=o['evaluations'], distinct=o['evaluations'], exhaustive=False, failures=o['failures']))
        for f in o['failing'][:3]: rep.violation('bounded[native,%s]' % f.get('kind'), f.get('function', AMOD), 'real selection function differs from the real cipher state under the true key', f, None, True, f)
    rep.assume('A4', 'A6', 'T-pyvc', 'T-spec')
    rep.trust('callees replaced by their contracts: aes.sub_bytes/inv_sub_bytes/shift_rows/key_schedule (C05, C10), des.encrypt/key_schedule (C06, C10), _is_bytes_array')
    rep.not_decided.append('the loop over guesses has a concrete trip count: proved for 3 symbolic guess values and for the default guess ranges (256 / 64); independence of iterations makes other counts follow, but that step is not mechanised (bounded in the number of guesses)')
    sys.exit(rep.finish('./check C07 --tier %s' % a.tier))

if __name__ == '__main__':
    main()
