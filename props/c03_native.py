"""C03 native side: CPA / alternative CPA / DPA end to end against exact rational statistics."""
import sys, json, random
from fractions import Fraction
import numpy as np

def pearson_exact(x, y):
    n = len(x); x = [Fraction(int(v)) if float(v).is_integer() else Fraction(float(v)) for v in x]; y = [Fraction(int(v)) if float(v).is_integer() else Fraction(float(v)) for v in y]
    mx, my = sum(x) / n, sum(y) / n
    cov = sum((a - mx) * (b - my) for a, b in zip(x, y)); vx = sum((a - mx) ** 2 for a in x); vy = sum((b - my) ** 2 for b in y)
    if vx == 0 or vy == 0: return None
    return float(cov) / (float(vx) ** 0.5 * float(vy) ** 0.5)

def check_cpa(alt, traces, data, precision, splits):
    import scared
    cls = scared.CPAAlternativeDistinguisher if alt else scared.CPADistinguisher
    d = cls(precision=precision); pos = 0
    for k in splits: d.update(traces[pos:pos + k], data[pos:pos + k]); pos += k
    res = d.compute()
    wshape = data.shape[1:]
    if res.shape != wshape + (traces.shape[1],): return 'layout %s' % (res.shape,)
    flat = data.reshape(len(data), -1); r2 = res.reshape(flat.shape[1], -1)
    tol = 2e-3 if precision == 'float32' else 1e-9
    if data.ndim >= 3:      # the memory layout of the caller's array is not part of the property
        d2 = cls(precision=precision); d2.update(traces, np.asfortranarray(data)); res2 = d2.compute()
        if res2.shape != res.shape or not np.allclose(res2, res, atol=tol, equal_nan=True): return 'the same data stored in Fortran order give a different result'
    for w in range(flat.shape[1]):
        for s in range(traces.shape[1]):
            e = pearson_exact(traces[:, s], flat[:, w]); g = r2[w, s]
            if e is None:
                if not np.isnan(g): return 'undefined entry [%d,%d] is %r, not NaN' % (w, s, g)
            elif not (abs(g - e) <= tol): return 'entry [%d,%d] is %r, Pearson is %r' % (w, s, g, e)
    return None

def check_dpa(traces, data, precision, splits):
    import scared
    d = scared.DPADistinguisher(precision=precision); pos = 0
    for k in splits: d.update(traces[pos:pos + k], data[pos:pos + k]); pos += k
    res = d.compute(); flat = data.reshape(len(data), -1); r2 = res.reshape(flat.shape[1], -1)
    if res.shape != data.shape[1:] + (traces.shape[1],): return 'layout %s' % (res.shape,)
    tol = 1e-3 if precision == 'float32' else 1e-9
    if data.ndim >= 3:
        d2 = scared.DPADistinguisher(precision=precision); d2.update(traces, np.asfortranarray(data)); res2 = d2.compute()
        if res2.shape != res.shape or not np.allclose(res2, res, atol=tol, equal_nan=True): return 'the same data stored in Fortran order give a different result'
    for w in range(flat.shape[1]):
        ones = flat[:, w] == 1
        for s in range(traces.shape[1]):
            g = r2[w, s]
            if ones.all() or (~ones).all():
                if not np.isnan(g): return 'empty class entry [%d,%d] is %r, not NaN' % (w, s, g)
            else:
                e = float(np.mean(traces[ones, s].astype('float64')) - np.mean(traces[~ones, s].astype('float64')))
                if not abs(g - e) <= tol * max(1, abs(e)): return 'entry [%d,%d] is %r, expected %r' % (w, s, g, e)
    return None

def rand_case(rnd, dist):
    n = rnd.choice([2, 3, 5, 17, 40]); S = rnd.choice([1, 2, 4]); wshape = rnd.choice([(1,), (3,), (2, 2), (2, 1, 2)])
    tdt = rnd.choice(['uint8', 'int16', 'float32', 'float64', 'int8', 'float16']); ddt = rnd.choice(['uint8', 'uint8', 'int8', 'uint16', 'int32', 'float64'])
    info = (lambda d: (np.iinfo(d).min, np.iinfo(d).max) if np.dtype(d).kind in 'iu' else (-50, 50))
    lo, hi = info(tdt); traces = np.array([[rnd.randint(max(lo, -300), min(hi, 300)) for _ in range(S)] for _ in range(n)]).astype(tdt)
    if tdt == 'float16': traces = np.array([[rnd.randint(200, 300) for _ in range(S)] for _ in range(n)]).astype(tdt)      # exactly representable samples whose column sums are not (> 2048)
    W = int(np.prod(wshape))
    if dist == 'DPA': data = np.array([[rnd.randint(0, 1) for _ in range(W)] for _ in range(n)], dtype='uint8')
    else:
        lo, hi = info(ddt); data = np.array([[rnd.randint(max(lo, -300), min(hi, 300)) for _ in range(W)] for _ in range(n)]).astype(ddt)
    if rnd.random() < 0.4: traces[:, rnd.randrange(S)] = traces[0, 0]            # constant sample
    if rnd.random() < 0.4: data[:, rnd.randrange(W)] = data[0, 0]                # constant word / empty class
    data = data.reshape((n,) + wshape)
    splits = [n] if rnd.random() < 0.4 else None
    if splits is None:
        splits = []; left = n
        while left: k = rnd.randint(1, left); splits.append(k); left -= k
    return traces, data, splits

def replay(case):
    rnd = random.Random(11)
    if case.get('kind') == 'update' and case.get('values'):
        v = case['values']; traces = np.array([[float(x)] for x in v['traces']]).astype(case['tdtype']); data = np.array([[float(x)] for x in v['data']]).astype(case['ddtype'])
        extra = 2 - len(traces) if len(traces) < 2 else 0
        if extra: traces = np.vstack([traces, traces[:1] * 0 + 1]); data = np.vstack([data, data[:1] * 0 + 1])
        import scared
        d = (scared.CPADistinguisher if case['dist'] == 'CPA' else scared.DPADistinguisher)(precision=case['precision']); d.update(traces, data)
        attr = case['attr']; x = traces[:, 0].astype('float64'); y = data[:, 0].astype('float64')
        exp = {'ex': x.sum(), 'ex2': (x * x).sum(), 'ey': y.sum(), 'ey2': (y * y).sum(), 'exy': (x * y).sum(), 'accumulator_traces': x.sum(), 'accumulator_ones': (x * y).sum()}[attr]
        got = float(np.asarray(getattr(d, attr)).reshape(-1)[0])
        return dict(reproduced=abs(got - exp) > 1e-6 * max(1, abs(exp)), got=got, expected=float(exp))
    dist = case.get('dist') or ('DPA' if case.get('kind') == 'dpa' else 'CPA')
    if case.get('kind') == 'taint':
        # directed search for a rounding effect: many traces with an offset, stored in the reported dtype, one batch
        tdt = case.get('tdtype', 'float32'); prec = case.get('precision', 'float64')
        for t in range(40):
            n = rnd.choice([60, 200]); S = 2
            if tdt == 'float16': traces = np.array([[rnd.randint(200, 300) for _ in range(S)] for _ in range(n)]).astype(tdt)
            elif np.dtype(tdt).kind == 'f': traces = (np.array([[rnd.randint(0, 4095) / 4096.0 for _ in range(S)] for _ in range(n)]) + 1000).astype(tdt)
            else: traces = np.array([[rnd.randint(0, 100) for _ in range(S)] for _ in range(n)]).astype(tdt)
            data = np.array([[rnd.randint(0, 1) for _ in range(2)] for _ in range(n)], dtype='uint8') if dist == 'DPA' else np.array([[rnd.randint(0, 200) for _ in range(2)] for _ in range(n)]).astype(case.get('ddtype', 'uint8'))
            try: r = check_dpa(traces, data, prec, [n]) if dist == 'DPA' else check_cpa(bool(case.get('alt')), traces, data, prec, [n])
            except Exception as e: r = 'raises %r' % (e,)
            if r: return dict(reproduced=True, detail=r, tdtype=tdt, precision=prec, traces=traces.tolist()[:4])
        return dict(reproduced=False)
    for t in range(300):
        traces, data, splits = rand_case(rnd, dist)
        try:
            r = check_dpa(traces, data, case.get('precision', 'float64'), splits) if dist == 'DPA' else check_cpa(bool(case.get('alt')), traces, data, case.get('precision', 'float64'), splits)
        except Exception as e: r = 'raises %r' % (e,)
        if r: return dict(reproduced=True, detail=r, traces=traces.tolist()[:6], data=data.tolist()[:6])
    return dict(reproduced=False)

def bounded(seed, tier):
    rnd = random.Random(seed); fails = []; ev = 0
    for t in range(150 if tier == 'quick' else 2000):
        for dist, alt in (('CPA', False), ('CPA', True), ('DPA', False)):
            traces, data, splits = rand_case(rnd, dist); prec = rnd.choice(['float32', 'float64']); ev += 1
            try: r = check_dpa(traces, data, prec, splits) if dist == 'DPA' else check_cpa(alt, traces, data, prec, splits)
            except Exception as e: r = 'raises %r' % (e,)
            if r: fails.append(dict(dist=dist, alt=alt, precision=prec, detail=r, traces=traces.tolist()[:5], data=data.tolist()[:5], tdtype=str(traces.dtype), ddtype=str(data.dtype), splits=splits))
    return dict(evaluations=ev, failures=len(fails), failing=fails[:5], bound='random integer/float matrices (n <= 40, word shapes up to rank 3, constant columns injected), random batch splits, both precisions')

if __name__ == '__main__':
    cmd = sys.argv[1]
    if cmd == 'replay': print(json.dumps(replay(json.loads(sys.stdin.read())), default=str))
    elif cmd == 'bounded': print(json.dumps(bounded(int(sys.argv[2]), sys.argv[3]), default=str))
