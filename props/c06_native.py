"""C06 native side (under /venv/bin/python, PYTHONPATH=/repo): replay on the real code and bounded stand-in."""
import sys, json, random
import numpy as np
from specs import fips46 as D

def _des():
    from scared.des import base
    return base

def prim_spec(name, row):
    if name == 'initial_permutation': return D.bits_to_bytes(D.permute(D.bytes_to_bits(row), D.IP))
    if name == 'final_permutation': return D.bits_to_bytes(D.permute(D.bytes_to_bits(row), D.FP))
    if name == 'expansive_permutation': return D.bits_to_words(D.permute(D.bytes_to_bits(row), D.E), 6)
    if name == 'permutation_p': return D.bits_to_bytes(D.permute(D.words_to_bits([v & 15 for v in row], 4), D.P))
    if name == 'inv_permutation_p': return D.bits_to_words(D.permute(D.bytes_to_bits(row), D.PINV), 4)
    if name == 'sboxes': return [D.sbox_direct(w, row[w]) for w in range(8)]
    raise KeyError(name)

def cipher_case(des, mode, state, key, at_des, at_round, after_step, dtype):
    s = np.array(state, dtype=dtype); k = np.array(key, dtype=dtype); s0, k0 = s.copy(), k.copy()
    out = getattr(des, mode)(s, k, at_round=at_round, after_step=after_step, at_des=at_des)
    if not (np.array_equal(s, s0) and np.array_equal(k, k0)): return True, 'caller array modified'
    S = s.reshape(-1, 8); K = k.reshape(-1, k.shape[-1]); n = max(len(S), len(K))
    exp = np.array([D.cipher_bytes([int(v) for v in S[i % len(S)]], [int(v) for v in K[i % len(K)]], mode, at_des, at_round, after_step) for i in range(n)], dtype='uint8').squeeze()
    if out.shape != exp.shape: return True, 'shape %s expected %s' % (out.shape, exp.shape)
    if not np.array_equal(out, exp): return True, 'got %s expected %s' % (out.tolist(), exp.tolist())
    return False, 'agrees'

def rand_key(rnd, kl): return [rnd.randrange(256 if kl <= 24 else 64) for _ in range(kl)]

def replay(case):
    des = _des(); kind = case['kind']
    if kind == 'table':
        t = getattr(des, case['table']); idx = case['index']
        got = np.asarray(t)[tuple(idx) if isinstance(idx, list) else idx].tolist()
        return dict(reproduced=got != case['expected'], got=got, expected=case['expected'])
    if kind in ('prim', 'frame'):
        s = np.array(case['state'], dtype=case['dtype']); s0 = s.copy()
        out = getattr(des, case['fn'])(s)
        if kind == 'frame': return dict(reproduced=not np.array_equal(s, s0))
        rows = s0.reshape(-1, s0.shape[-1]); exp = np.array([prim_spec(case['fn'], [int(v) for v in r]) for r in rows], dtype='uint8')
        exp = exp.reshape(s0.shape[:-1] + (exp.shape[-1],))
        return dict(reproduced=(out.shape != exp.shape) or not np.array_equal(out, exp), got=out.tolist(), expected=exp.tolist())
    if kind == 'inverse':
        s = np.array(case['state'], dtype='uint8'); out = getattr(des, case['g'])(getattr(des, case['f'])(s))
        return dict(reproduced=not np.array_equal(out, s), got=out.tolist())
    if kind in ('cipher', 'cipher-frame'):
        rnd = random.Random(2); kl = case['kl']; sk = case['shape']
        for trial in range(30):
            ns = 3 if sk[0] == 'N' else 1; nk = 3 if sk[2] == 'N' else 1
            if trial % 4 == 3: ns = 1; nk = 1
            st = [[rnd.randrange(256) for _ in range(8)] for _ in range(ns)]; ky = [rand_key(rnd, kl) for _ in range(nk)]
            if sk[0] != 'N': st = st[0]
            if sk[2] != 'N': ky = ky[0]
            try: bad, detail = cipher_case(des, case['mode'], st, ky, case['at_des'], case['at_round'], case['after_step'], case.get('dtype', 'uint8'))
            except Exception as e: bad, detail = True, 'raises %r' % (e,)
            if bad: return dict(reproduced=True, state=st, key=ky, detail=detail)
        return dict(reproduced=False)
    if kind == 'history':
        rnd = random.Random(3); st = [rnd.randrange(256) for _ in range(8)]; ky = [rnd.randrange(256) for _ in range(8)]
        s = np.array(st, dtype='uint8'); k = np.array(ky, dtype='uint8')
        for (r_, s_) in ((0, 7), (0, 8), (15, 6), (3, 7), (15, 7), (15, 8)): des.encrypt(s, k, at_round=r_, after_step=s_)
        out = des.encrypt(s, k); out2 = des.decrypt(s, k, at_round=2, after_step=9)
        ok = out.tolist() == D.cipher_bytes(st, ky) and out2.tolist() == D.cipher_bytes(st, ky, 'decrypt', 0, 2, 9)
        return dict(reproduced=not ok, got=out.tolist(), expected=D.cipher_bytes(st, ky))
    if kind == 'history_inplace':
        rnd = random.Random(7); ky = [rnd.randrange(256) for _ in range(8)]; k = np.array(ky, dtype='uint8')
        buf = np.zeros((2, 8), dtype='uint8'); kept = []
        for t in range(3):
            rows = [[rnd.randrange(256) for _ in range(8)] for _ in range(2)]
            buf[:] = rows                                           # the same array object, refilled in place
            for mode, kw in (('encrypt', {}), ('decrypt', {}), ('encrypt', dict(at_round=0, after_step=0)), ('encrypt', dict(at_round=3, after_step=4))):
                out = getattr(des, mode)(buf, k, **kw)
                exp = [D.cipher_bytes(r, ky, mode, 0, kw.get('at_round', 15), kw.get('after_step', 9)) for r in rows]
                kept.append((out, exp, t, mode, kw))
        for out, exp, t, mode, kw in kept:
            if out.tolist() != exp: return dict(reproduced=True, detail='%s %s on refill %d of the same buffer: got %s expected %s' % (mode, kw, t, out.tolist(), exp))
        return dict(reproduced=False)
    return dict(reproduced=None, error='unknown case kind')

def bounded(n, seed):
    des = _des(); rnd = random.Random(seed); fails = []; ev = 0
    dts = ['uint8', 'uint16', 'int16', 'uint32', 'int32', 'int64', 'uint64']
    for t in range(n):
        mode = rnd.choice(['encrypt', 'decrypt']); kl = rnd.choice([8, 16, 24, 128, 256, 384]); sk = rnd.choice(['1-1', 'N-1', '1-N', 'N-N']); nn = rnd.choice([1, 2, 3])
        st = [[rnd.randrange(256) for _ in range(8)] for _ in range(nn if sk[0] == 'N' else 1)]
        ky = [rand_key(rnd, kl) for _ in range(nn if sk[2] == 'N' else 1)]
        if sk[0] != 'N': st = st[0]
        if sk[2] != 'N': ky = ky[0]
        nd = 1 if kl in (8, 128) else 3
        at_des = rnd.choice([None] + list(range(nd))); ar = rnd.choice([None] + list(range(16))); stp = rnd.randrange(10); dt = rnd.choice(dts)
        ev += 1
        try: bad, detail = cipher_case(des, mode, st, ky, at_des, ar, stp, dt)
        except Exception as e: bad, detail = True, 'raises %r' % (e,)
        if bad: fails.append(dict(kind='cipher', mode=mode, kl=kl, shape=sk, state=st, key=ky, at_des=at_des, at_round=ar, after_step=stp, dtype=dt, detail=detail))
        if t % 3 == 0:      # call history: stop points 7/8 then a full encryption
            ev += 1
            r = replay(dict(kind='history'))
            if r['reproduced']: fails.append(dict(kind='history', detail=r))
    ev += 1; r = replay(dict(kind='history_inplace'))
    if r['reproduced']: fails.append(dict(kind='history_inplace', detail=r))
    return dict(evaluations=ev, failures=len(fails), failing=fails[:5])

if __name__ == '__main__':
    cmd = sys.argv[1]
    if cmd == 'replay': print(json.dumps(replay(json.loads(sys.stdin.read())), default=str))
    elif cmd == 'bounded': print(json.dumps(bounded(int(sys.argv[2]), int(sys.argv[3])), default=str))
