"""C04 -- ANOVA, NICV and SNR results equal their definitions over value classes.

Contracts over scared/distinguishers/partitioned.py (real source): PartitionedDistinguisherMixin._compute and the three
_compute_metric.  The accumulators are ghost class moments of real data: counters[w,c] = n_c, sum[s,w,c] = sum of the samples of
class c, sum_square[s,w,c] = sum of their squares (n_c >= 0; n_c == 0 => both sums 0; n_c * sum_square >= sum^2).  The number of
samples S is symbolic; the class axis is case-split (3 declared classes, every emptiness pattern is a separate path: complete for
that class count) and the word loop is run for 1 and 2 words.
  ensures  ANOVA == [sum_c n_c (mu_c - mu)^2 / (k-1)] / [sum_c (sumsq_c - sum_c^2/n_c) / (n-k)]   over the k non-empty classes
           NICV  == [sum_c (n_c/n) (mu_c - mu)^2] / [sum_c sumsq_c / n - mu^2]
           SNR   == mean_c (mu_c - mu)^2 / mean_c (sumsq_c/n_c - mu_c^2)                          (classes weighted equally)
           an undefined ratio is NaN, never +-inf; empty classes do not appear in any sum; compute() leaves the accumulators as they were
"""
import sys, os, argparse, json, itertools
sys.path.insert(0, os.path.dirname(os.path.dirname(os.path.abspath(__file__))))
import z3
import numpy as _rnp
from pyvc import core, symnp, solve, loader as L, harness as H, report as R, parallel as P
from pyvc.core import SInt, SFloat, zi
from props import dist_common as DCm
from props.dist_common import moment_tensor

PM = 'scared.distinguishers.partitioned'
def native(case): return R.replay_native('props.c04_native', case)

def F(v, dt): return SFloat(v, dt)
def spec_metric(kind, cls, dt):
    """cls: list of (n_c, sum_c, sumsq_c) z3 reals of the NON-EMPTY classes, in any order; returns an SFloat following the definition"""
    k = len(cls)
    n = sum(c[0] for c in cls); tot = sum(c[1] for c in cls)
    mu = F(tot, dt) / F(n, dt)
    mus = [F(c[1], dt) / F(c[0], dt) for c in cls]
    if kind == 'ANOVA':
        between = sum(((m - mu) * (m - mu) * F(c[0], dt) for m, c in zip(mus, cls)), F(z3.RealVal(0), dt)) / (k - 1)
        within = sum(((F(c[2], dt) - F(c[1], dt) * F(c[1], dt) / F(c[0], dt)) for c in cls), F(z3.RealVal(0), dt)) / (F(n, dt) - k)
        r = between / within
    elif kind == 'NICV':
        num = sum(((m - mu) * (m - mu) * (F(c[0], dt) / F(n, dt)) for m, c in zip(mus, cls)), F(z3.RealVal(0), dt))
        den = sum((F(c[2], dt) for c in cls), F(z3.RealVal(0), dt)) / F(n, dt) - mu * mu
        r = num / den
    else:
        num = sum(((m - mu) * (m - mu) for m in mus), F(z3.RealVal(0), dt)) / k
        den = sum(((F(c[2], dt) / F(c[0], dt) - m * m) for m, c in zip(mus, cls)), F(z3.RealVal(0), dt)) / k
        r = num / den
    return core.Ite(core.isinf(r), core.nanval(dt), r)          # undefined ratios come out as NaN, never as infinities

def metric_case(u, rep, kind, K, W, precision, timeout):
    fn = PM + '::%sDistinguisherMixin._compute_metric' % kind
    def body():
        d = getattr(u.d, kind + 'Distinguisher')(partitions=list(range(10, 10 + K)), precision=precision)
        n = core.sym_int('n', 1); S = core.sym_int('S', 1)
        d.processed_traces = n; d._origin_shape = (n, W); d._trace_length = S; d._data_words = W
        d.sum = moment_tensor('SUM', (S, W, K), precision); d.sum_square = moment_tensor('SQ', (S, W, K), precision); d.counters = moment_tensor('CNT', (W, K), precision)
        for w in range(W):
            for c in range(K):
                core.assume(d.counters.uf(z3.IntVal(w), z3.IntVal(c)) >= 0)
        ufs = dict(cnt=d.counters.uf, sm=d.sum.uf, sq=d.sum_square.uf)
        snap = {k_: (v, v.st, v.st.version, tuple(v.vd)) for k_, v in d.__dict__.items() if isinstance(v, symnp.ndarray)}
        res = d.compute()
        frame_ok = all(isinstance(d.__dict__.get(k_), symnp.ndarray) and d.__dict__[k_].st is st and st.version == ver and tuple(d.__dict__[k_].vd) == vd for k_, (v, st, ver, vd) in snap.items())
        return d, n, S, res, frame_ok, ufs
    npath = 0
    for p, outc, exc in core.explore(body, max_paths=4000):
        npath += 1
        tag = '%s,K=%d,W=%d,%s' % (kind, K, W, precision)
        if exc is not None:
            rep.obligation('post[%s]' % tag, fn, 'post', dict(result='sat', backend='exec', secs=0), sample=repr(exc))
            rep.violation('post[%s]' % tag, fn, 'raises %r' % (exc,), dict(kind=kind, precision=precision), None, *native(dict(kind=kind, precision=precision))); continue
        d, n, S, res, frame_ok, ufs = outc
        s = z3.Int('s!'); cons = [s >= 0, s < S.z]
        if not frame_ok:
            rep.obligation('frame[%s: compute leaves sum/sum_square/counters as they were]' % tag, PM + '::PartitionedDistinguisherMixin._compute', 'frame', dict(result='sat', backend='frame-scan', secs=0))
            rep.violation('frame[%s: compute leaves sum/sum_square/counters as they were]' % tag, PM + '::PartitionedDistinguisherMixin._compute', 'compute() leaves an accumulator swapped, rebound or written', dict(kind=kind, precision=precision, what='frame'), None, *native(dict(kind=kind, precision=precision, what='frame')))
        ok_shape = isinstance(res, symnp.ndarray) and res.ndim == 2 and res.shape[0] == W and H.structurally_equal([res.shape[1]], [S])
        if not ok_shape:
            rep.obligation('post[%s: shape]' % tag, fn, 'post', dict(result='sat', backend='exec', secs=0)); rep.violation('post[%s: shape]' % tag, fn, 'shape %s' % (getattr(res, 'shape', None),), dict(kind=kind, precision=precision), None, *native(dict(kind=kind, precision=precision))); continue
        for w in range(W):
            # the emptiness pattern of this path is fixed by the path condition: read it back
            pattern = []
            for c in range(K):
                cnt = ufs['cnt'](z3.IntVal(w), z3.IntVal(c))
                pattern.append(solve.satisfiable(p.pc + [cnt <= 0]) == 'unsat')          # True = certainly non-empty on this path
            cls = []; requires = []
            for c in range(K):
                cnt = ufs['cnt'](z3.IntVal(w), z3.IntVal(c)); sm = ufs['sm'](s, z3.IntVal(w), z3.IntVal(c)); sq = ufs['sq'](s, z3.IntVal(w), z3.IntVal(c))
                if pattern[c]:
                    cls.append((cnt, sm, sq)); requires += [cnt >= 1, cnt * sq >= sm * sm]
                else: requires += [cnt == 0]
            if not cls: continue
            exp = spec_metric(kind, cls, precision)
            got = res.at(w, SInt(s))
            r_ = solve.discharge(p.pc + cons + requires, core.scalar_eq(got, exp), timeout_ms=timeout, nra=True)
            nm = 'post[%s, word %d, non-empty classes %s: == definition (NaN where undefined)]' % (tag, w, ''.join('x' if b else '.' for b in pattern))
            rep.obligation(nm, fn, 'post', r_, sample='forall class moments of real data, all samples; empty classes (.) do not appear in the definition')
            if r_['result'] == 'sat':
                case = dict(kind=kind, precision=precision, pattern=pattern)
                rep.violation(nm, fn, 'result differs from the definition of %s' % kind, case, str(r_.get('model'))[:700], *native(case))
    return npath

def main():
    ap = argparse.ArgumentParser(); ap.add_argument('--tier', default=os.environ.get('VERIF_TIER', 'quick')); ap.add_argument('--replay')
    a = ap.parse_args(); seed = int(os.environ.get('VERIF_SEED', '0'))
    if a.replay:
        rp, o = native(json.load(open(a.replay))['case']); print(o); sys.exit(1 if rp else 0)
    rep = R.Report('C04', a.tier, seed); timeout = solve.TIMEOUT_MS[a.tier]
    R.prefetch_native('props.c04_native', ['bounded', str(seed), a.tier])      # the stand-in runs while the obligations are discharged
    u = DCm.Dist()
    for k in ('PartitionedDistinguisherMixin._compute', 'ANOVADistinguisherMixin._compute_metric', 'NICVDistinguisherMixin._compute_metric', 'SNRDistinguisherMixin._compute_metric'): rep.function(PM + '::' + k, u.sha(PM + '::' + k))
    units = []
    for kind in ('ANOVA', 'NICV', 'SNR'):
        for prec in ('float32', 'float64'):
            units.append((kind, 3, 1, prec))
        units.append((kind, 2, 2, 'float32'))
        if a.tier == 'thorough': units.append((kind, 4, 1, 'float64'))
    def work(sub, kind, K, W, prec): sub.notes.append('paths %s K=%d W=%d: %s' % (kind, K, W, metric_case(u, sub, kind, K, W, prec, timeout)))
    P.run_units(rep, work, units)
    # the value classes themselves when they are chosen automatically (contract shared with C12): every value of the first batch is a class
    from props import c12 as C12_
    for dt in ('uint8', 'uint16'): C12_.auto_set(u, rep, dt, timeout)
    rep.cover('paths with an empty class were explored', any('.' in o['name'].split('classes ')[-1][:5] for o in rep.obls if 'classes ' in o['name']))
    rc, o, so, se = R.run_native('props.c04_native', ['bounded', str(seed), a.tier], timeout=3600)
    if o is None: rep.errors.append('native stand-in failed: %s %s' % (so[-400:], se[-900:]))
    else:
        rep.bounded.append(dict(function='ANOVA / NICV / SNR distinguishers end to end vs exact rational definitions under /venv/bin/python', bound=o['bound'], evaluations=o['evaluations'], distinct=o['evaluations'], exhaustive=False, failures=o['failures']))
        for f in o['failing'][:3]: rep.violation('bounded[native,%s]' % f.get('kind'), PM + '::PartitionedDistinguisherMixin._compute', f.get('detail', 'differs'), f, None, True, f)
    rep.assume('A1', 'A4', 'A6', 'T-pyvc')
    rep.trust('class moments of real data: n_c >= 1 integer-valued counts enter only through >= 1, n_c * sumsq_c >= sum_c^2 (precondition; mathematical fact)',
              'the accumulators hold the class moments: additivity of the accumulation kernels is property C01/C11/C12')
    rep.not_decided.append('the class axis is case-split for 2 and 3 (thorough: 4) declared classes with every emptiness pattern; the number of samples is symbolic; words: 1 and 2')
    sys.exit(rep.finish('./check C04 --tier %s' % a.tier))

if __name__ == '__main__':
    main()
