"""accumulation kernels under contract (shared by C01, C11, C12, C13, C14, C09).

Every kernel is run from an ARBITRARY accumulator state (ghost moment tensors) on a batch whose contents are fully symbolic;
the batch extents are small and concrete (the scalar kernels are triple loops whose trip counts are the extents: exact unrolling,
hence *bounded in shape*, stated in the evidence).  Postcondition, the same for every kernel of a distinguisher and therefore for
every run-time kernel choice:   accumulator' == accumulator + moment of the batch   with class membership decided by VALUE
(index -1 = undeclared value contributes to nothing)."""
import z3, itertools
import numpy as _rnp
from pyvc import core, symnp, solve, loader as L, harness as H
from pyvc.core import SInt, SBV, SFloat, zi
from props.dist_common import moment_tensor, real_of

PM = 'scared.distinguishers.partitioned'; MM = 'scared.distinguishers.mia'; TM = 'scared.distinguishers.template'; TT = 'scared.ttest'

def sym_traces(name, n, S, dtype):
    return H.sym_reals(name, (n, S), dtype) if _rnp.dtype(dtype).kind == 'f' else H.sym_ints(name, (n, S), dtype)
def class_index_assignments(n, W, K, limit=700):
    """all assignments of a class index in {-1, 0..K-1} to every (trace, word): complete case split for these extents"""
    vals = list(range(-1, K)); combos = list(itertools.product(vals, repeat=n * W))
    if len(combos) > limit:
        import random
        rnd = random.Random(0); keep = [c for c in combos if len(set(c)) <= 1] + rnd.sample(combos, limit)
        combos = keep
    return [_rnp.array(c, dtype='int32').reshape(n, W) for c in combos]
def sym_class_index(name, n, W, K, assignment=None):
    """partition indices as the look-up table produces them: -1 (undeclared) or 0..K-1, int32 (a concrete assignment)"""
    t = symnp.from_real(assignment); return t, []
def ind(data, t, w, c): return z3.RealVal(1) if int(data.concrete[t, w]) == c else z3.RealVal(0)

def _force(*tensors):
    """evaluate every entry (concrete extents): storages are lazy, and the precision taint of a write is recorded when the entry is evaluated"""
    for t in tensors:
        for idx in itertools.product(*[range(d) for d in t.shape]): t.at(*idx)

def partitioned_kernel(u, which, n, S, W, K, tdtype, precision):
    out = []
    for asg in class_index_assignments(n, W, K): out += _partitioned_kernel(u, which, n, S, W, K, tdtype, precision, asg)
    return out
def _partitioned_kernel(u, which, n, S, W, K, tdtype, precision, asg):
    """returns list of (pc, [(name, got term, expected term)], narrow flows, exception)"""
    cls = u.part.PartitionedDistinguisherMixin
    fnc = L.unwrap(cls.__dict__['_accumulate_core_%d' % which])
    out = []
    def body():
        core.NARROW_FLOWS.clear()
        X = sym_traces('X', n, S, tdtype); D, cons = sym_class_index('D', n, W, K, asg)
        sm = moment_tensor('SUM', (S, W, K), precision); sq = moment_tensor('SQ', (S, W, K), precision); cn = moment_tensor('CNT', (W, K), precision)
        old = (sm.snapshot(), sq.snapshot(), cn.snapshot())
        fnc(X, D, sm, sq, cn, symnp.dtype(precision)); _force(sm, sq, cn)
        return X, D, sm, sq, cn, old, list(core.NARROW_FLOWS)
    for p, outc, exc in core.explore(body, max_paths=3000):
        if exc is not None: out.append((p.pc, [], [], exc)); continue
        X, D, sm, sq, cn, old, flows = outc
        items = []
        for s in range(S):
            for w in range(W):
                for c in range(K):
                    es = sum((ind(D, t, w, c) * real_of(X.at(t, s)) for t in range(n)), z3.RealVal(0)); eq = sum((ind(D, t, w, c) * real_of(X.at(t, s)) * real_of(X.at(t, s)) for t in range(n)), z3.RealVal(0))
                    items.append(('sum[%d,%d,%d]' % (s, w, c), real_of(sm.at(s, w, c)), real_of(old[0]((s, w, c))) + es))
                    items.append(('sum_square[%d,%d,%d]' % (s, w, c), real_of(sq.at(s, w, c)), real_of(old[1]((s, w, c))) + eq))
        for w in range(W):
            for c in range(K):
                ec = sum((ind(D, t, w, c) for t in range(n)), z3.RealVal(0))
                items.append(('counters[%d,%d]' % (w, c), real_of(cn.at(w, c)), real_of(old[2]((w, c))) + ec))
        out.append((p.pc, items, flows, None))
    return out

def template_kernel(u, which, n, S, K, tdtype, precision):
    out = []
    for asg in class_index_assignments(n, 1, K): out += _template_kernel(u, which, n, S, K, tdtype, precision, asg)
    return out
def _template_kernel(u, which, n, S, K, tdtype, precision, asg):
    cls = u.tpl._TemplateBuildDistinguisherMixin
    fnc = L.unwrap(cls.__dict__['_accumulate_core_%d' % which]); out = []
    def body():
        core.NARROW_FLOWS.clear()
        X = sym_traces('X', n, S, tdtype); D, cons = sym_class_index('D', n, 1, K, asg)
        exi = moment_tensor('EXI', (K, S), precision); exxi = moment_tensor('EXXI', (K, S, S), precision); cn = moment_tensor('CNT', (K,), precision)
        old = (exi.snapshot(), exxi.snapshot(), cn.snapshot())
        fnc(X, D, exi, exxi, cn, symnp.dtype(precision).type); _force(exi, exxi, cn)
        return X, D, exi, exxi, cn, old, list(core.NARROW_FLOWS)
    for p, outc, exc in core.explore(body, max_paths=3000):
        if exc is not None: out.append((p.pc, [], [], exc)); continue
        X, D, exi, exxi, cn, old, flows = outc; items = []
        for c in range(K):
            items.append(('_counters[%d]' % c, real_of(cn.at(c)), real_of(old[2]((c,))) + sum((ind(D, t, 0, c) for t in range(n)), z3.RealVal(0))))
            for s in range(S):
                items.append(('_exi[%d,%d]' % (c, s), real_of(exi.at(c, s)), real_of(old[0]((c, s))) + sum((ind(D, t, 0, c) * real_of(X.at(t, s)) for t in range(n)), z3.RealVal(0))))
                for s2 in range(S):
                    items.append(('_exxi[%d,%d,%d]' % (c, s, s2), real_of(exxi.at(c, s, s2)), real_of(old[1]((c, s, s2))) + sum((ind(D, t, 0, c) * real_of(X.at(t, s)) * real_of(X.at(t, s2)) for t in range(n)), z3.RealVal(0))))
        out.append((p.pc, items, flows, None))
    return out

def mia_kernel(u, n, S, W, K, B, tdtype):
    out = []
    for asg in class_index_assignments(n, W, K): out += _mia_kernel(u, n, S, W, K, B, tdtype, asg)
    return out
def _mia_kernel(u, n, S, W, K, B, tdtype, asg):
    """histogram kernel: accumulators[s, b, c, w] counts the traces of class c whose sample s falls in bin b (uniform edges, right-most edge inclusive)"""
    fnc = L.unwrap(u.mia.MIADistinguisherMixin.__dict__['_accumulate_core']); out = []
    def body():
        X = sym_traces('X', n, S, tdtype); D, cons = sym_class_index('D', n, W, K, asg)
        e0 = SFloat(z3.RealVal(-1), 'float64'); wd = SFloat(z3.RealVal(2), 'float64')      # edges -1, 1, 3, ... (symbolic uniform edges are property C13)
        edges = symnp.from_real(_rnp.array([-1.0 + 2.0 * k for k in range(B + 1)]))
        acc = symnp.ndarray.fresh((S, B, K, W), (lambda f: (lambda i: SBV(z3.Int2BV(f(*[zi(k) for k in i]), 32), 'uint32', f(*[zi(k) for k in i]))))(z3.Function('ACC', *([z3.IntSort()] * 5))), 'uint32')
        for idx in itertools.product(range(S), range(B), range(K), range(W)): core.assume(acc.at(*idx).ival >= 0); core.assume(acc.at(*idx).ival < 2 ** 31)
        old = acc.snapshot()
        fnc(X, D, edges, acc)
        return X, D, e0, wd, acc, old
    for p, outc, exc in core.explore(body, max_paths=6000):
        if exc is not None: out.append((p.pc, [], [], exc)); continue
        X, D, e0, wd, acc, old = outc; items = []
        def inbin(x, b):      # e_b <= x < e_{b+1}, the last bin closed on the right
            lo = e0.v + wd.v * b; hi = e0.v + wd.v * (b + 1)
            return z3.And(x >= lo, z3.Or(x < hi, z3.And(b == B - 1, x == hi)) if b == B - 1 else x < hi)
        for s in range(S):
            for b in range(B):
                for c in range(K):
                    for w in range(W):
                        e = sum((z3.If(inbin(real_of(X.at(t, s)), b), 1, 0) for t in range(n) if int(D.concrete[t, w]) == c), z3.IntVal(0))
                        g = acc.at(s, b, c, w); o = old((s, b, c, w))
                        items.append(('accumulators[%d,%d,%d,%d]' % (s, b, c, w), g.ival if g.ival is not None else z3.BV2Int(g.z), o.ival + e))
        out.append((p.pc + core.integral_axioms(), items, [], None))
    return out

def ttest_kernel(u, n, S, tdtype, precision):
    mod = u.ld.load(TT); fnc = L.unwrap(mod.TTestThreadAccumulator.__dict__['_update_core']); out = []
    def body():
        core.NARROW_FLOWS.clear()
        X = sym_traces('X', n, S, tdtype)
        sm = moment_tensor('TS', (S,), precision); sq = moment_tensor('TSQ', (S,), precision); old = (sm.snapshot(), sq.snapshot())
        fnc(X, sm, sq, symnp.dtype(precision)); _force(sm, sq)
        return X, sm, sq, old, list(core.NARROW_FLOWS)
    for p, outc, exc in core.explore(body):
        if exc is not None: out.append((p.pc, [], [], exc)); continue
        X, sm, sq, old, flows = outc; items = []
        for s in range(S):
            items.append(('sum[%d]' % s, real_of(sm.at(s)), real_of(old[0]((s,))) + sum((real_of(X.at(t, s)) for t in range(n)), z3.RealVal(0))))
            items.append(('sum_squared[%d]' % s, real_of(sq.at(s)), real_of(old[1]((s,))) + sum((real_of(X.at(t, s)) * real_of(X.at(t, s)) for t in range(n)), z3.RealVal(0))))
        out.append((p.pc, items, flows, None))
    return out

def report_kernel(rep, results, label, function, timeout, native, case, check_flows=True):
    """discharge the additivity items of one kernel run; returns number of paths"""
    for pc, items, flows, exc in results:
        if exc is not None:
            rep.obligation('post[%s]' % label, function, 'post', dict(result='sat', backend='exec', secs=0), sample=repr(exc))
            rep.violation('post[%s]' % label, function, 'kernel raises %r' % (exc,), case, None, *native(case)); continue
        got = [SFloat(g) if z3.is_real(g) else SInt(g) for _, g, _ in items]; exp = [SFloat(e) if z3.is_real(e) else SInt(e) for _, _, e in items]
        bad = None
        if H.structurally_equal(got, exp, simp=True): res = dict(result='unsat', backend='structural', secs=0)
        else:
            res = solve.discharge(pc, z3.And(*[g == e for _, g, e in items]), timeout_ms=timeout)
            if res['result'] == 'sat':
                m = res['model']; bad = [nm for nm, g, e in items if not z3.is_true(m.eval(g == e, model_completion=True))][:3]
        rep.obligation('post[%s: every accumulator entry grows by exactly the batch moment, classes by value, -1 ignored]' % label, function, 'post', res,
                       sample='forall accumulator states and batch contents (extents fixed): acc\' == acc + moment')
        if res['result'] == 'sat':
            rep.violation('post[%s: every accumulator entry grows by exactly the batch moment, classes by value, -1 ignored]' % label, function, 'entries %s differ from acc + batch moment' % bad, dict(case, entries=bad), str(res['model'])[:600], *native(case))
        if check_flows:
            okf = not flows
            rep.obligation('dtype[%s: no inexact operation in a float type narrower than the accumulator]' % label, function, 'dtype-flow', dict(result='unsat' if okf else 'sat', backend='taint-scan', secs=0))
            if not okf: rep.violation('dtype[%s: no inexact operation in a float type narrower than the accumulator]' % label, function, 'arithmetic in float%d flows into a float%d accumulator' % flows[0], dict(case, flows=flows[:3]), 'precision taint', *native(case))
    return len(results)
