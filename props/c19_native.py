"""C19 native side: real scared.signal_processing (numba, scipy) vs naive references."""
import sys, json, random, itertools, math
import numpy as np

def naive_moving(op, X, w, axis):
    X = np.asarray(X, dtype='float64'); Xm = np.moveaxis(X, axis, 0); n = Xm.shape[0] - w + 1
    out = np.empty((n,) + Xm.shape[1:])
    for k in range(n):
        win = Xm[k:k + w]; m = win.mean(0); c = lambda p: ((win - m) ** p).mean(0)
        with np.errstate(all='ignore'):
            out[k] = {'sum': lambda: win.sum(0), 'mean': lambda: m, 'var': lambda: c(2), 'std': lambda: np.sqrt(c(2)), 'skew': lambda: c(3) / c(2) ** 1.5, 'kurtosis': lambda: c(4) / c(2) ** 2 - 3}[op]()
    return np.moveaxis(out, 0, axis)

def close(a, b, tol=1e-6):
    a = np.asarray(a, dtype='float64'); b = np.asarray(b, dtype='float64')
    if a.shape != b.shape: return False
    ok = np.isfinite(b)
    return bool(np.allclose(a[ok], b[ok], rtol=tol, atol=tol))

def moving_case(op, X, w, axis):
    import scared.signal_processing as sp
    X = np.asarray(X); X0 = X.copy()
    with np.errstate(all='ignore'): got = getattr(sp, 'moving_' + op)(X, w, axis)
    if not np.array_equal(X, X0): return 'input modified'
    ref = naive_moving(op, X, w, axis)
    if op in ('skew', 'kurtosis'):       # ill-conditioned when the window variance is tiny: compare only well-conditioned windows
        v = naive_moving('var', X, w, axis); ref = np.where(v > 1e-3, ref, np.nan)
    if not close(got, ref, 1e-5): return 'moving_%s(w=%d, axis=%d) on %s: %s, naive %s' % (op, w, axis, X.tolist(), np.asarray(got).tolist(), ref.tolist())
    return None

def pattern_case(op, t, p):
    import scared.signal_processing as sp
    t = np.asarray(t); p = np.asarray(p); n = len(p)
    with np.errstate(all='ignore'): got = getattr(sp, op)(t, p)
    tf, pf = t.astype('float64'), p.astype('float64'); ref = []
    for k in range(len(t) - n + 1):
        x = tf[k:k + n]
        with np.errstate(all='ignore'):
            if op == 'correlation':
                den = math.sqrt(((x - x.mean()) ** 2).sum() * ((pf - pf.mean()) ** 2).sum()); ref.append(((x - x.mean()) * (pf - pf.mean())).sum() / den if den > 1e-6 else np.nan)
            elif op == 'distance': ref.append(math.sqrt(((x - pf) ** 2).sum()))
            else:
                vs = (x + pf).var(); ref.append(math.sqrt((x - pf).var() / vs) if vs > 1e-6 else np.nan)
    if not close(got, ref, 1e-5): return '%s(%s, %s) = %s, per-window definition %s' % (op, t.tolist(), p.tolist(), np.asarray(got).tolist(), ref)
    return None

def peaks_ref_check(data, dist, height, got):
    L = len(data); cand = [k for k in range(L) if data[k] >= height and (k == 0 or data[k] >= data[k - 1]) and (k == L - 1 or data[k] >= data[k + 1])]
    got = [int(g) for g in got]
    if sorted(set(got)) != got: return 'result not strictly increasing: %s' % got
    for g in got:
        if g not in cand: return 'returned index %d is not a local maximum >= height' % g
    for a, b in itertools.combinations(got, 2):
        if abs(a - b) < dist: return 'survivors %d and %d are closer than %d' % (a, b, dist)
    for c in cand:
        if c not in got and not any(o != c and abs(o - c) < dist and data[o] >= data[c] for o in cand): return 'candidate %d (value %r) dropped although no candidate within %d is at least as high' % (c, data[c], dist)
    return None

def peaks_case(data, dist, height, dtype='float64'):
    import scared.signal_processing as sp
    d = np.asarray(data, dtype=dtype); got = sp.find_peaks(d, int(dist), height)
    r = peaks_ref_check(d, dist, height, got)
    return 'find_peaks(%s, %d, %r) = %s: %s' % (d.tolist(), dist, height, np.asarray(got).tolist(), r) if r else None

def width_case(data, direction, thr, mn, mx, dl):
    import scared.signal_processing as sp
    d = np.asarray(data, dtype='float64'); L = len(d)
    got = sp.find_width(d, getattr(sp.Direction, direction), thr, mn, max_width=mx, delta=dl)
    beyond = (d > thr) if direction == 'POSITIVE' else (d < thr); exp = []
    for s in range(1, L):
        for e in range(s + 1, L):
            ln = e - s
            if beyond[s:e].all() and not beyond[s - 1] and not beyond[e]:
                ok = (ln >= mn and ln <= mx) if mx is not None else ((mn - dl <= ln <= mn + dl) if dl is not None else ln >= mn)
                if ok: exp.append([s, e])
    g = np.asarray(got).reshape(-1, 2).tolist() if np.asarray(got).size else []
    if g != exp: return 'find_width(%s, %s, thr=%r, min=%s, max=%s, delta=%s) = %s, expected %s' % (d.tolist(), direction, thr, mn, mx, dl, g, exp)
    return None

def pad_case(shape, target, offsets, rnd):
    import scared.signal_processing as sp
    A = np.array([rnd.uniform(-1, 1) for _ in range(int(np.prod(shape)))], dtype='float32').reshape(shape)
    got = sp.pad(A, list(target), list(offsets), 7.5); ref = np.full(target, 7.5, dtype='float32')
    ref[tuple(slice(o, o + s) for o, s in zip(offsets, shape))] = A
    return None if np.array_equal(got, ref) else 'pad(%s -> %s at %s) differs' % (shape, target, offsets)

def extract_case(L, idx, before, after, mode, rnd):
    import scared.signal_processing as sp
    D = np.array([rnd.uniform(-1, 1) for _ in range(L)]); I = np.asarray(idx, dtype='int64')
    got = sp.extract_around_indexes(D, I, before, after, getattr(sp.ExtractMode, mode))
    ref = np.array([[D[i - before + t] for t in range(before + after + 1)] for i in idx])
    ref = {'STACK': ref, 'CONCATENATE': ref.reshape(-1), 'AVERAGE': ref.mean(0)}[mode]
    return None if close(got, ref, 1e-12) else 'extract_around_indexes(len %d, %s, %d, %d, %s) differs' % (L, idx, before, after, mode)

def replay(c):
    rnd = random.Random(5); k = c.get('kind')
    try:
        if k == 'moving':
            data = c.get('data'); tries = [np.array(data, dtype=c['dtype'])] if data is not None else [np.array([rnd.randint(-9, 9) for _ in range(int(np.prod(c['shape'])))], dtype=c['dtype']).reshape(c['shape']) for _ in range(30)]
            for X in tries:
                r = moving_case(c['op'], X, c['w'], c['axis'])
                if r: return dict(reproduced=True, detail=r)
        elif k == 'pattern':
            tries = [(c['trace'], c['pattern'])] if c.get('trace') is not None else [([rnd.randint(-9, 9) for _ in range(c['L'])], [rnd.randint(-9, 9) for _ in range(c['n'])]) for _ in range(30)]
            for t, p in tries:
                r = pattern_case(c['op'], np.array(t, dtype=c['dtype']), np.array(p, dtype=c['dtype']))
                if r: return dict(reproduced=True, detail=r)
        elif k == 'peaks':
            if c.get('data') is not None:
                h = -np.inf if c.get('height') in ('-inf', None) else float(c['height']); r = peaks_case(c['data'], c['distance'], h, c.get('dtype', 'float64'))
                if r: return dict(reproduced=True, detail=r)
            else:
                for _ in range(300):
                    r = peaks_case([rnd.randint(0, 3) for _ in range(c['L'])], rnd.randint(0, c['L'] + 1), rnd.choice([-np.inf, 1.0, 2.0]), c.get('dtype', 'float64'))
                    if r: return dict(reproduced=True, detail=r)
        elif k == 'width':
            if c.get('data') is not None:
                r = width_case(c['data'], c['direction'], c['threshold'], c['min_width'], c.get('max_width'), c.get('delta'))
                if r: return dict(reproduced=True, detail=r)
            else:
                for _ in range(300):
                    L = c['L']; b = c['bound']; mn = rnd.randint(1, L)
                    r = width_case([rnd.randint(0, 2) for _ in range(L)], c['direction'], 1.0 if rnd.random() < .5 else 0.5, mn, rnd.randint(1, L) if b == 'max' else None, rnd.randint(1, max(1, mn - 1)) if b == 'delta' and mn > 1 else None)
                    if r: return dict(reproduced=True, detail=r)
        elif k == 'pad':
            offs = c.get('offsets') or [0] * len(c['shape']); r = pad_case(tuple(c['shape']), tuple(c['target']), offs, rnd)
            if r: return dict(reproduced=True, detail=r)
        elif k == 'extract':
            idx = c.get('indexes') or [c['before']] * c['ni']
            for mode in ([c['mode']] if c.get('mode') else ['STACK', 'CONCATENATE', 'AVERAGE']):
                r = extract_case(c['L'], idx, c['before'], c['after'], mode, rnd)
                if r: return dict(reproduced=True, detail=r)
        return dict(reproduced=False)
    except Exception as e: return dict(reproduced=True, detail='raises %r' % (e,))

def bounded(seed, tier):
    rnd = random.Random(seed); fails = []; ev = 0; q = tier == 'quick'
    def rec(kind, fn, r):
        if r: fails.append(dict(kind=kind, function=fn, detail=r))
    MO = 'scared.signal_processing.moving_operators'; PD = 'scared.signal_processing.pattern_detection'; PK = 'scared.signal_processing.peaks_detection'
    # find_peaks: EXHAUSTIVE over data in {0,1,2}^L, L <= 6 (7 thorough), every distance 0..L+1, heights -inf / 1 / 2
    Lmax = 6 if q else 8
    for L in range(1, Lmax + 1):
        for data in itertools.product(range(3), repeat=L):
            for dist in range(0, L + 2):
                for h in ((-np.inf, 1.0) if q and L > 4 else (-np.inf, 1.0, 2.0)):
                    ev += 1
                    try: rec('peaks', PK + '.find_peaks', peaks_case(list(data), dist, h))
                    except Exception as e: rec('peaks', PK + '.find_peaks', 'raises %r' % (e,))
            if len(fails) > 20: break
    for t in range(300 if q else 3000):
        ev += 1; L = rnd.randint(1, 9); dt = rnd.choice(['uint8', 'int8', 'uint16', 'int32', 'float32'])
        data = [rnd.choice([0, 1, 127, 128, 255]) if dt in ('uint8', 'uint16') else rnd.choice([-128, -1, 0, 1, 127]) for _ in range(L)]
        try: rec('peaks', PK + '.find_peaks', peaks_case(data, rnd.randint(0, L + 1), rnd.choice([-np.inf, 0, 1.0]), dt))
        except Exception as e: rec('peaks', PK + '.find_peaks', 'raises %r' % (e,))
    # find_width: exhaustive over data in {0,1,2}^L vs threshold 1 (strictly beyond), both directions, all width bounds
    for L in range(1, (6 if q else 8) + 1):
        for data in itertools.product(range(3), repeat=L):
            for direction in ('POSITIVE', 'NEGATIVE'):
                for mn in range(1, L + 1):
                    for mx, dl in [(None, None)] + [(m, None) for m in range(1, L + 1, 2)] + [(None, d) for d in range(1, mn)]:
                        ev += 1
                        try: rec('width', PK + '.find_width', width_case(list(data), direction, 1.0, mn, mx, dl))
                        except Exception as e: rec('width', PK + '.find_width', 'raises %r' % (e,))
            if len(fails) > 20: break
    for t in range(400 if q else 4000):
        ev += 1; nd = rnd.choice([1, 1, 2, 3]); shape = tuple(rnd.randint(1, 7) for _ in range(nd)); axis = rnd.randrange(-nd, nd); w = rnd.randint(1, shape[axis]); op = rnd.choice(['sum', 'mean', 'var', 'std', 'skew', 'kurtosis'])
        dt = rnd.choice(['float64', 'float32', 'uint8', 'int16']); X = np.array([rnd.randint(0, 200) if dt == 'uint8' else rnd.randint(-50, 50) for _ in range(int(np.prod(shape)))], dtype=dt).reshape(shape)
        try: rec('moving', MO, moving_case(op, X, w, axis))
        except Exception as e: rec('moving', MO, 'moving_%s raises %r' % (op, e))
    for t in range(300 if q else 3000):
        ev += 1; L = rnd.randint(2, 12); n = rnd.randint(1, L - 1); op = rnd.choice(['correlation', 'distance', 'bcdc']); dt = rnd.choice(['float64', 'int16', 'uint8'])
        tr = np.array([rnd.randint(0, 20) for _ in range(L)], dtype=dt); pt = np.array([rnd.randint(0, 20) for _ in range(n)], dtype=dt)
        try: rec('pattern', PD, pattern_case(op, tr, pt))
        except Exception as e: rec('pattern', PD, '%s raises %r' % (op, e))
    for t in range(100):
        ev += 1; nd = rnd.randint(1, 3); shape = tuple(rnd.randint(1, 3) for _ in range(nd)); offs = tuple(rnd.randint(0, 2) for _ in range(nd)); target = tuple(s + o + rnd.randint(0, 2) for s, o in zip(shape, offs))
        try: rec('pad', 'scared.signal_processing.base.pad', pad_case(shape, target, offs, rnd))
        except Exception as e: rec('pad', 'scared.signal_processing.base.pad', 'raises %r' % (e,))
        ev += 1; L = rnd.randint(3, 12); b = rnd.randint(0, 2); a = rnd.randint(0, 2)
        if L - a - b < 1: continue
        idx = [rnd.randint(b, L - a - 1) for _ in range(rnd.randint(1, 4))]
        try: rec('extract', PK + '.extract_around_indexes', extract_case(L, idx, b, a, rnd.choice(['STACK', 'CONCATENATE', 'AVERAGE']), rnd))
        except Exception as e: rec('extract', PK + '.extract_around_indexes', 'raises %r' % (e,))
    return dict(evaluations=ev, failures=len(fails), failing=fails[:5], exhaustive=False,
                bound='find_peaks and find_width EXHAUSTIVE over data in {0,1,2}^L for L <= %d (every distance 0..L+1, heights -inf/1/2; plus random integer-dtype data at the type bounds; both directions, every min/max/delta); random n-D integer/float arrays for moving_* (all axes, windows), random traces/patterns for correlation/distance/bcdc with the real scipy, random pad / extract_around_indexes' % Lmax)

if __name__ == '__main__':
    cmd = sys.argv[1]
    if cmd == 'replay': print(json.dumps(replay(json.loads(sys.stdin.read())), default=str))
    elif cmd == 'bounded': print(json.dumps(bounded(int(sys.argv[2]), sys.argv[3]), default=str))
