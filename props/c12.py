"""C12 -- classes are identified by value: order is irrelevant, foreign values ignored.

  look-up table    _build_lut / _define_lut_func (real source, numba stub): for every class list of the grid (ordered, permuted, with gaps,
                   values above 255, supersets) and EVERY value of the data dtype: result == position of the value in the list, -1 if undeclared
  automatic set    _PartitionnedDistinguisherBaseMixin._initialize with partitions=None: for every first batch (symbolic values) the chosen
                   class set contains every value present (maximum on both sides of 0, 8/9, 63/64, 255), negative / > 255 values are refused
  kernels          a row contributes to the class whose index the table gives and to none for -1: postcondition of every accumulation
                   kernel (partitioned 1/2, MIA, template 1/2), proved for all class-index assignments of the extents (shared with C01/C11)
  template DPA     TemplateDPADistinguisherMixin.get_template_index selects the template row of the class whose declared VALUE equals the
                   hypothesis (whatever the order of the class list)
  consequences     metrics are sums over the declared classes (C04 contracts): a permutation permutes per-class outputs and leaves the sums
                   unchanged (lemma sum_perm, lemmas/Sums.lean); zero-count classes are excluded by the emptiness mask (C04)
"""
import sys, os, argparse, json, itertools
sys.path.insert(0, os.path.dirname(os.path.dirname(os.path.abspath(__file__))))
import z3
import numpy as _rnp
from pyvc import core, symnp, solve, loader as L, harness as H, report as R, parallel as P
from pyvc.core import SInt, SBV, zi
from props import kernel_inv as KI
from props import dist_common as DCm, kernels as KN

def native(case): return R.replay_native('props.c12_native', case)
PLISTS = [list(range(9)), [3, 1, 2, 0], [5, 300, 7], [0, 2, 4, 6, 8, 10], list(range(12)), [255, 0, 128], [70000, 3, 65535]]

def lut_case(u, rep, parts, ddtype, timeout):
    fn = KN.PM + '::_define_lut_func'
    info = _rnp.iinfo(ddtype)
    def body():
        P_ = symnp.array(parts, dtype='int32')
        f = u.part._define_lut_func(P_)
        N = core.sym_int('N', 1); W = core.sym_int('W', 1)
        data = H.sym_ints('Y', (N, W), ddtype); out = f(data)
        idx, cons = H.generic_index(data.shape)
        for c_ in cons: core.assume(c_)
        v = data.at(*idx); got = out.at(*idx) if out.ndim == 2 else None      # evaluated here: the element-wise function may branch on the value
        return data, out, idx, v, got
    for p, outc, exc in core.explore(body):
        nm = 'post[lut %s on %s: index of the value, -1 if undeclared]' % (parts if len(parts) < 8 else 'range(%d)' % len(parts), ddtype)
        if exc is not None:
            rep.obligation(nm, fn, 'post', dict(result='sat', backend='exec', secs=0), sample=repr(exc)); rep.violation(nm, fn, 'raises %r' % (exc,), dict(kind='lut', parts=parts, ddtype=ddtype), None, *native(dict(kind='lut', parts=parts, ddtype=ddtype))); continue
        data, out, idx, v, got = outc; cons = []
        if got is None: got = core.bvval(-2, 'int32')
        vi = z3.BV2Int(v.z, is_signed=info.min < 0)
        exp = z3.IntVal(-1)
        for k, pv in enumerate(parts): exp = z3.If(vi == pv, z3.IntVal(k), exp)
        inrange = z3.And(vi > -(2 ** 17) + max(parts + [0]), vi < 2 ** 17)      # the table has 2**17 entries (numba does not check bounds; a negative index wraps once: A2); negative values are undeclared values like any other
        ok_meta = out.dtype == _rnp.dtype('int32') and len(out.shape) == 2
        res = solve.discharge(p.pc + cons + [inrange], z3.And(z3.BoolVal(ok_meta), z3.BV2Int(core.cast(got, 'int32').z, is_signed=True) == exp), timeout_ms=timeout)
        rep.obligation(nm, fn, 'post', res, sample='forall data values v in [0, 2^17): lut(v) == index of v in the class list else -1')
        if res['result'] == 'sat':
            val = solve.mval(res['model'], vi); case = dict(kind='lut', parts=parts, ddtype=ddtype, value=val)
            rep.violation(nm, fn, 'value %s maps to the wrong class' % val, case, str(res['model'])[:300], *native(case))

def lut_invariant(u, rep, timeout):
    """_build_lut for EVERY class list (length K and values symbolic, 0 <= value < 2^17): loop invariant at a generic value v
         lut[v] == -1  <=>  v is not among the first k classes;      lut[v] != -1  =>  0 <= lut[v] < k and partitions[lut[v]] == v
    (DECL(k, v) is defined recursively: DECL(0, v) = false, DECL(k+1, v) = DECL(k, v) or partitions[k] == v)"""
    from pyvc import loops
    fn = KN.PM + '::_build_lut'; key = fn
    def body():
        K = core.sym_int('K', 1)
        PV = z3.Function('PV', z3.IntSort(), z3.IntSort())
        parts = symnp.ndarray.fresh((K,), lambda i: SBV(z3.Int2BV(PV(zi(i[0])), 32), 'int32', PV(zi(i[0]))), 'int32', name='PV')
        DECL = z3.Function('DECL', z3.IntSort(), z3.IntSort(), z3.BoolSort())
        gv = z3.Int('gv!'); gr = [gv >= 0, gv < 2 ** 17]
        st = {}
        def inv(lutv, k): return z3.And((lutv == -1) == z3.Not(DECL(k, gv)), z3.Implies(lutv != -1, z3.And(lutv >= 0, lutv < k, PV(lutv) == gv)))
        def cur():
            e = st['lut'].at(SInt(gv)); return e.ival if getattr(e, 'ival', None) is not None else z3.BV2Int(e.z, is_signed=True)
        def establish():
            # the table is the local `lut` of the frame that is executing the loop
            import inspect
            fr = [f for f in inspect.stack() if f.function == '_build_lut']
            st['lut'] = fr[0].frame.f_locals['lut']
            loops.oblige('_build_lut: invariant on entry (every entry -1, nothing declared)', 'invariant-init', z3.Implies(z3.And(*(gr + [z3.Not(DECL(0, gv))])), z3.And(cur() == -1, inv(cur(), z3.IntVal(0)))))
        def havoc(k):
            kz = zi(k); LUT = z3.Function('LUT!%d' % next(loops._ctr), z3.IntSort(), z3.IntSort())
            st['lut'].st.set(lambda J: SBV(z3.Int2BV(LUT(zi(J[0])), 32), 'int32', LUT(zi(J[0]))))
            core.assume(z3.Implies(z3.And(*gr), inv(LUT(gv), kz)))
            if not (isinstance(k, SInt) and k.z.eq(K.z)): core.assume(z3.And(PV(kz) >= 0, PV(kz) < 2 ** 17))      # precondition: class values index the 2^17-entry table
            st['k'] = kz
        def preserve(k):
            kz = zi(k)
            loops.oblige('_build_lut: invariant preserved (entry of class k set to k)', 'invariant-step', z3.Implies(z3.And(*(gr + [DECL(kz + 1, gv) == z3.Or(DECL(kz, gv), PV(kz) == gv)])), inv(cur(), kz + 1)))
        lc = loops.LoopCut('lut', lambda it: K, lambda it, k: k, establish, havoc, preserve)
        L.set_task(loops={key + '#0': lc})
        try: out = L.unwrap(u.part._build_lut)(parts)
        finally: L.set_task(loops={})
        e = out.at(SInt(gv)); ov = e.ival if getattr(e, 'ival', None) is not None else z3.BV2Int(e.z, is_signed=True)
        loops.oblige('_build_lut: result[v] == -1 iff v undeclared, else the index of a class whose value is v (every class list)', 'post', z3.Implies(z3.And(*gr), z3.And(out.dtype == _rnp.dtype('int32'), inv(ov, K.z))))
        return lc.entered
    for p, outc, exc in core.explore(body):
        if exc is not None:
            rep.obligation('_build_lut loop invariant', fn, 'post', dict(result='sat', backend='exec', secs=0), sample=repr(exc)); rep.violation('_build_lut loop invariant', fn, 'raises %r' % (exc,), dict(kind='lut', parts=[0, 1, 2], ddtype='uint8'), None, *native(dict(kind='lut', parts=[0, 1, 2], ddtype='uint8'))); continue
        if outc != 1: rep.errors.append('_build_lut loop contract entered %s times' % outc)
        for ob in p.obligations:
            res = solve.discharge(ob['pc'], ob['goal'], timeout_ms=timeout)
            rep.obligation(ob['name'], fn, ob['kind'], res, sample='class list of symbolic length with symbolic values, generic table entry')
            if res['result'] == 'sat': rep.violation(ob['name'], fn, ob['name'], dict(kind='lut', parts=[3, 1, 2, 0], ddtype='uint8'), str(res['model'])[:400], *native(dict(kind='lut', parts=[3, 1, 2, 0], ddtype='uint8')))

def lut_history(u, rep, timeout):
    """tables of different objects do not influence each other: the same classes listed in another order, built afterwards in the same process"""
    fn = KN.PM + '::_define_lut_func'
    def body():
        f1 = u.part._define_lut_func(symnp.array([0, 1, 2, 3, 4], dtype='int32'))
        f2 = u.part._define_lut_func(symnp.array([3, 0, 4, 2, 1], dtype='int32'))
        N = core.sym_int('N', 1); data = H.sym_ints('Y', (N, 1), 'uint8')
        return data, f2(data), f1(data)
    for p, (data, out2, out1), exc in core.explore(body):
        idx, cons = H.generic_index(data.shape); v = z3.BV2Int(data.at(*idx).z)
        for parts, out, nm in (([3, 0, 4, 2, 1], out2, 'second'), ([0, 1, 2, 3, 4], out1, 'first')):
            exp = z3.IntVal(-1)
            for k, pv in enumerate(parts): exp = z3.If(v == pv, z3.IntVal(k), exp)
            res = solve.discharge(p.pc + cons, z3.BV2Int(core.cast(out.at(*idx), 'int32').z, is_signed=True) == exp, timeout_ms=timeout)
            name = 'post[lut history: %s table of two built in sequence for the same classes in different orders]' % nm
            rep.obligation(name, fn, 'post', res)
            if res['result'] == 'sat': rep.violation(name, fn, 'a table built earlier/later for the same set of classes leaks into this one', dict(kind='lut_history'), str(res['model'])[:300], *native(dict(kind='lut_history')))

def auto_set(u, rep, ddtype, timeout):
    fn = KN.PM + '::_PartitionnedDistinguisherBaseMixin._initialize'
    def body():
        d = u.d.SNRDistinguisher(partitions=None, precision='float32')
        X = H.sym_reals('X', (2, 1), 'float32'); Y = H.sym_ints('Y', (2, 1), ddtype)
        d._initialize(X, Y)
        K_ = L.shim_len(d.partitions)
        if not isinstance(K_, int): K_ = K_.__index__()      # a size computed from the data: one path per feasible value (finite), so that the contract does not depend on how the size is computed
        return d, Y, K_
    seen = set()
    for p, outc, exc in core.explore(body):
        if exc is not None:
            if isinstance(exc, ValueError):
                # refusal: legitimate only when some value is negative or above 255
                Y = H.sym_ints('Y', (2, 1), ddtype); sg = _rnp.dtype(ddtype).kind == 'i'
                vals = [z3.BV2Int(Y.at(i, 0).z, is_signed=sg) for i in range(2)]
                res = solve.discharge(p.pc, z3.Or(*[z3.Or(v < 0, v > 255) for v in vals]), timeout_ms=timeout)
                rep.obligation('raises[auto class set refused only for values < 0 or > 255, %s]' % ddtype, fn, 'raises', res)
                if res['result'] == 'sat': rep.violation('raises[auto class set refused only for values < 0 or > 255, %s]' % ddtype, fn, 'a batch with values in 0..255 is refused', dict(kind='auto', ddtype=ddtype), str(res['model'])[:200], *native(dict(kind='auto', ddtype=ddtype)))
            else:
                rep.obligation('post[auto class set %s]' % ddtype, fn, 'post', dict(result='sat', backend='exec', secs=0), sample=repr(exc)); rep.violation('post[auto class set %s]' % ddtype, fn, 'raises %r' % (exc,), dict(kind='auto', ddtype=ddtype), None, *native(dict(kind='auto', ddtype=ddtype)))
            continue
        d, Y, K = outc
        seen.add(K if isinstance(K, int) else str(K))
        sg = _rnp.dtype(ddtype).kind == 'i'
        goals = []
        for i in range(2):
            v = z3.BV2Int(Y.at(i, 0).z, is_signed=sg)
            goals.append(z3.And(v >= 0, v < zi(K)))              # arange(K) contains v
        # and the class list really is 0..K-1
        isrange = all(int(core.conc(core.zi(d.partitions.at(k)))) == k for k in range(K)) if isinstance(K, int) else False
        res = solve.discharge(p.pc, z3.And(z3.BoolVal(isrange), *goals), timeout_ms=timeout)
        nm = 'post[auto class set of size %s contains every value of the first batch, %s]' % (K if isinstance(K, int) else 'chosen by a data-dependent computation', ddtype)
        rep.obligation(nm, fn, 'post', res, sample='forall first batches: every value present is a declared class')
        if res['result'] == 'sat':
            vals = [solve.mval(res['model'], z3.BV2Int(Y.at(i, 0).z, is_signed=sg)) for i in range(2)]; case = dict(kind='auto', ddtype=ddtype, values=vals)
            rep.violation(nm, fn, 'first batch %s: a value is not in the chosen class set of size %s' % (vals, K), case, str(res['model'])[:300], *native(case))
    rep.cover('automatic class sets of sizes 9, 64 and 256 all reachable (%s): %s' % (ddtype, sorted(map(str, seen))), {9, 64, 256} <= seen)

def template_dpa_index(u, rep, parts, timeout):
    fn = KN.TM + '::TemplateDPADistinguisherMixin.get_template_index'
    def body():
        o = type('TD', (u.tpl.TemplateDPADistinguisherMixin,), {})(partitions=parts, precision='float32'); u.base._initialize_distinguisher(o, 'float32', 0)
        o.is_build = True; o.templates = H.sym_reals('TPL', (len(parts), 2), 'float32'); o.pooled_covariance = H.sym_reals('PC', (2, 2), 'float64'); o.pooled_covariance_inv = H.sym_reals('PCI', (2, 2), 'float64')
        N = core.sym_int('N', 1); X = H.sym_reals('X', (N, 2), 'float32'); Hy = H.sym_ints('H', (N, 3), 'uint8')
        o._initialize(X, Hy)
        return N, Hy, o.get_template_index(Hy, 1), o
    for p, outc, exc in core.explore(body):
        nm = 'post[template DPA: template row == position of the hypothesis VALUE in %s]' % (parts,)
        if exc is not None:
            rep.obligation(nm, fn, 'post', dict(result='sat', backend='exec', secs=0), sample=repr(exc)); rep.violation(nm, fn, 'raises %r' % (exc,), dict(kind='tdpa', parts=parts), None, *native(dict(kind='tdpa', parts=parts))); continue
        N, Hy, idx, o = outc
        i = z3.Int('i!'); v = z3.BV2Int(Hy.at(SInt(i), 1).z)
        exp = z3.IntVal(-1)
        for k, pv in enumerate(parts): exp = z3.If(v == pv, z3.IntVal(k), exp)
        got = idx.at(SInt(i)) if isinstance(idx, symnp.ndarray) else idx
        declared = z3.Or(*[v == pv for pv in parts])
        res = solve.discharge(p.pc + [i >= 0, i < N.z, declared], core.zi(got) == exp, timeout_ms=timeout)
        rep.obligation(nm, fn, 'post', res, sample='forall declared hypothesis values')
        if res['result'] == 'sat': rep.violation(nm, fn, 'hypothesis value selects the wrong template row', dict(kind='tdpa', parts=parts), str(res['model'])[:300], *native(dict(kind='tdpa', parts=parts)))

def main():
    ap = argparse.ArgumentParser(); ap.add_argument('--tier', default=os.environ.get('VERIF_TIER', 'quick')); ap.add_argument('--replay')
    a = ap.parse_args(); seed = int(os.environ.get('VERIF_SEED', '0'))
    if a.replay:
        rp, o = native(json.load(open(a.replay))['case']); print(o); sys.exit(1 if rp else 0)
    rep = R.Report('C12', a.tier, seed); timeout = solve.TIMEOUT_MS[a.tier]
    R.prefetch_native('props.c12_native', ['bounded', str(seed), a.tier])      # the stand-in runs while the obligations are discharged
    u = DCm.Dist()
    for k in (KN.PM + '::_build_lut', KN.PM + '::_define_lut_func', KN.PM + '::_define_lut_func._lut_function', KN.PM + '::_PartitionnedDistinguisherBaseMixin._initialize', KN.PM + '::_PartitionnedDistinguisherBaseMixin._update', KN.PM + '::_set_partitions',
              KN.PM + '::PartitionedDistinguisherMixin._accumulate_core_1', KN.PM + '::PartitionedDistinguisherMixin._accumulate_core_2', KN.MM + '::MIADistinguisherMixin._accumulate_core',
              KN.TM + '::_TemplateBuildDistinguisherMixin._accumulate_core_1', KN.TM + '::_TemplateBuildDistinguisherMixin._accumulate_core_2', KN.TM + '::TemplateDPADistinguisherMixin._initialize', KN.TM + '::TemplateDPADistinguisherMixin.get_template_index', KN.TM + '::TemplateAttackDistinguisherMixin.get_template_index'):
        rep.function(k, u.sha(k))
    units = []
    for parts in PLISTS:
        for dt in (('uint8', 'uint16', 'int32') if a.tier == 'quick' else ('uint8', 'int8', 'uint16', 'int16', 'uint32', 'int32')):
            if max(parts) > 255 and dt in ('uint8', 'int8'): continue
            units.append(('lut', parts, dt))
    for dt in ('uint8', 'uint16', 'int16'): units.append(('auto', dt))
    units.append(('luth',)); units.append(('lutinv',))
    for parts in ([0, 1, 2, 3], [3, 1, 2, 0], [7, 200, 5]): units.append(('tdpa', parts))
    for which in (1, 2): units += [('part', which, 2, 1, 1, 3, 'float32', 'float32'), ('tpl', which, 2, 1, 3, 'float32', 'float32')]
    units.append(('mia', 2, 1, 1, 2, 2, 'float32')); units.append(('miainv', 'float32', 3, -1, 2)); units.append(('k2n', 1, 2, 3, 'float32', 'float32'))
    for td, pr in (('float32', 'float32'), ('uint8', 'float64')): units += [('inv', 'pk1', td, pr), ('inv', 'tk1', td, pr)]
    def work(sub, kind, *args):
        if kind == 'inv':
            which, td, pr = args
            fn_, key_, exp_, dist_ = {'pk1': (KI.partitioned_core1, KN.PM + '::PartitionedDistinguisherMixin._accumulate_core_1', (1, 1, 1), 'SNR'), 'tk1': (KI.template_core1, KN.TM + '::_TemplateBuildDistinguisherMixin._accumulate_core_1', (1, 1), 'TemplateBuild'), 'tt': (KI.ttest_core, KN.TT + '::TTestThreadAccumulator._update_core', (1,), 'ttest')}[which]
            KI.report(sub, fn_(u, td, pr), '%s loop invariants (class by value of the index, -1 contributes nothing), all extents symbolic, %s->%s' % ({'pk1': 'partitioned kernel 1', 'tk1': 'template build kernel 1', 'tt': 't-test kernel'}[which], td, pr), key_, timeout, exp_, native, dict(kind='foreign', dist=dist_)); return
        if kind == 'k2n': KI.report(sub, KI.partitioned_core2(u, *args), 'partitioned kernel 2 (class by value of the index), number of traces symbolic', KN.PM + '::PartitionedDistinguisherMixin._accumulate_core_2', timeout, (), native, dict(kind='foreign', dist='SNR'), sat_is_undecided=True)
        elif kind == 'miainv': KI.report(sub, KI.mia_core(u, *args), 'MIA kernel loop invariants (class by value of the index, -1 contributes nothing), all extents symbolic', KN.MM + '::MIADistinguisherMixin._accumulate_core', timeout, [(1, 1, 1), (1, 1, 0)], native, dict(kind='foreign', dist='MIA'))
        elif kind == 'lut': lut_case(u, sub, args[0], args[1], timeout)
        elif kind == 'auto': auto_set(u, sub, args[0], timeout)
        elif kind == 'luth': lut_history(u, sub, timeout)
        elif kind == 'lutinv': lut_invariant(u, sub, timeout)
        elif kind == 'tdpa': template_dpa_index(u, sub, args[0], timeout)
        elif kind == 'part': KN.report_kernel(sub, KN.partitioned_kernel(u, *args), 'partitioned kernel %d (class by index, -1 ignored)' % args[0], KN.PM + '::PartitionedDistinguisherMixin._accumulate_core_%d' % args[0], timeout, native, dict(kind='foreign', dist='SNR'), check_flows=False)
        elif kind == 'tpl': KN.report_kernel(sub, KN.template_kernel(u, *args), 'template kernel %d (class by index, -1 ignored)' % args[0], KN.TM + '::_TemplateBuildDistinguisherMixin._accumulate_core_%d' % args[0], timeout, native, dict(kind='foreign', dist='TemplateBuild'), check_flows=False)
        elif kind == 'mia': KN.report_kernel(sub, KN.mia_kernel(u, *args), 'MIA kernel (class by index, -1 ignored)', KN.MM + '::MIADistinguisherMixin._accumulate_core', timeout, native, dict(kind='foreign', dist='MIA'), check_flows=False)
    P.run_units(rep, work, units)
    rc, o, so, se = R.run_native('props.c12_native', ['bounded', str(seed), a.tier], timeout=2400)
    if o is None: rep.errors.append('native stand-in failed: %s %s' % (so[-400:], se[-900:]))
    else:
        rep.bounded.append(dict(function='ANOVA/NICV/SNR/MIA/template build/TemplateAttack/TemplateDPAAttack: permuted class lists, supersets, foreign values, automatic class sets around every threshold', bound=o['bound'], evaluations=o['evaluations'], distinct=o['evaluations'], exhaustive=False, failures=o['failures']))
        for f in o['failing'][:3]: rep.violation('bounded[native,%s]' % f.get('dist'), KN.PM + '::_define_lut_func', f.get('detail', 'class order / foreign values change the result'), f, None, True, f)
    rep.assume('A2', 'A4', 'A5', 'A6', 'T-pyvc')
    rep.trust('class values lie in [0, 2^17) (the look-up table size): precondition that _set_partitions does not enforce; numba would read out of bounds silently',
              'undeclared hypothesis values in TemplateDPA matching are outside the contract (no template can be selected for them)')
    rep.not_decided.append('permutation / superset invariance of ANOVA/NICV/SNR/MIA results is a corollary of the C04/C13 postconditions (symmetric sums over non-empty declared classes) and lemma sum_perm; it is not re-proved here, only sampled natively')
    sys.exit(rep.finish('./check C12 --tier %s' % a.tier))

if __name__ == '__main__':
    main()
