"""C16 native side: histories with rejected batches inserted, real distinguishers."""
import sys, json, random
import numpy as np

def make(kind, precision='float64'):
    import scared
    from scared.distinguishers import template, partitioned
    if kind == 'CPA': return scared.CPADistinguisher(precision=precision)
    if kind == 'CPAAlt': return scared.CPAAlternativeDistinguisher(precision=precision)
    if kind == 'DPA': return scared.DPADistinguisher(precision=precision)
    if kind in ('ANOVA', 'NICV', 'SNR'): return getattr(scared, kind + 'Distinguisher')(precision=precision)
    if kind == 'SNRp': return scared.SNRDistinguisher(partitions=[0, 1, 2, 3], precision=precision)
    if kind == 'MIA': return scared.MIADistinguisher(bins_number=4, bin_edges=[-4.0, -2.0, 0.0, 2.0, 4.0], partitions=[0, 1, 2, 3])
    if kind == 'MIAauto': return scared.MIADistinguisher(bins_number=4)
    if kind == 'TemplateBuild':
        cls = type('TB', (partitioned.PartitionedDistinguisherBase, template._TemplateBuildDistinguisherMixin), {}); return cls(precision=precision)
    raise KeyError(kind)

def good(rnd, kind, n, S=3, W=2, hi=4):
    t = np.array([[rnd.gauss(0, 1) for _ in range(S)] for _ in range(n)])
    if kind == 'TemplateBuild': W = 1
    d = np.array([[rnd.randrange(2 if kind == 'DPA' else hi) for _ in range(W)] for _ in range(n)], dtype='uint8')
    return t, d

def bads(rnd, kind, first):
    t, d = good(rnd, kind, 3)
    out = [('rows', t, d[:2]), ('list traces', t.tolist(), d), ('list data', t, d.tolist()), ('int64 data', t, d.astype('int64') + (9 if kind not in ('DPA',) else 0)), ('float data', t, d.astype('float64') + 0.5)]
    if not first: out += [('trace length', t[:, :2], d), ('words', t, np.hstack([d, d])), ('words3', t, np.hstack([d, d, d]))]
    if kind == 'DPA': out.append(('non binary', t, d + 3))
    if kind in ('ANOVA', 'NICV', 'SNR', 'MIAauto', 'TemplateBuild'):
        out.append(('values > 255', t, (d.astype('uint16') + 300))); out.append(('two words small values then refused dtype', t, (d % 3).astype('int64')))
    if kind == 'TemplateBuild': out.append(('two words', t, np.hstack([d, d])))
    out.append(('1-D traces', t[:, 0], d))
    return out

def history_case(kind, rnd, pattern):
    """pattern: list of 'g' (accepted) / index into bads; returns None if the object with rejected batches inserted == the one without"""
    ref = make(kind); obj = make(kind); n_acc = 0; log = []
    for step in pattern:
        if step == 'g':
            t, d = good(rnd, kind, rnd.choice([1, 2, 5]), hi=(60 if n_acc == 0 and kind in ('ANOVA', 'NICV', 'SNR', 'MIAauto', 'TemplateBuild') else 4))
            ref.update(t, d); obj.update(t, d); n_acc += len(t); log.append('g')
        else:
            bl = bads(rnd, kind, n_acc == 0); name, t, d = bl[step % len(bl)]
            try:
                obj.update(t, d); return None          # not a rejection for this distinguisher: nothing to check
            except Exception: log.append(name)
    if obj.processed_traces != n_acc: return 'processed_traces %s after accepted %d (%s)' % (obj.processed_traces, n_acc, log)
    if n_acc == 0:
        try: obj.compute(); return 'compute() works although nothing was accepted (%s)' % log
        except Exception: return None
    a = obj.compute(); b = ref.compute()
    if a.shape != b.shape or not np.allclose(a, b, rtol=1e-9, atol=1e-12, equal_nan=True): return 'later results differ from the accepted-only history (%s)' % log
    return None

def replay(case):
    rnd = random.Random(5); kind = case.get('dist', 'CPA')
    if kind.startswith('TemplateMatch'): return dict(reproduced=None, detail='template matching mixin is exercised symbolically only')
    for t in range(60):
        pat = [rnd.choice(['g', rnd.randrange(12)]) for _ in range(rnd.choice([2, 3, 4]))] + ['g']
        if case.get('history') == 'first': pat = [rnd.randrange(12)] + pat
        try: r = history_case(kind, rnd, pat)
        except Exception as e: r = 'raises %r' % (e,)
        if r: return dict(reproduced=True, detail=r)
    return dict(reproduced=False)

def bounded(seed, tier):
    rnd = random.Random(seed); fails = []; ev = 0
    for kind in ('CPA', 'CPAAlt', 'DPA', 'ANOVA', 'NICV', 'SNR', 'SNRp', 'MIA', 'MIAauto', 'TemplateBuild'):
        for t in range(10 if tier == 'quick' else 60):
            pat = [rnd.choice(['g', rnd.randrange(12), rnd.randrange(12)]) for _ in range(rnd.choice([1, 2, 3, 5]))] + ['g']
            ev += 1
            try: r = history_case(kind, rnd, pat)
            except Exception as e: r = 'raises %r' % (e,)
            if r: fails.append(dict(dist=kind, history='first' if pat[0] != 'g' else 'after', pattern=str(pat), detail=r))
    return dict(evaluations=ev, failures=len(fails), failing=fails[:5], bound='random histories (<= 6 calls) of accepted and rejected batches, 10 distinguisher configurations, every rejection kind')

if __name__ == '__main__':
    cmd = sys.argv[1]
    if cmd == 'replay': print(json.dumps(replay(json.loads(sys.stdin.read())), default=str))
    elif cmd == 'bounded': print(json.dumps(bounded(int(sys.argv[2]), sys.argv[3]), default=str))
