"""C15 native side: replay and bounded stand-in under the real interpreter."""
import sys, json, random, math
import numpy as np

def pc(v): return bin(int(v) & ((1 << 64) - 1)).count('1')

def replay(case):
    import scared
    k = case['kind']
    if k == 'hw':
        dt = 'uint%d' % case['bits']; v = np.array([case['value']], dtype=dt)
        got = int(scared.HammingWeight(expected_dtype=dt)(v)[0]); return dict(reproduced=got != pc(case['value']), got=got, expected=pc(case['value']))
    if k == 'hw_group':
        rnd = random.Random(1); rank, axis, kk, ln, dt = case['rank'], case['axis'], case['k'], case['length'], case['dtype']
        shape = [rnd.choice([1, 2, 3]) for _ in range(rank)]; shape[axis] = ln
        bits = 8 * np.dtype(dt).itemsize
        data = np.array([rnd.getrandbits(bits) for _ in range(int(np.prod(shape)))], dtype=dt).reshape(shape)
        if case.get('heavy'): data = np.full(shape, (1 << bits) - 1, dtype=dt)      # all-ones words: group sums reach and exceed 256 / 65536
        try: out = scared.HammingWeight(nb_words=kk, expected_dtype=dt)(data, axis=axis)
        except Exception as e: return dict(reproduced=ln >= kk, detail=repr(e))
        if ln < kk: return dict(reproduced=True, detail='accepted')
        hw = np.vectorize(pc)(data).astype('uint32'); g = ln // kk
        hw = np.moveaxis(hw, axis, 0)[:g * kk].reshape((g, kk) + tuple(np.moveaxis(hw, axis, 0).shape[1:])).sum(1); exp = np.moveaxis(hw, 0, axis)
        return dict(reproduced=out.shape != exp.shape or not np.array_equal(out, exp))
    if k == 'monobit':
        dt = case['dtype']; info = np.iinfo(dt); vals = [case.get('value', 0), info.min, info.max, 0, 1, -1 if info.min < 0 else 255, 128 if info.max >= 128 else 64]
        vals = [((int(v) - info.min) % (info.max - info.min + 1)) + info.min for v in vals]
        data = np.array([vals], dtype=dt)
        try: out = scared.Monobit(case['bit'])(data)
        except Exception as e: return dict(reproduced=True, detail=repr(e))
        exp = [[(int(v) >> case['bit']) & 1 for v in vals]]
        return dict(reproduced=out.tolist() != exp, got=out.tolist(), expected=exp)
    if k == 'value':
        d = np.arange(6, dtype='uint8').reshape(2, 3); return dict(reproduced=not np.array_equal(scared.Value()(d), d))
    if k == 'disc':
        name, rank, axis, ln = case['name'], case['rank'], case['axis'], case['length']
        vals = case.get('values')
        trials = []
        if vals is not None:
            shape = [1] * rank; shape[axis] = ln
            trials.append(np.array([np.nan if v is None else v for v in vals], dtype=case['dtype']).reshape(shape))
        rnd = random.Random(2)
        for _ in range(20):
            shape = [rnd.choice([1, 2]) for _ in range(rank)]; shape[axis] = ln
            trials.append(np.array([rnd.choice([np.nan, -3.0, -1.5, 0.0, 2.0, 7.25]) for _ in range(int(np.prod(shape)))], dtype=case['dtype']).reshape(shape))
        for data in trials:
            import warnings
            with warnings.catch_warnings():
                warnings.simplefilter('ignore')
                out = getattr(scared, name)(data, axis=axis)
                exp = ref_disc(name, data, axis)
            if out.shape != exp.shape or not np.array_equal(out, exp, equal_nan=True): return dict(reproduced=True, data=data.tolist(), got=np.asarray(out).tolist(), expected=exp.tolist())
        return dict(reproduced=False)
    return dict(reproduced=None)

def ref_disc(name, data, axis):
    d = np.moveaxis(data, axis, -1); out = np.empty(d.shape[:-1], dtype=data.dtype)
    for i in np.ndindex(*d.shape[:-1]):
        row = [float(v) for v in d[i]]
        if name in ('maxabs', 'abssum'): row = [abs(v) for v in row]
        if name == 'opposite_min': row = [-v for v in row]
        keep = [v for v in row if not math.isnan(v)]
        if name in ('nansum', 'abssum'): out[i] = sum(keep)
        else: out[i] = max(keep) if keep else np.nan
    return out

def bounded(seed, tier):
    import scared
    rnd = random.Random(seed); fails = []; ev = 0
    # exhaustive uint8 and uint16
    for dt, n in (('uint8', 256), ('uint16', 65536)):
        v = np.arange(n, dtype=dt); got = scared.HammingWeight(expected_dtype=dt)(v); ev += n
        exp = np.array([pc(x) for x in range(n)], dtype='uint32')
        if not np.array_equal(got, exp): fails.append(dict(kind='hw', function='scared.models::_fhw', bits=int(dt[4:]), value=int(np.nonzero(got != exp)[0][0])))
    # uint32 / uint64: per-byte-lane exhaustive + all-ones patterns + random
    for dt, bits in (('uint32', 32), ('uint64', 64)):
        vals = [b << (8 * lane) for lane in range(bits // 8) for b in range(256)] + [(1 << bits) - 1, 0, (1 << (bits - 1)), (1 << bits) - 2] + [rnd.getrandbits(bits) for _ in range(2000)]
        v = np.array(vals, dtype=dt); got = scared.HammingWeight(expected_dtype=dt)(v); ev += len(vals)
        exp = np.array([pc(x) for x in vals], dtype='uint32')
        if not np.array_equal(got, exp): fails.append(dict(kind='hw', function='scared.models::_fhw%d' % bits, bits=bits, value=int(vals[int(np.nonzero(got != exp)[0][0])])))
    # large groups of heavy words: the group sum must not be accumulated in the width of one word's weight
    for dt, k, ln in (('uint8', 32, 64), ('uint8', 64, 130), ('uint16', 16, 33), ('uint32', 8, 16), ('uint64', 4, 9), ('uint8', 300, 600), ('uint64', 1100, 1100)):
        for rank, axis in ((1, 0), (2, 1), (2, 0)):
            ev += 1; c = dict(kind='hw_group', rank=rank, axis=axis, k=k, length=ln, dtype=dt, heavy=True)
            if replay(c)['reproduced']: fails.append(dict(c, function='scared.models::HammingWeight._compute'))
    for t in range(0):
        pass
    for t in range(60 if tier == 'quick' else 600):
        rank = rnd.choice([1, 2, 3]); axis = rnd.randrange(rank); k = rnd.choice([1, 2, 3, 4]); ln = rnd.choice([1, 2, 3, 4, 5, 7, 8]); dt = rnd.choice(['uint8', 'uint16', 'uint32', 'uint64']); ev += 1
        r = replay(dict(kind='hw_group', rank=rank, axis=axis, k=k, length=ln, dtype=dt))
        if r['reproduced']: fails.append(dict(kind='hw_group', function='scared.models::HammingWeight._compute', rank=rank, axis=axis, k=k, length=ln, dtype=dt))
        name = rnd.choice(['nanmax', 'maxabs', 'opposite_min', 'nansum', 'abssum']); ev += 1
        if rank == 1: rank = 2
        r = replay(dict(kind='disc', name=name, rank=rank, axis=axis, length=ln, dtype=rnd.choice(['float32', 'float64'])))
        if r['reproduced']: fails.append(dict(kind='disc', function='scared.discriminants::' + name, name=name, rank=rank, axis=axis, length=ln, dtype='float64', values=None))
    for dt in ('uint8', 'int8', 'uint16', 'int16', 'uint32', 'int32', 'uint64', 'int64'):
        for b in range(9):
            ev += 1; r = replay(dict(kind='monobit', dtype=dt, bit=b))
            if r['reproduced']: fails.append(dict(kind='monobit', function='scared.models::Monobit._compute', dtype=dt, bit=b))
    return dict(evaluations=ev, failures=len(fails), failing=fails[:5], exhaustive=False, bound='uint8/uint16 exhaustive; uint32/uint64 per-byte-lane exhaustive + extremes + 2000 random; random shapes/axes/nb_words; heavy all-ones groups of 4..1100 words (sums above 255 / 65535); Monobit on 8 dtypes x 9 bits; discriminants with NaN on random small arrays')

if __name__ == '__main__':
    cmd = sys.argv[1]
    if cmd == 'replay': print(json.dumps(replay(json.loads(sys.stdin.read())), default=str))
    elif cmd == 'bounded': print(json.dumps(bounded(int(sys.argv[2]), sys.argv[3]), default=str))
