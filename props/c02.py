"""C02 / C08 -- Analysis.run on a Container == the one-shot statistic; convergence traces are scores on prefixes.

Contracts over scared/container.py and scared/analysis/base.py (real source), estraces and the distinguisher behind a contract:
  _TracesBatchIterable.__init__   for ALL n >= 0 and batch_size >= 1 (both symbolic): the slices are consecutive, start at 0, each
                                  non-empty and <= batch_size, all but possibly the last == batch_size, and end at n (tail included)
  _TracesBatchWrapper.samples     == pp_m(...pp_1(ths.samples[:, frame])) (frame first, preprocesses in list order); metadatas of the same rows
  Container._compute_batch_size   int mode and table mode: returns the entry whose interval contains max(trace_size, input_size)
  _BaseAnalysis.run / process / compute_results, BaseAttack.*  loop invariant over a SYMBOLIC number of batches (loop cut):
        the distinguisher has been fed exactly rows [0, start_k) of the container, in order, each batch paired with
        model(selection_function(its own metadata)); after the loop all n rows; results == compute(), scores == discriminant(results);
        several run() calls continue the same stream.  DistinguisherMixin.update/compute are modular calls (contract = C01/C16).
  C08: BaseAttack._batch_loop_compute/_final_compute/_compute_convergence_traces/_compute_batch_size: every appended column is the
        score of exactly the traces processed so far, at least `step` after the previous column (final remainder: strictly after),
        the last column equals the final scores, results/scores are those of the run without convergence.
"""
import sys, os, argparse, json
sys.path.insert(0, os.path.dirname(os.path.dirname(os.path.abspath(__file__))))
import z3
import numpy as _rnp
from pyvc import core, symnp, solve, loader as L, harness as H, report as R, parallel as P, loops, estub
from pyvc.core import SInt, SBV, SFloat, zi, mk_int

CMOD = 'scared.container'; AMOD = 'scared.analysis.base'; DB = 'scared.distinguishers.base'

def native(prop, case): return R.replay_native('props.c02_native', dict(case, prop=prop))

class Under:
    def __init__(self):
        self.ld = L.Loader()
        self.cont = self.ld.load(CMOD); self.ana = self.ld.load(AMOD); self.analysis = self.ld.load('scared.analysis')
        self.sfb = self.ld.load('scared.selection_functions.base'); self.models = self.ld.load('scared.models')
        self.E = self.ld.extra['estraces']

# ----------------------------------------------------------------------------- (A) slices
def slices_contract(u, rep, timeout):
    fn = CMOD + '::_TracesBatchIterable.__init__'
    def report(nm, res, n, bs):
        rep.obligation('post[slices: %s]' % nm, fn, 'post', res, sample='forall n >= 0, batch_size >= 1, k < len(slices): ' + nm)
        if res['result'] == 'sat':
            m = res['model']; case = dict(kind='slices', n=solve.mval(m, n.z), bs=solve.mval(m, bs.z))
            rep.violation('post[slices: %s]' % nm, fn, 'n=%s batch_size=%s: %s fails' % (case['n'], case['bs'], nm), case, str(m)[:300], *native('C02', case))
    def mk():
        n = core.sym_int('n', 0); bs = core.sym_int('bs', 1)
        ths = u.E.TraceHeaderSet('T', n, 5, 'float32', {'plaintext': (16, 'uint8')})
        return n, bs, u.cont._TracesBatchIterable(ths=ths, batch_size=bs, frame=Ellipsis, preprocesses=[])
    def body_len():
        n, bs, it = mk(); return n, bs, L.shim_len(it._slices), L.shim_len(it)
    for p, outc, exc in core.explore(body_len):
        if exc is not None:
            rep.obligation('post[slices]', fn, 'post', dict(result='sat', backend='exec', secs=0), sample=repr(exc)); rep.violation('post[slices]', fn, 'raises %r' % (exc,), dict(kind='slices'), None, *native('C02', dict(kind='slices'))); continue
        n, bs, Ls, Lit = outc
        report('len(slices) == ceil(n / batch_size)', solve.discharge(p.pc, z3.And(zi(Ls) == (n.z + bs.z - 1) / bs.z, zi(Lit) == zi(Ls)), timeout_ms=timeout), n, bs)
    def body_k():
        n, bs, it = mk(); Ls = L.shim_len(it._slices)
        k = core.sym_int('k', 0); core.assume(k.z < zi(Ls))
        s = it._slices[k]
        last = bool(k == Ls - 1)                  # forks
        s_next = None if last else it._slices[k + 1]
        return n, bs, k, s, s_next, last
    covered = set()
    for p, outc, exc in core.explore(body_k):
        if exc is not None:
            rep.obligation('post[slices]', fn, 'post', dict(result='sat', backend='exec', secs=0), sample=repr(exc)); rep.violation('post[slices]', fn, 'raises %r' % (exc,), dict(kind='slices'), None, *native('C02', dict(kind='slices'))); continue
        n, bs, k, s, s_next, last = outc
        stop = n.z if s.stop is None else z3.If(zi(s.stop) <= n.z, zi(s.stop), n.z)
        start = zi(s.start)
        covered.add((last, s.stop is None))
        gl = [('start_k == k * batch_size', start == k.z * bs.z), ('slice k is not empty', stop > start), ('width_k <= batch_size', stop - start <= bs.z), ('step == 1', z3.BoolVal(s.step == 1))]
        if last: gl.append(('the last slice ends at n (tail included)', stop == n.z))
        else: gl += [('width_k == batch_size for every slice but the last', stop - start == bs.z), ('slice k+1 starts where slice k ends', zi(s_next.start) == stop)]
        for nm, g in gl:
            report(nm + (' [k last%s]' % (', open-ended tail' if s.stop is None else '') if last else ' [k not last]'), solve.discharge(p.pc, g, timeout_ms=timeout), n, bs)
    rep.cover('slices: a tail batch (n % batch_size != 0) is reachable', (True, True) in covered)
    rep.cover('slices: an exact multiple (no tail) is reachable', (True, False) in covered)

# ----------------------------------------------------------------------------- (B) wrapper
PP_UF = [z3.Function('PP%d' % i, z3.RealSort(), z3.IntSort(), z3.RealSort()) for i in range(3)]
def mk_pp(i):
    def pp(traces):
        f = traces.snapshot()
        dt = traces.dtype if traces.dtype.kind == 'f' else _rnp.dtype('float32')      # the preprocess keeps the floating-point type of its input
        return symnp.ndarray.fresh(traces.shape, lambda idx: SFloat(PP_UF[i](core.to_float(f(idx)).v, zi(idx[1])), dt), dt)
    pp.__name__ = 'pp%d' % i
    return pp

def wrapper_contract(u, rep, frame, frame_label, npp, timeout):
    def body():
        # through the public route: Container(ths, frame, preprocesses).batches(bs)[k] for a generic batch k
        ntot = core.sym_int('ntot', 1); bs = core.sym_int('bs', 1); k = core.sym_int('k', 0)
        ths0 = u.E.TraceHeaderSet('T', ntot, 40, 'float32', {'plaintext': (16, 'uint8')})
        cont = u.cont.Container(ths0, frame=(None if frame is Ellipsis else frame), preprocesses=[mk_pp(i) for i in range(npp)])
        batches = cont.batches(batch_size=bs)
        core.assume(k.z < zi(L.shim_len(batches)))
        w = batches[k]
        n = L.shim_len(w); lo = mk_int(k.z * bs.z)
        core.assume(zi(n) >= 1)
        return SInt(zi(n)) if not isinstance(n, SInt) else n, SInt(zi(lo)), ths0, w.samples, w.metadatas['plaintext'], None
    fn = CMOD + '::_TracesBatchWrapper.samples'; oname = 'post[wrapper.samples frame=%s, %d preprocesses]' % (frame_label, npp)
    case = dict(kind='wrapper', frame=frame_label, npp=npp)
    for p, outc, exc in core.explore(body):
        if exc is not None:
            rep.obligation(oname, fn, 'post', dict(result='sat', backend='exec', secs=0), sample=repr(exc)); rep.violation(oname, fn, 'raises %r' % (exc,), case, None, *native('C02', case)); continue
        n, lo, ths, samples, meta, _ = outc
        cols = list(range(40))[frame] if isinstance(frame, slice) else (list(range(40)) if frame is Ellipsis else list(frame))
        ok = samples.ndim == 2 and H.structurally_equal([samples.shape[0]], [n]) and samples.shape[1] == len(cols)
        i = z3.Int('i!'); cons = [i >= 0, i < n.z]; got = []; exp = []
        if ok:
            for c in range(len(cols)):
                v = ths.S(lo.z + i, z3.IntVal(cols[c]))
                for q in range(npp): v = PP_UF[q](v, z3.IntVal(c))
                got.append(samples.at(SInt(i), c)); exp.append(SFloat(v, 'float32'))
            got.append(meta.at(SInt(i), 3)); exp.append(SBV(ths.meta['plaintext'][2](lo.z + i, z3.IntVal(3)), 'uint8'))
        res = (dict(result='unsat', backend='structural', secs=0) if H.structurally_equal(got, exp, simp=True) else solve.discharge(p.pc + cons, H.eq_all(got, exp), timeout_ms=timeout)) if ok else dict(result='sat', backend='exec', secs=0)
        rep.obligation(oname, fn, 'post', res, sample='samples[i, c] == pp_m(..pp_1(S[lo+i, frame[c]])) and metadatas[i] == M[lo+i]')
        if res['result'] == 'sat': rep.violation(oname, fn, 'frame / preprocess order / row pairing differs', case, str(res.get('model'))[:400], *native('C02', case))

# ----------------------------------------------------------------------------- batch size table
def batch_size_contract(u, rep, timeout):
    fn = CMOD + '::Container._compute_batch_size'
    table = list(u.cont._ORIGINAL_BATCH_SIZES)
    def body():
        ts = core.sym_int('trace_size', 1)
        ths = u.E.TraceHeaderSet('T', core.sym_int('n', 1), core.sym_int('W', 1), 'float32', {})
        c = u.cont.Container(ths); u.cont.Container._BATCH_SIZE = table
        return ts, ths, c._compute_batch_size(ts)
    for p, outc, exc in core.explore(body):
        if exc is not None:
            rep.obligation('post[batch size table]', fn, 'post', dict(result='sat', backend='exec', secs=0), sample=repr(exc)); continue
        ts, ths, out = outc
        mx = z3.If(ts.z >= zi(ths.width), ts.z, zi(ths.width))
        exp = z3.IntVal(table[-1][1])
        for (lo_, v), (hi_, _) in reversed(list(zip(table[:-1], table[1:]))): exp = z3.If(z3.And(mx >= lo_, mx < hi_), z3.IntVal(v), exp)
        res = solve.discharge(p.pc, zi(out) == exp, timeout_ms=timeout)
        rep.obligation('post[batch size table: entry whose interval contains the size]', fn, 'post', res)
        if res['result'] == 'sat': rep.violation('post[batch size table: entry whose interval contains the size]', fn, 'wrong table entry', dict(kind='batch_table', size=solve.mval(res['model'], mx)), str(res['model'])[:300], *native('C02', dict(kind='batch_table', size=solve.mval(res['model'], mx))))
    u.cont.Container._BATCH_SIZE = table

# ----------------------------------------------------------------------------- (C) the run loop
RESULT = z3.Function('RESULT', z3.IntSort(), z3.IntSort(), z3.IntSort(), z3.RealSort())     # statistic of the first P rows, word w, sample s
SCORE = z3.Function('SCORE', z3.IntSort(), z3.IntSort(), z3.RealSort())
SF_UF = z3.Function('SFUF', z3.BitVecSort(8), z3.IntSort(), z3.BitVecSort(8))

class Ghost:
    def __init__(self): self.P = 0; self.updates = 0; self.violations = []; self.computes = 0

def make_analysis(u, klass, G, ths_meta, conv_step=None, W=4, Scols=6):
    def sfun(plaintext):
        f = plaintext.snapshot()
        return symnp.ndarray.fresh((plaintext.shape[0], W), lambda i: SBV(SF_UF(f((i[0], i[1])).z, zi(i[1])), 'uint8'), 'uint8')
    sf = u.sfb.SelectionFunction(sfun)
    model = u.models.Value()
    def disc(results):
        Pv = results.ghostP
        t = symnp.ndarray.fresh((W,), lambda i: SFloat(SCORE(zi(Pv), zi(i[0])), 'float64'), 'float64'); t.disc_of = results; t.ghostP = Pv      # a discriminant may return a wider type than the attack's precision (DPA, MIA do)
        return t
    disc.__name__ = 'disc'
    if conv_step is None and not issubclass(klass, u.ana.BaseAttack): a = klass(selection_function=sf, model=model)
    elif issubclass(klass, u.ana.BaseAttack): a = klass(selection_function=sf, model=model, discriminant=disc, convergence_step=conv_step)
    a._ghost = G
    return a

def update_stub(expected):
    """contract of DistinguisherMixin.update (C01/C16): the batch must be the next rows of the stream; effect: P += len"""
    def stub(body, self, traces, data):
        G = self._ghost; P0 = G.P
        ln = traces.shape[0]
        loops.oblige('update: traces and data have the same number of rows', 'requires', zi(ln) == zi(data.shape[0]))
        i = z3.Int('u!i%d' % G.updates); c = z3.Int('u!c%d' % G.updates)
        rng = [i >= 0, i < zi(ln)]
        samples_exp, data_exp, ncols, W = expected[:4]; sdt = expected[4] if len(expected) > 4 else None
        if sdt is not None: loops.oblige('update: the batch is handed over in the dtype the container delivers (no cast by the analysis: binning distinguishers depend on the sample values)', 'requires', z3.BoolVal(str(traces.dtype) == sdt), dict(text='batch dtype %s, container samples %s' % (traces.dtype, sdt)))
        goal_s = z3.And(*[core.scalar_eq(traces.at(SInt(i), cc), samples_exp(zi(P0) + i, cc)) for cc in range(ncols)]) if (traces.ndim == 2 and traces.shape[1] == ncols) else z3.BoolVal(False)
        goal_d = z3.And(*[core.scalar_eq(data.at(SInt(i), ww), data_exp(zi(P0) + i, ww)) for ww in range(W)]) if (data.ndim == 2 and data.shape[1] == W) else z3.BoolVal(False)
        loops.oblige('update: the batch is exactly the next rows of the container, in order (frame, then preprocesses)', 'requires', z3.Implies(z3.And(*rng), goal_s), dict(text='traces[i,:] == pp(S[P+i, frame]) for the P rows already fed'))
        loops.oblige('update: intermediate values come from the metadata of the same rows', 'requires', z3.Implies(z3.And(*rng), goal_d), dict(text='data[i,:] == model(sf(M[P+i]))'))
        G.P = mk_int(zi(P0) + zi(ln)); G.updates += 1
        self.processed_traces = self.processed_traces + ln
    return stub
def compute_stub(body, self):
    G = self._ghost; Pv = G.P; G.computes += 1
    t = symnp.ndarray.fresh((4, 6), lambda i: SFloat(RESULT(zi(Pv), zi(i[0]), zi(i[1])), 'float32'), 'float32'); t.ghostP = Pv
    return t

class AbsList:
    """abstraction of the list _batches_processed: only first, last and length are observed by the code"""
    def __init__(self, first, last, n): self.first = first; self.last = last; self.n = n
    def append(self, v):
        self.last = v; self.n = self.n + 1
    def __getitem__(self, i):
        if i == 0: return self.first
        if i == -1: return self.last
        raise core.NeedsContract('AbsList index %r' % (i,))
    def __pyvc_len__(self): return self.n

def run_loop(u, rep, klass_name, conv, nruns, timeout, generic_start=False):
    """loop-cut proof of _BaseAnalysis.run (and the convergence code when conv) for a symbolic number of batches"""
    klass = getattr(u.analysis, klass_name)
    fn = AMOD + '::_BaseAnalysis.run'
    frame = slice(2, 8)
    def body():
        G = Ghost(); bs = core.sym_int('bs', 1)
        step = core.sym_int('step', 1) if conv else None
        a = make_analysis(u, klass, G, None, conv_step=step)
        u.cont.Container._BATCH_SIZE = bs
        info = []
        if generic_start:
            # induction step over run() calls: an arbitrary state that satisfies the between-runs invariant
            P0 = core.sym_int('P0', 0); G.P = P0; a.processed_traces = P0
            if conv: conv_havoc(a, G, {}, 0, P0, step)
        for run in range(nruns):
            n = core.sym_int('n%d' % run, 1)
            sdt = 'float64' if generic_start else 'float32'      # the analysis precision is float32: a container of float64 samples shows a cast
            ths = u.E.TraceHeaderSet('T%d' % run, n, 40, sdt, {'plaintext': (16, 'uint8')})
            cont = u.cont.Container(ths, frame=frame, preprocesses=[mk_pp(0)])
            base = G.P
            samples_exp = lambda r, c, ths=ths, base=base: SFloat(PP_UF[0](ths.S(r - zi(base), z3.IntVal(2 + c)), z3.IntVal(c)), 'float32')
            data_exp = lambda r, w, ths=ths, base=base: SBV(SF_UF(ths.meta['plaintext'][2](r - zi(base), z3.IntVal(w)), z3.IntVal(w)), 'uint8')
            state = {}
            def count(it, a=a, cont=cont, state=state):
                state['batches'] = cont.batches(batch_size=a._compute_batch_size(cont.batch_size)); state['bsz'] = a._compute_batch_size(cont.batch_size)
                return L.shim_len(state['batches'])
            def element(it, k, state=state): return (k, state['batches'][k])
            def inv_state(k, n=n, base=base, state=state):
                fed = k * state['bsz']
                return mk_int(z3.If(zi(fed) <= n.z, zi(fed), n.z) + zi(base))
            def establish(a=a, G=G, base=base):
                loops.oblige('run loop: invariant holds on entry (P == rows fed before this run)', 'invariant-init', z3.And(zi(G.P) == zi(base), zi(a.processed_traces) == zi(base)))
                if conv: conv_establish(a, G, step)
            def havoc(k, a=a, G=G, state=state):
                Pk = inv_state(k); G.P = Pk; a.processed_traces = Pk
                if conv: conv_havoc(a, G, state, k, Pk, step)
            def preserve(k, a=a, G=G, state=state):
                Pn = inv_state(k + 1)
                loops.oblige('run loop: after batch k exactly rows [0, start_{k+1}) have been fed', 'invariant-step', z3.And(zi(G.P) == zi(Pn), zi(a.processed_traces) == zi(Pn)), dict(text='P_{k+1} == min((k+1)*batch, n) + rows of earlier runs'))
                if conv: conv_preserve(a, G, state, k, step)
            lc = loops.LoopCut('run', count, element, establish, havoc, preserve)
            L.set_task(stubs={DB + '::DistinguisherMixin.update': update_stub((samples_exp, data_exp, 6, 4, sdt)), DB + '::DistinguisherMixin.compute': compute_stub},
                       loops={AMOD + '::_BaseAnalysis.run#0': lc})
            a.run(cont)
            info.append((n, lc.entered))
            # postconditions of run()
            total = mk_int(zi(base) + n.z)
            loops.oblige('run: every trace of the container was fed exactly once (P == P_before + n)', 'post', zi(G.P) == zi(total))
            loops.oblige('run: results == compute() on all traces fed so far', 'post', z3.BoolVal(getattr(a.results, 'ghostP', None) is not None) if not hasattr(a.results, 'ghostP') else zi(a.results.ghostP) == zi(total))
            if issubclass(klass, u.ana.BaseAttack):
                ok = getattr(a.scores, 'disc_of', None) is a.results
                loops.oblige('run: scores == discriminant(results)', 'post', z3.BoolVal(bool(ok)))
                if conv: conv_post(a, G, state, total, step)
        return info
    tag = '%s%s,%s' % (klass_name, ',convergence' if conv else '', 'run() from an arbitrary earlier history' if generic_start else 'first run()')
    prop = 'C08' if conv else 'C02'
    paths = core.explore(body)
    for p, outc, exc in paths:
        if exc is not None:
            rep.obligation('run[%s]' % tag, fn, 'post', dict(result='sat', backend='exec', secs=0), sample=repr(exc))
            rep.violation('run[%s]' % tag, fn, 'raises %r' % (exc,), dict(kind='run', klass=klass_name, conv=conv), None, *native(prop, dict(kind='run', klass=klass_name, conv=conv))); continue
        if any(e != 1 for _, e in outc):
            rep.errors.append('loop contract of run() not entered exactly once per run (%s)' % (outc,))
        for ob in p.obligations:
            res = solve.discharge(ob['pc'], ob['goal'], timeout_ms=timeout)
            nm = '%s [%s]' % (ob['name'], tag)
            rep.obligation(nm, fn if 'convergence' not in ob['name'] else AMOD + '::BaseAttack._batch_loop_compute', ob['kind'], res, sample=ob['meta'].get('text'))
            if res['result'] == 'sat':
                m = res['model']; vals = {str(d): str(m[d]) for d in m.decls() if d.arity() == 0 and (str(d).startswith('n') or str(d) in ('bs', 'step') or 'k' in str(d))}
                case = dict(kind='run', klass=klass_name, conv=conv, model=vals)
                rep.violation(nm, fn, 'fails for %s' % vals, case, str(m)[:600], *native(prop, case))
    u.cont.Container._BATCH_SIZE = list(u.cont._ORIGINAL_BATCH_SIZES)
    return len(paths)

# ---- C08 pieces: ghost description of the convergence state
PTS = z3.Function('PTS', z3.IntSort(), z3.IntSort())        # ghost: processed-trace count at which column j was appended
def conv_invariant(m, f, ln, P, step, kpos=False):
    """representation invariant of the convergence bookkeeping when P traces have been processed"""
    last_pt = PTS(zi(m) - 1)
    return z3.And(zi(m) >= 0, zi(ln) >= 1, zi(f) >= 0, zi(f) <= zi(P),
                  z3.Implies(zi(ln) == 1, zi(f) == zi(P)),                       # bookkeeping was just restarted at P (or nothing processed yet)
                  z3.Implies(zi(ln) > 1, zi(P) - zi(f) < zi(step)),              # otherwise a column would have been appended
                  z3.Implies(zi(m) > 0, z3.And(last_pt >= zi(f), last_pt <= zi(P))),
                  z3.Implies(zi(f) > 0, zi(m) > 0),                              # a regular point exists once `first` moved
                  z3.Implies(z3.And(zi(ln) > 1, zi(m) > 0, core.zb(kpos)), last_pt < zi(P)),   # after at least one batch of this run the last point lies strictly behind
                  z3.Implies(z3.And(zi(ln) == 1, zi(P) > 0), z3.And(zi(m) > 0, last_pt == zi(P))))
def conv_establish(a, G, step):
    bp = a._batches_processed; ct = a.convergence_traces
    m = 0 if ct is None else ct.shape[-1]
    f, ln = bp[0], L.shim_len(bp)
    loops.oblige('convergence: bookkeeping invariant holds on entry of the batch loop', 'invariant-init', conv_invariant(m, f, ln, G.P, step))
    if ct is not None and not isinstance(m, int):
        w = z3.Int('w!e'); j = z3.Int('j!e')
        loops.oblige('convergence: columns on entry are scores of recorded points', 'invariant-init', z3.Implies(z3.And(j >= 0, j < zi(m), w >= 0, w < 4), core.scalar_eq(ct.at(SInt(w), SInt(j)), SFloat(SCORE(PTS(j), w), 'float32'))))
def conv_havoc(a, G, state, k, Pk, step):
    """arbitrary convergence state satisfying the invariant at the head of iteration k"""
    uid = next(loops._ctr)
    m = SInt(z3.Int('m!%d' % uid)); f = SInt(z3.Int('first!%d' % uid)); ln = SInt(z3.Int('bplen!%d' % uid))
    core.assume(conv_invariant(m, f, ln, Pk, step, kpos=core.mk_bool(zi(k) > 0)))
    a._batches_processed = AbsList(f, Pk, ln)
    a.convergence_traces = symnp.ndarray.fresh((4, m), lambda i: SFloat(SCORE(PTS(zi(i[1])), zi(i[0])), 'float32'), 'float32')
    state['m'] = m; state['first'] = f; state['Pk'] = Pk; state['ln'] = ln; state['ct0'] = a.convergence_traces
def conv_preserve(a, G, state, k, step):
    m = state['m']; f = state['first']; Pn = G.P
    ct = a.convergence_traces; m2 = ct.shape[-1]
    bp = a._batches_processed
    appended = mk_int(zi(m2) - m.z)
    loops.oblige('convergence: at most one column is appended per batch', 'invariant-step', z3.Or(zi(appended) == 0, zi(appended) == 1))
    crossed = zi(Pn) - f.z >= step.z
    loops.oblige('convergence: a column is appended exactly when at least `step` traces were processed since the previous column', 'invariant-step', (zi(appended) == 1) == crossed)
    # content of the new column and of the old ones
    w = z3.Int('w!cv'); j = z3.Int('j!cv')
    newcol = core.scalar_eq(ct.at(SInt(w), m), SFloat(SCORE(zi(Pn), w), 'float32')) if True else None
    loops.oblige('convergence: the appended column equals the scores on exactly the traces processed so far', 'invariant-step', z3.Implies(z3.And(zi(appended) == 1, w >= 0, w < 4), newcol), dict(text='column m == discriminant(compute()) at P'))
    if ct is not state.get('ct0'):
        loops.oblige('convergence: the appended column is stored in a type that holds the scores exactly (no cast to a narrower type)', 'invariant-step', z3.BoolVal(bool(_rnp.can_cast(a.scores.dtype, ct.dtype, 'safe'))), dict(text='scores %s -> convergence_traces %s' % (a.scores.dtype, ct.dtype)))
    oldcol = core.scalar_eq(ct.at(SInt(w), SInt(j)), SFloat(SCORE(PTS(j), w), 'float32'))
    loops.oblige('convergence: earlier columns are unchanged', 'invariant-step', z3.Implies(z3.And(j >= 0, j < m.z, w >= 0, w < 4), oldcol))
    loops.oblige('convergence: a regular point is at least `step` after the previous regular point', 'invariant-step', z3.Implies(zi(appended) == 1, zi(Pn) - f.z >= step.z))
    loops.oblige('convergence: points are strictly increasing', 'invariant-step', z3.Implies(z3.And(zi(appended) == 1, m.z > 0), zi(Pn) > PTS(m.z - 1)))
    # the ghost point of a newly appended column is the current count; with it the invariant must hold again
    first2 = bp[0]; last2 = bp[-1]; ln2 = L.shim_len(bp)
    ext = z3.Implies(zi(appended) == 1, PTS(m.z) == zi(Pn))
    loops.oblige('convergence: bookkeeping invariant is preserved by one batch', 'invariant-step', z3.Implies(ext, z3.And(zi(last2) == zi(Pn), conv_invariant(m2, first2, ln2, Pn, step, kpos=True))),
                 dict(text='first == point of the last regular column, last == P, |list| == 1 right after an append'))
def conv_post(a, G, state, total, step):
    ct = a.convergence_traces
    if ct is None:
        loops.oblige('convergence: traces exist after a run', 'post', z3.BoolVal(False)); return
    mfin = ct.shape[-1]; w = z3.Int('w!fin'); m = state.get('m')
    appended = (zi(mfin) - m.z) if m is not None else z3.IntVal(0)
    ext = z3.Implies(appended == 1, PTS(m.z) == zi(total)) if m is not None else z3.BoolVal(True)
    loops.oblige('convergence: there is at least one column after a run with traces', 'post', zi(mfin) >= 1)
    if ct is not state.get('ct0'):
        loops.oblige('convergence: the final column is stored in a type that holds the scores exactly (no cast to a narrower type)', 'post', z3.BoolVal(bool(_rnp.can_cast(a.scores.dtype, ct.dtype, 'safe'))), dict(text='scores %s -> convergence_traces %s' % (a.scores.dtype, ct.dtype)))
    loops.oblige('convergence: the last column equals the final scores', 'post', z3.Implies(z3.And(ext, w >= 0, w < 4, zi(mfin) >= 1), core.scalar_eq(ct.at(SInt(w), mfin - 1), a.scores.at(SInt(w)))))
    loops.oblige('convergence: the last point is the total number of traces', 'post', z3.Implies(ext, PTS(zi(mfin) - 1) == zi(total)))
    if m is not None:
        loops.oblige('convergence: the final remainder column comes strictly after the previous point', 'post', z3.Implies(z3.And(appended == 1, m.z > 0), zi(total) > PTS(m.z - 1)))
        loops.oblige('convergence: final results/scores are those of all traces (same as without convergence)', 'post', zi(a.results.ghostP) == zi(total))
        bp = a._batches_processed
        loops.oblige('convergence: bookkeeping invariant holds after run() (next run continues the stream)', 'post', z3.Implies(ext, conv_invariant(mfin, bp[0], L.shim_len(bp), total, step)))
        core.assume(ext)          # ghost update: the point of the column appended by _final_compute

def conv_batch_size(u, rep, timeout):
    fn = AMOD + '::BaseAttack._compute_batch_size'
    def body():
        G = Ghost(); step = core.sym_int('step', 1); base = core.sym_int('base', 1)
        core.assume(step.z <= 1 << 40); core.assume(base.z <= 1 << 40)
        a = make_analysis(u, u.analysis.CPAAttack, G, None, conv_step=step)
        return step, base, a._compute_batch_size(base)
    for p, outc, exc in core.explore(body):
        if exc is not None:
            rep.obligation('post[convergence batch size]', fn, 'post', dict(result='unknown', backend='exec', secs=0, note=repr(exc))); continue
        step, base, out = outc
        goal = z3.And(zi(out) >= 1, zi(out) <= step.z, zi(out) <= z3.If(base.z >= step.z, step.z, base.z * 2))
        res = solve.discharge(p.pc, goal, timeout_ms=timeout)
        rep.obligation('post[convergence batch size: 1 <= result <= step]', fn, 'post', res, sample='base >= step -> step ; else int(step / (step // base))')
        if res['result'] == 'sat':
            m = res['model']; case = dict(kind='conv_bs', step=solve.mval(m, step.z), base=solve.mval(m, base.z))
            rep.violation('post[convergence batch size: 1 <= result <= step]', fn, 'step=%s base=%s' % (case['step'], case['base']), case, str(m)[:300], *native('C08', case))

def run_property(prop, tier, seed):
    rep = R.Report(prop, tier, seed); timeout = solve.TIMEOUT_MS[tier]
    R.prefetch_native('props.c02_native', ['bounded', prop, str(seed), tier])      # the stand-in runs while the obligations are discharged
    u = Under()
    if prop == 'C02':
        for k in ('set_batch_size', '_floor_to_most_significant_digit', 'Container.__init__', 'Container.trace_size', 'Container._set_preprocesses', 'Container._set_ths', 'Container._set_frame', 'Container._compute_batch_size',
                  'Container.batch_size', 'Container.batches', '_TracesBatchWrapper.__init__', '_TracesBatchWrapper.samples', '_TracesBatchWrapper.metadatas', '_TracesBatchWrapper.__len__',
                  '_TracesBatchIterable.__init__', '_TracesBatchIterable.__iter__', '_TracesBatchIterable.__getitem__', '_TracesBatchIterable.__len__'):
            rep.function(CMOD + '::' + k, u.ld.fn_hash.get(CMOD + '::' + k))
    for k in ('_BaseAnalysis.__init__', '_BaseAnalysis._compute_batch_size', '_BaseAnalysis._final_compute', '_BaseAnalysis.run', '_BaseAnalysis._batch_loop_compute', '_BaseAnalysis.compute_intermediate_values',
              '_BaseAnalysis.process', '_BaseAnalysis.compute_results', 'BaseAttack.__init__', 'BaseAttack._set_convergence', 'BaseAttack._compute_batch_size', 'BaseAttack._final_compute', 'BaseAttack._batch_loop_compute',
              'BaseAttack._compute_convergence_traces', 'BaseAttack.compute_results'):
        rep.function(AMOD + '::' + k, u.ld.fn_hash.get(AMOD + '::' + k))
    units = []
    if prop == 'C02':
        units.append(('slices',))
        for fr, lab in ((slice(2, 8), 'slice(2,8)'), ([5, 1, 9, 1], 'list [5,1,9,1]'), (Ellipsis, 'Ellipsis'), ([2, 4, 3, 5], 'list [2,4,3,5]')):
            for npp in (0, 1, 2): units.append(('wrapper', fr, lab, npp))
        for fr, lab in ((range(2, 8), 'range(2,8)'), (range(5, -1, -1), 'range(5,-1,-1)'), (range(9, 0, -3), 'range(9,0,-3)'), (slice(7, None, -2), 'slice(7,None,-2)')): units.append(('wrapper', fr, lab, 1))
        units.append(('bsize',))
        for kn in ('CPAAttack', 'CPAReverse'):
            for gen in (False, True): units.append(('run', kn, False, gen))
        units.append(('run', 'CPAAttack', True, True))      # with a convergence step as well: results must still be those of all traces (the convergence bookkeeping itself is C08)
    else:
        units.append(('convbs',))
        for gen in (False, True): units.append(('run', 'CPAAttack', True, gen))
    def work(sub, kind, *args):
        if kind == 'slices': slices_contract(u, sub, timeout)
        elif kind == 'wrapper': wrapper_contract(u, sub, args[0], args[1], args[2], timeout)
        elif kind == 'bsize': batch_size_contract(u, sub, timeout)
        elif kind == 'convbs': conv_batch_size(u, sub, timeout)
        elif kind == 'run': run_loop(u, sub, args[0], args[1], 1, timeout, generic_start=args[2])
    from pyvc import parallel as P
    P.run_units(rep, work, sorted(units, key=lambda x: x[0] != 'run'))
    n = 1 if tier == 'quick' else 4
    rc, o, so, se = R.run_native('props.c02_native', ['bounded', prop, str(seed), tier], timeout=2400)
    if o is None: rep.errors.append('native stand-in failed: %s %s' % (so[-400:], se[-900:]))
    else:
        rep.bounded.append(dict(function=o['function'], bound=o['bound'], evaluations=o['evaluations'], distinct=o['evaluations'], exhaustive=o.get('exhaustive', False), failures=o['failures']))
        for f in o['failing'][:3]: rep.violation('bounded[native,%s]' % f.get('kind'), f.get('function', AMOD), f.get('detail', 'real run differs from the one-shot statistic'), f, None, True, f)
    rep.assume('A4', 'A6', 'T-pyvc')
    rep.trust('estraces: len, ths[slice] = sub-sequence in order, samples/metadatas row-aligned (pyvc/estub.py)', 'DistinguisherMixin.update / compute replaced by their contracts (additivity and statistic-of-the-stream: properties C01, C03, C04, C16)',
              'user callables (preprocess, selection function, model, discriminant) are row-wise / deterministic (uninterpreted functions)')
    rep.not_decided.append('Container._compute_batch_size in MB-float mode and _floor_to_most_significant_digit use math.log10: exercised only by the native stand-in (bounded)')
    return rep.finish('./check %s --tier %s' % (prop, tier))

def main(prop='C02'):
    ap = argparse.ArgumentParser(); ap.add_argument('--tier', default=os.environ.get('VERIF_TIER', 'quick')); ap.add_argument('--replay')
    a = ap.parse_args(); seed = int(os.environ.get('VERIF_SEED', '0'))
    if a.replay:
        rp, o = native(prop, json.load(open(a.replay))['case']); print(o); sys.exit(1 if rp else 0)
    sys.exit(run_property(prop, a.tier, seed))

if __name__ == '__main__':
    main('C02')
