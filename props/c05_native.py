"""C05 native side (runs under /venv/bin/python with PYTHONPATH=/repo): replay of counterexamples on the real
code and the bounded stand-in (real scared vs the concrete FIPS-197 spec)."""
import sys, json, random
import numpy as np
from specs import fips197 as F

def _aes():
    from scared.aes import base
    return base

PRIM = dict(sub_bytes=F.sub_bytes, inv_sub_bytes=F.inv_sub_bytes, shift_rows=F.shift_rows, inv_shift_rows=F.inv_shift_rows,
            mix_columns=F.mix_columns, inv_mix_columns=F.inv_mix_columns, mix_column=F.mix_column, inv_mix_column=F.inv_mix_column)

def cipher_case(aes, mode, state, key, at_round, after_step, dtype):
    """returns (mismatch?, detail) comparing the real function with the spec on every (block, key) pair"""
    s = np.array(state, dtype=dtype); k = np.array(key, dtype=dtype)
    s0, k0 = s.copy(), k.copy()
    kw = {} if at_round is None else dict(at_round=at_round)
    out = getattr(aes, mode)(s, k, after_step=after_step, **kw)
    if not (np.array_equal(s, s0) and np.array_equal(k, k0)): return True, 'caller array modified'
    S = s.reshape(-1, 16); K = k.reshape(-1, k.shape[-1]); n = max(len(S), len(K))
    exp = [F.cipher([int(v) for v in S[i % len(S)]], F.round_keys([int(v) for v in K[i % len(K)]]), mode, at_round, after_step) for i in range(n)]
    exp = np.array(exp, dtype='uint8').squeeze()
    if out.shape != exp.shape: return True, 'shape %s expected %s' % (out.shape, exp.shape)
    if not np.array_equal(out, exp): return True, 'got %s expected %s' % (out.tolist(), exp.tolist())
    return False, 'agrees'

def replay(case):
    aes = _aes(); kind = case['kind']
    if kind == 'table':
        t = getattr(aes, case['table']); idx = case['index']
        got = t[idx].tolist() if idx != 'len' else len(t)
        return dict(reproduced=got != case['expected'], got=got, expected=case['expected'])
    if kind == 'prim_history':
        # keep results, call again on other states of the same shape, compare the kept results with the spec afterwards
        import random as _r
        rnd = _r.Random(11); f = getattr(aes, case['fn']); w = 4 if case['fn'] in ('mix_column', 'inv_mix_column') else 16
        xs = [np.array([[rnd.randrange(256) for _ in range(w)] for _ in range(3)], dtype='uint8') for _ in range(4)]
        kept = [f(x) for x in xs]; fresh = [np.array([PRIM[case['fn']]([int(v) for v in row]) for row in x], dtype='uint8') for x in xs]
        for k, (a, b) in enumerate(zip(kept, fresh)):
            if not np.array_equal(a, b): return dict(reproduced=True, detail='result %d of %s changed after later calls' % (k, case['fn']))
        return dict(reproduced=False)
    if kind in ('prim', 'frame'):
        s = np.array(case['state'], dtype=case['dtype']); s0 = s.copy()
        out = getattr(aes, case['fn'])(s)
        if kind == 'frame': return dict(reproduced=not np.array_equal(s, s0))
        exp = np.array([PRIM[case['fn']](list(map(int, r))) for r in s0.reshape(-1, s0.shape[-1])], dtype='uint8').reshape(s0.shape)
        if (out.shape != exp.shape) or not np.array_equal(out, exp): return dict(reproduced=True, got=out.tolist(), expected=exp.tolist())
        # the refuted obligation is about a generic row of a batch of N states: replay the row inside batches as well
        rnd = random.Random(3); row = s0.reshape(-1, s0.shape[-1])[0]
        for n in (2, 3, 5):
            batch = np.array([[rnd.randrange(256) for _ in range(s0.shape[-1])] for _ in range(n)], dtype=case['dtype']); batch[rnd.randrange(n)] = row
            try: ob = getattr(aes, case['fn'])(batch)
            except Exception as e: return dict(reproduced=True, detail='raises %r on a batch of %d states' % (e, n))
            eb = np.array([PRIM[case['fn']](list(map(int, r))) for r in batch], dtype='uint8')
            if ob.shape != eb.shape or not np.array_equal(ob, eb): return dict(reproduced=True, state=batch.tolist(), got=ob.tolist(), expected=eb.tolist())
        return dict(reproduced=False, got=out.tolist(), expected=exp.tolist())
    if kind == 'ark':
        s = np.array(case['state'], dtype=case['dtype']); k = np.array(case['key'], dtype=case['dtype'])
        out = aes.add_round_key(s, k); return dict(reproduced=not np.array_equal(out, s ^ k), got=out.tolist())
    if kind == 'inverse':
        s = np.array(case['state'], dtype='uint8')
        out = getattr(aes, case['g'])(getattr(aes, case['f'])(s)); return dict(reproduced=not np.array_equal(out, s), got=out.tolist())
    if kind in ('cipher', 'cipher-frame'):
        # the symbolic refutation names a stop point; search inputs for that configuration
        rnd = random.Random(1); kl = case.get('kl') or (len(case['key'][0]) if case.get('key') else 16)
        sk = case.get('shape', '1-1')
        for trial in range(40):
            ns = 3 if sk[0] == 'N' else 1; nk = 3 if sk[2] == 'N' else 1
            if trial % 4 == 3: ns = 1 if sk[0] == 'N' else ns; nk = 1 if sk[2] == 'N' else nk
            st = [[rnd.randrange(256) for _ in range(16)] for _ in range(ns)]; ky = [[rnd.randrange(256) for _ in range(kl)] for _ in range(nk)]
            if sk[0] != 'N': st = st[0]
            if sk[2] != 'N': ky = ky[0]
            try:
                bad, detail = cipher_case(aes, case['mode'], st, ky, case['at_round'], case['after_step'], case['dtype'])
            except Exception as e:
                bad, detail = True, 'raises %r' % (e,)
            if bad: return dict(reproduced=True, state=st, key=ky, detail=detail)
        return dict(reproduced=False)
    if kind == 'refuse':
        try:
            getattr(aes, case['mode'])(np.zeros(16, dtype='uint8'), np.zeros(16, dtype='uint8'), at_round=case['at_round'], after_step=case['after_step'])
            return dict(reproduced=True)
        except (ValueError, TypeError): return dict(reproduced=False)
        except Exception as e: return dict(reproduced=True, detail=repr(e))
    return dict(reproduced=None, error='unknown case kind')

def bounded(n, seed):
    aes = _aes(); rnd = random.Random(seed); fails = []; ev = 0
    dts = ['uint8', 'uint16', 'int16', 'uint32', 'int32', 'int64', 'uint64']
    for t in range(n):
        mode = rnd.choice(['encrypt', 'decrypt']); kl = rnd.choice([16, 24, 32]); nr = F.NR[kl]
        sk = rnd.choice(['1-1', 'N-1', '1-N', 'N-N']); nn = rnd.choice([1, 2, 3])
        st = [[rnd.randrange(256) for _ in range(16)] for _ in range(nn if sk[0] == 'N' else 1)]
        ky = [[rnd.randrange(256) for _ in range(kl)] for _ in range(nn if sk[2] == 'N' else 1)]
        if sk[0] != 'N': st = st[0]
        if sk[2] != 'N': ky = ky[0]
        ar = rnd.choice([None] + list(range(nr + 1))); stp = rnd.randrange(4); dt = rnd.choice(dts)
        ev += 1
        try: bad, detail = cipher_case(aes, mode, st, ky, ar, stp, dt)
        except Exception as e: bad, detail = True, 'raises %r' % (e,)
        if bad: fails.append(dict(kind='cipher', mode=mode, state=st, key=ky, at_round=ar, after_step=stp, dtype=dt, shape=sk, kl=kl, detail=detail))
        # primitives on random rows
        name = rnd.choice(list(PRIM)); w = 4 if 'column' in name and not name.endswith('s') else 16
        row = [rnd.randrange(256) for _ in range(w)]; ev += 1
        r = replay(dict(kind='prim', fn=name, dtype=dt, state=[row]))
        if r['reproduced']: fails.append(dict(kind='prim', fn=name, dtype=dt, state=[row]))
    for name in PRIM:
        ev += 1
        if replay(dict(kind='prim_history', fn=name))['reproduced']: fails.append(dict(kind='prim_history', fn=name, detail='a result kept across calls changed'))
    # results of stop points kept across calls (a list of intermediate states collected first, compared afterwards)
    for mode in ('encrypt', 'decrypt'):
        st = np.array([[rnd.randrange(256) for _ in range(16)] for _ in range(2)], dtype='uint8'); ky = np.array([rnd.randrange(256) for _ in range(16)], dtype='uint8')
        f = getattr(aes, mode); kept = [(r, stp, f(st, ky, at_round=r, after_step=stp)) for r in range(11) for stp in range(4)]; ev += 1
        for r, stp, got in kept:
            exp = np.array([F.cipher([int(v) for v in row], F.round_keys([int(v) for v in ky]), mode, r, stp) for row in st], dtype='uint8')
            if not np.array_equal(got, exp):
                fails.append(dict(kind='cipher-kept', mode=mode, at_round=r, after_step=stp, detail='a stop-point state kept while later stop points were computed no longer equals the FIPS state')); break
    # _is_bytes_array refusals
    from scared._utils import _is_bytes_array
    for arr, ok in ((np.array([0, 255], dtype='int16'), True), (np.array([256], dtype='int16'), False), (np.array([-1], dtype='int64'), False), (np.array([1.0]), False)):
        ev += 1
        try: _is_bytes_array(arr); got = True
        except (ValueError, TypeError): got = False
        if got != ok: fails.append(dict(kind='is_bytes', array=arr.tolist(), dtype=str(arr.dtype)))
    return dict(evaluations=ev, failures=len(fails), failing=fails[:5])

if __name__ == '__main__':
    cmd = sys.argv[1]
    if cmd == 'replay': print(json.dumps(replay(json.loads(sys.stdin.read())), default=str))
    elif cmd == 'bounded': print(json.dumps(bounded(int(sys.argv[2]), int(sys.argv[3])), default=str))
