"""C10, DES part: key_schedule == PC-2(rot(PC-1(key))) for every round and every interrupt_after_round (proved, N symbolic);
_convert_hypothesis_bits_into_keys: proved by structural induction on the recursion (props/c10_keys.py: the recursive call replaced by
the function's own contract, generic head, tail result of symbolic length); _find_possible_keys: its 48-iteration loop (one branch per round-key
bit) by a per-iteration loop cut, exit postcondition on the list handed to the completion helper, every round; get_master_key (candidate loop with
trial encryptions): bounded stand-in (see c10_native)."""
import z3
from pyvc import core, symnp, solve, loader as L, harness as H, report as R, parallel as P
from pyvc.core import SInt, SBV
from specs import fips46 as D
from props import des_common as DC
from props.des_common import bits_of, word_of
from props.c05 import bytes_stub

MOD = 'scared.des.base'

def schedule_case(des, rep, iar, batch, dtype, timeout):
    def body():
        if batch: N = core.sym_int('N', 1); key = H.sym_bytes('K', (N, 8), dtype)
        else: key = H.sym_bytes('K', (8,), dtype)
        L.set_task(stubs={'scared._utils::_is_bytes_array': bytes_stub})
        kw = {} if iar is None else dict(interrupt_after_round=iar)
        return key, des.fn('key_schedule')(key, **kw)
    nr = 16 if iar is None else iar + 1
    oname = 'post[des.key_schedule,iar%s,%s,%s]' % (iar, 'N' if batch else '1', dtype)
    case0 = dict(kind='des_schedule', iar=iar, batch=batch, dtype=dtype)
    for p, outc, exc in core.explore(body):
        if exc is not None:
            rep.obligation(oname, MOD + '::key_schedule', 'post', dict(result='sat', backend='exec', secs=0), sample=repr(exc))
            rp_, o = R.replay_native('props.c10_native', case0)
            rep.violation(oname, MOD + '::key_schedule', 'raises %r' % (exc,), case0, None, rp_, o); continue
        key, out = outc
        if batch: idx, cons = H.generic_index(key.shape[:1]); r = idx[0]
        else: r, cons = None, []
        kb = sum([bits_of(key.at(r, j) if batch else key.at(j), 8) for j in range(8)], [])
        rks = D.key_schedule_bits(kb)[:nr]
        exp = [word_of(rk[6 * w:6 * w + 6]) for rk in rks for w in range(8)]
        ok_shape = out.ndim == (3 if batch else 2) and out.shape[-1] == 8 and out.shape[-2] == nr
        if ok_shape:
            got = [word_of(bits_of(out.at(r, rr, w) if batch else out.at(rr, w), 8)) for rr in range(nr) for w in range(8)]
            res = dict(result='unsat', backend='structural', secs=0) if H.structurally_equal(got, exp) else solve.discharge(p.pc + cons, H.eq_all(got, exp), timeout_ms=timeout)
        else: res = dict(result='sat', backend='exec', secs=0, model=None)
        rep.obligation(oname, MOD + '::key_schedule', 'post', res, sample='key_schedule(key)[round][word] == six bits of PC-2(rot_round(PC-1(key)))')
        if res['result'] == 'sat':
            m = res.get('model'); kv = [solve.mval(m, H._term(key.at(r, j) if batch else key.at(j))) & 0xff for j in range(8)] if m is not None else [1] * 8
            case = dict(case0, key=kv); rp_, o = R.replay_native('props.c10_native', case)
            rep.violation(oname, MOD + '::key_schedule', 'round keys differ from PC-2(rot(PC-1(key)))', case, str(m)[:1000], rp_, o)
        if not H.untouched(key):
            rep.obligation('frame[des.key_schedule]', MOD + '::key_schedule', 'frame', dict(result='sat', backend='frame-scan', secs=0))
            rep.violation('frame[des.key_schedule]', MOD + '::key_schedule', 'caller key modified', case0, None, None)

def run(rep, tier, seed, timeout):
    des = DC.DesUnderProof()
    for n in ('key_schedule', 'get_master_key', '_find_possible_keys', '_convert_hypothesis_bits_into_keys'): rep.function(MOD + '::' + n, des.sha(n))
    for name in ('PC1', 'PC2', 'ROUND_KEY_BITS_INDEXES'):
        ok = des.table_ok[name]
        rep.obligation('table[des.%s]' % name, MOD + '::' + name, 'table', dict(result='unsat' if ok else 'sat', backend='table-eval', secs=0))
        if not ok:
            d = des.table_diffs[name][0]; case = dict(kind='table', table=name, index=list(d[0]) if isinstance(d[0], tuple) else d[0], got=d[1], expected=d[2])
            rp_, o = R.replay_native('props.c06_native', case)
            rep.violation('table[des.%s]' % name, MOD + '::' + name, 'entry %s is %s, the standard gives %s' % d, case, 'table evaluation', rp_, o)
    # ROUND_KEY_MISSING_BITS_INDEXES is documentation of the dropped bits; compare as a table too (sets per round)
    try:
        lit = des.ld.module_literal(MOD, 'ROUND_KEY_MISSING_BITS_INDEXES'); spec = DC.missing_spec()
        ok = all(sorted(lit[r]) == spec[r] for r in range(16))
        if ok: rep.obligation('table[des.ROUND_KEY_MISSING_BITS_INDEXES]', MOD + '::ROUND_KEY_MISSING_BITS_INDEXES', 'table', dict(result='unsat', backend='table-eval', secs=0))
        else: rep.notes.append('ROUND_KEY_MISSING_BITS_INDEXES (documentation table, unused by the code) does not list the dropped bit positions in the 0-based convention assumed here')
    except Exception: pass
    units = []
    for iar in [None] + list(range(16)):
        for batch in (False, True):
            units.append((iar, batch, 'uint8'))
    units.append((None, True, 'int64'))
    def work(sub, iar, batch, dt): schedule_case(des, sub, iar, batch, dt, timeout)
    P.run_units(rep, work, units)
    # key completion: _convert_hypothesis_bits_into_keys by structural induction (props/c10_keys.py)
    from props import c10_keys as CK
    ku = CK.units(tier); kgroups = [tuple(ku[i:i + 8]) for i in range(0, len(ku), 8)]
    def kwork(sub, *group):
        for kind, n in group: CK.work(des, sub, kind, n, timeout)
    P.run_units(rep, kwork, kgroups)
    # _find_possible_keys: per-iteration loop cut + exit postcondition, every round (props/c10_keys.py)
    def fwork(sub, r): CK.find_possible_keys_case(des, sub, r, timeout)
    P.run_units(rep, fwork, [(r,) for r in range(16)])
    for kw in (dict(interrupt_after_round=16), dict(interrupt_after_round=-1)):
        def body():
            key = H.sym_bytes('K', (8,), 'uint8'); L.set_task(stubs={'scared._utils::_is_bytes_array': bytes_stub})
            return des.fn('key_schedule')(key, **kw)
        for p, outc, exc in core.explore(body):
            ok = isinstance(exc, (ValueError, TypeError))
            rep.obligation('raises[des.key_schedule,%s]' % kw, MOD + '::key_schedule', 'raises', dict(result='unsat' if ok else 'sat', backend='exec', secs=0), sample=repr(exc))
            if not ok: rep.violation('raises[des.key_schedule,%s]' % kw, MOD + '::key_schedule', 'out-of-range round accepted', dict(kind='refuse', kw=kw), None, None)
