"""C18 -- preprocesses compute their definition row by row without integer wrap-around.

Contracts over scared/preprocesses/_base.py, first_order.py, high_order/_base.py, high_order/standard.py (real source), N rows SYMBOLIC:
  pair enumeration   Product / Difference / AbsoluteDifference / CenteredProduct in the four modes: output column c of row r ==
                     op(x[r, f1[i]], x[r, f2[j]]) for the c-th pair in the documented order -- one frame: all i <= j row-major; distance d:
                     j - i <= d cut at the frame end; two frames: every (i, j); mode 'same': point to point -- frame lengths case-split 1..5
  row locality       the expected value of out[r, :] mentions only row r of the input (generic-row obligation), except center / standardize /
                     CenterOn(mean=None) whose dependence is exactly the batch mean / standard deviation (sums over the symbolic N rows)
  no wrap-around     on the whole dtype grid (u/int8..64, float32, float64): the result equals the MATHEMATICAL operation on the integer
                     values (machine integers are bit-vectors in the model: arithmetic left in an integer dtype is refuted with a concrete
                     value) and the result dtype is a float type of at least 32 bits
  first order        square, ToPower, CenterOn, StandardizeOn, center, standardize, serialize_bit; preprocess decorator refusals
Time-frequency preprocesses (FFT) are outside the fragment: frames only, sampled natively."""
import sys, os, argparse, json, itertools
sys.path.insert(0, os.path.dirname(os.path.dirname(os.path.abspath(__file__))))
import z3
import numpy as _rnp
from pyvc import core, symnp, solve, loader as L, harness as H, report as R, parallel as P, sums
from pyvc.core import SInt, SBV, SFloat, zi
from props import dist_common as DCm

FO = 'scared.preprocesses.first_order'; HB = 'scared.preprocesses.high_order._base'; HS = 'scared.preprocesses.high_order.standard'; PB = 'scared.preprocesses._base'
def native(case): return R.replay_native('props.c18_native', case)
INTS = ['uint8', 'int8', 'uint16', 'int16', 'uint32', 'int32', 'uint64', 'int64']
def rv(x): return core.to_float(x).v
def fin(x):
    f = core.to_float(x).finite(); return z3.BoolVal(f) if isinstance(f, bool) else core.zb(f)
def inp(name, N, W, dtype): return H.sym_reals(name, (N, W), dtype) if _rnp.dtype(dtype).kind == 'f' else H.sym_ints(name, (N, W), dtype)

class Under:
    def __init__(self):
        sums.install(); self.ld = L.Loader()
        self.fo = self.ld.load(FO); self.hb = self.ld.load(HB); self.hs = self.ld.load(HS); self.pb = self.ld.load(PB)

def pairs_expected(mode, L1, L2, d):
    if mode == 'one': return [(i, j) for i in range(L1) for j in range(i, L1)]
    if mode == 'distance': return [(i, j) for i in range(L1) for j in range(i, min(i + d + 1, L1))]
    if mode == 'two': return [(i, j) for i in range(L1) for j in range(L2)]
    if mode == 'same': return [(i, i) for i in range(L1)]

def combination(u, rep, opname, mode, f1, f2, d, dtype, timeout, W=8, warm=None):
    cls = getattr(u.hs, opname)
    fn = HB + '::' + {'one': '_CombinationOfTwoFrames.__call__', 'two': '_CombinationOfTwoFrames.__call__', 'distance': '_CombinationFrameOnDistance.__call__', 'same': '_CombinationPointToPoint.__call__'}[mode]
    def cols(fr):
        if fr is Ellipsis or fr is None: return list(range(W))
        if isinstance(fr, slice): return list(range(W))[fr]
        if isinstance(fr, int): return [fr]
        return list(fr)
    c1 = cols(f1); c2 = cols(f2) if mode in ('two', 'same') else c1
    def body():
        N = core.sym_int('N', 1); X = inp('X', N, W, dtype)
        kw = dict(frame_1=f1)
        if mode in ('two', 'same'): kw['frame_2'] = f2
        if mode == 'same': kw['mode'] = 'same'
        if mode == 'distance': kw['distance'] = d
        mean = None
        if opname == 'CenteredProduct':
            mean = H.sym_reals('MU', (W,), 'float64'); kw['mean'] = mean
        pre = symnp.ndarray.fresh(X.shape, X.snapshot(), X.dtype)
        obj = cls(**kw)
        if warm is not None:      # history: the same object has already processed a matrix of another width (another container / frame)
            obj(inp('X0', core.sym_int('N0', 1), warm, dtype))
        return N, X, pre, mean, obj(X)
    tag = '%s,%s,f1=%s,f2=%s,d=%s,%s%s' % (opname, mode, f1, f2, d, dtype, '' if warm is None else ', after a call on %d samples' % warm)
    case = dict(kind='comb', op=opname, mode=mode, f1=str(f1), f2=str(f2), d=d, dtype=dtype, warm=warm)
    for p, outc, exc in core.explore(body):
        if exc is not None:
            rep.obligation('post[%s]' % tag, fn, 'post', dict(result='sat', backend='exec', secs=0), sample=repr(exc)); rep.violation('post[%s]' % tag, fn, 'raises %r' % (exc,), case, None, *native(case)); continue
        N, X, pre, mean, out = outc
        exp_pairs = pairs_expected(mode, len(c1), len(c2), d)
        ok_meta = isinstance(out, symnp.ndarray) and out.ndim == 2 and H.structurally_equal([out.shape[0]], [N]) and out.shape[1] == len(exp_pairs) and out.dtype.kind == 'f' and out.dtype.itemsize >= 4
        frame_ok = H.untouched(X)
        if not ok_meta:
            rep.obligation('post[%s: shape (rows, %d pairs), float dtype >= 32 bits]' % (tag, len(exp_pairs)), fn, 'post', dict(result='sat', backend='exec', secs=0), sample='%s %s' % (getattr(out, 'shape', None), getattr(out, 'dtype', None)))
            rep.violation('post[%s: shape (rows, %d pairs), float dtype >= 32 bits]' % (tag, len(exp_pairs)), fn, 'result shape %s dtype %s' % (getattr(out, 'shape', None), getattr(out, 'dtype', None)), case, None, *native(case)); continue
        r = z3.Int('r!'); cons = [r >= 0, r < N.z]; goals = []
        for c, (i, j) in enumerate(exp_pairs):
            a = rv(pre.at(SInt(r), c1[i])); b = rv(pre.at(SInt(r), c2[j]))
            if opname == 'CenteredProduct': a = a - rv(mean.at(c1[i])); b = b - rv(mean.at(c2[j]))
            e = {'Product': a * b, 'CenteredProduct': a * b, 'Difference': a - b, 'AbsoluteDifference': z3.If(a - b >= 0, a - b, b - a)}[opname]
            goals.append(z3.And(fin(out.at(SInt(r), c)), rv(out.at(SInt(r), c)) == e))
        res = solve.discharge(p.pc + cons, z3.And(*goals), timeout_ms=timeout)
        nm = 'post[%s: column c of every row == op on the c-th documented pair, computed without wrap-around]' % tag
        rep.obligation(nm, fn, 'post', res, sample='%d pairs %s...; value == mathematical result on the integer/real sample values; only row r enters' % (len(exp_pairs), exp_pairs[:4]))
        if res['result'] == 'sat':
            m = res['model']; row = [str(solve.mval(m, H._term(pre.at(SInt(r), cc)))) for cc in range(W)]
            c2_ = dict(case, row=row); rep.violation(nm, fn, 'row %s gives a different value than the documented pair operation' % row, c2_, str(m)[:400], *native(c2_))
        if not frame_ok:
            rep.obligation('frame[%s: input traces not written]' % tag, fn, 'frame', dict(result='sat', backend='frame-scan', secs=0)); rep.violation('frame[%s: input traces not written]' % tag, fn, 'the caller\'s traces are modified', case, None, *native(case))

def first_order(u, rep, name, dtype, timeout, W=3):
    fn = FO + '::' + name
    def body():
        N = core.sym_int('N', 1); X = inp('X', N, W, dtype); pre = symnp.ndarray.fresh(X.shape, X.snapshot(), X.dtype)
        mean = H.sym_reals('MU', (W,), 'float64'); std = H.sym_reals('SD', (W,), 'float64')
        if name == 'square': out = u.fo.square(X)
        elif name == 'ToPower3': out = u.fo.ToPower(3)(X)
        elif name == 'ToPower2': out = u.fo.ToPower(2)(X)
        elif name == 'CenterOn': out = u.fo.CenterOn(mean=mean)(X)
        elif name == 'CenterOnNone': out = u.fo.CenterOn()(X)
        elif name == 'CenterOnInt': out = u.fo.CenterOn(mean=128)(X)                      # a Python integer (e.g. the ADC mid-scale code)
        elif name == 'CenterOnIntArr':
            mean = H.sym_ints('MI', (W,), dtype if _rnp.dtype(dtype).kind != 'f' else 'int16'); out = u.fo.CenterOn(mean=mean)(X)      # an integer array of the traces' dtype
        elif name == 'StandardizeOn': out = u.fo.StandardizeOn(mean=mean, std=std)(X)
        elif name == 'center': out = u.fo.center(X)
        elif name == 'standardize': core.SQRT_ARGS.clear(); out = u.fo.standardize(X)
        elif name == 'serialize_bit': out = u.fo.serialize_bit(X)
        return N, X, pre, mean, std, out
    case = dict(kind='first', name=name, dtype=dtype); tag = '%s,%s' % (name, dtype)
    for p, outc, exc in core.explore(body):
        if exc is not None:
            rep.obligation('post[%s]' % tag, fn, 'post', dict(result='sat', backend='exec', secs=0), sample=repr(exc)); rep.violation('post[%s]' % tag, fn, 'raises %r' % (exc,), case, None, *native(case)); continue
        N, X, pre, mean, std, out = outc
        r = z3.Int('r!'); cons = [r >= 0, r < N.z]; goals = []
        if name == 'serialize_bit':
            ok_meta = out.ndim == 2 and out.shape[1] == 8 * W
            for c in range(W):
                xb = core.cast(pre.at(SInt(r), c), 'uint8').z if _rnp.dtype(dtype).kind != 'f' else None
                if xb is None: continue
                for k in range(8): goals.append(core.zi(out.at(SInt(r), 8 * c + k)) == z3.BV2Int(z3.Extract(7 - k, 7 - k, xb)))
        else:
            ok_meta = out.ndim == 2 and out.shape[1] == W and out.dtype.kind == 'f' and out.dtype.itemsize >= 4
            colmean = lambda c: DCm.batch_sum(lambda i: SFloat(rv(pre.at(i, c))), N) / z3.ToReal(N.z)
            for c in range(W):
                x = rv(pre.at(SInt(r), c))
                if name == 'square' or name == 'ToPower2': e = x * x
                elif name == 'ToPower3': e = x * x * x
                elif name in ('CenterOn', 'CenterOnIntArr'): e = x - rv(mean.at(c))
                elif name == 'CenterOnInt': e = x - 128
                elif name == 'StandardizeOn': e = None
                elif name in ('center', 'CenterOnNone'): e = x - colmean(c)
                elif name == 'standardize': e = None
                o = out.at(SInt(r), c)
                if e is not None: goals.append(z3.And(fin(o), rv(o) == e))
                elif name == 'StandardizeOn': goals.append(z3.Implies(rv(std.at(c)) != 0, z3.And(fin(o), rv(o) * rv(std.at(c)) == x - rv(mean.at(c)))))
                else:      # standardize: out * std == x - mean with std^2 == mean of squared deviations, std >= 0
                    mu = colmean(c); var = DCm.batch_sum(lambda i: SFloat((rv(pre.at(i, c)) - mu) * (rv(pre.at(i, c)) - mu)), N) / z3.ToReal(N.z)
                    sd = z3.Real('sd!%d' % c)
                    goals.append(z3.Implies(z3.And(sd >= 0, sd * sd == var, var > 0), z3.And(fin(o), rv(o) * sd == x - mu)))
        if not ok_meta:
            rep.obligation('post[%s: shape / float dtype]' % tag, fn, 'post', dict(result='sat', backend='exec', secs=0), sample='%s %s' % (out.shape, out.dtype)); rep.violation('post[%s: shape / float dtype]' % tag, fn, 'result shape %s dtype %s' % (out.shape, out.dtype), case, None, *native(case)); continue
        res = solve.discharge(p.pc + cons, z3.And(*goals) if goals else z3.BoolVal(True), extra=core.sqrt_axioms(pairs=False), timeout_ms=timeout, nra=(name in ('standardize', 'StandardizeOn')))
        nm = 'post[%s: every row equals the formula on that row%s, no wrap-around]' % (tag, ' and the batch mean/std' if name in ('center', 'standardize', 'CenterOnNone') else '')
        rep.obligation(nm, fn, 'post', res)
        if res['result'] == 'sat':
            m = res['model']; row = [str(solve.mval(m, H._term(pre.at(SInt(r), cc)))) for cc in range(W)]
            c2_ = dict(case, row=row); rep.violation(nm, fn, 'row %s gives a different value than the formula' % row, c2_, str(m)[:400], *native(c2_))

def refusals(u, rep):
    fn = PB + '::preprocess'
    for name, f, et in (('non-array refused', lambda: u.fo.square([[1, 2]]), TypeError), ('1-D array refused', lambda: u.fo.square(H.sym_reals('X', (3,), 'float32')), ValueError),
                        ('distance with two frames refused', lambda: u.hs.Product(frame_1=slice(0, 2), frame_2=slice(0, 2), distance=1), Exception), ('same mode without frame_2 refused', lambda: u.hs.Product(frame_1=slice(0, 2), mode='same'), Exception),
                        ('unknown mode refused', lambda: u.hs.Product(mode='foo'), Exception), ('distance 0 refused', lambda: u.hs.Product(frame_1=slice(0, 3), distance=0), ValueError)):
        for p, outc, exc in core.explore(f):
            ok = isinstance(exc, et) and exc is not None
            rep.obligation('raises[%s]' % name, fn, 'raises', dict(result='unsat' if ok else 'sat', backend='exec', secs=0), sample=repr(exc))
            if not ok: rep.violation('raises[%s]' % name, fn, '%s: outcome %r' % (name, exc), dict(kind='refuse', name=name), None, None)

def main():
    ap = argparse.ArgumentParser(); ap.add_argument('--tier', default=os.environ.get('VERIF_TIER', 'quick')); ap.add_argument('--replay')
    a = ap.parse_args(); seed = int(os.environ.get('VERIF_SEED', '0'))
    if a.replay:
        rp, o = native(json.load(open(a.replay))['case']); print(o); sys.exit(1 if rp else 0)
    rep = R.Report('C18', a.tier, seed); timeout = solve.TIMEOUT_MS[a.tier]
    R.prefetch_native('props.c18_native', ['bounded', str(seed), a.tier])      # the stand-in runs while the obligations are discharged
    u = Under()
    for m, names in ((PB, ['preprocess', 'preprocess._', '_MetaPreprocess.__new__']), (FO, ['_center', 'square', 'serialize_bit', 'center', 'standardize', 'StandardizeOn.__call__', 'CenterOn.__call__', 'ToPower.__call__']),
                     (HB, ['_BaseCombination._set_frame', '_BaseCombination._set_frames', '_CombinationPointToPoint.__call__', '_CombinationPointToPoint._set_frames', '_CombinationOfTwoFrames.__call__', '_CombinationOfTwoFrames._set_frames',
                           '_CombinationFrameOnDistance.__call__', '_CombinationFrameOnDistance._execute', '_CombinationFrameOnDistance._set_frames', '_combination']), (HS, ['_product', '_difference', '_centered', '_absolute'])):
        for n in names: rep.function(m + '::' + n, u.ld.fn_hash.get(m + '::' + n))
    units = []
    grid = ['uint8', 'int8', 'int16', 'int32', 'uint32', 'int64', 'uint64', 'float32', 'float64'] if a.tier == 'quick' else INTS + ['float32', 'float64']
    for dt in grid:
        units += [('comb', 'Product', 'one', slice(1, 4), None, None, dt), ('comb', 'Difference', 'same', [0, 2, 5], [7, 1, 2], None, dt), ('comb', 'Product', 'two', slice(0, 2), [6, 3, 3], None, dt), ('comb', 'AbsoluteDifference', 'distance', slice(0, 5), None, 2, dt)]
        for nm in ('square', 'ToPower3', 'CenterOn', 'center') + (('CenterOnInt', 'CenterOnIntArr') if dt in ('uint8', 'int8', 'int16', 'int64', 'float32') else ()): units.append(('first', nm, dt))
    for Lf in ((1, 2, 3, 4, 5) if a.tier == 'quick' else range(1, 9)):
        units.append(('comb', 'Product', 'one', slice(0, Lf), None, None, 'int16'))
        for d in (1, 2, Lf, Lf + 1, Lf + 3): units.append(('comb', 'Difference', 'distance', slice(0, Lf), None, d, 'float32'))
        units.append(('comb', 'CenteredProduct', 'two', slice(0, Lf), slice(8 - Lf, 8), None, 'uint8'))
    units += [('comb', 'Difference', 'two', slice(1, 4), slice(1, 4), None, 'float32'), ('comb', 'Product', 'two', [2, 5], [2, 5], None, 'int16'), ('comb', 'AbsoluteDifference', 'two', slice(0, 3), [0, 1, 2], None, 'uint8'),      # frame_2 given explicitly and equal to frame_1: still frame x frame
              ('combh', 'Difference', 'distance', Ellipsis, None, 2, 'float32', 10), ('combh', 'Product', 'distance', Ellipsis, None, 3, 'int16', 5), ('combh', 'AbsoluteDifference', 'one', Ellipsis, None, None, 'float32', 11), ('combh', 'Product', 'two', Ellipsis, Ellipsis, None, 'uint8', 6), ('combh', 'CenteredProduct', 'same', slice(0, 3), slice(4, 7), None, 'int32', 8),
              ('comb', 'Product', 'one', Ellipsis, None, None, 'float32'), ('comb', 'AbsoluteDifference', 'one', [5, 1, 1], None, None, 'int8'), ('comb', 'Product', 'one', 3, None, None, 'float64'), ('comb', 'CenteredProduct', 'same', slice(0, 3), slice(4, 7), None, 'int32'),
              ('first', 'StandardizeOn', 'float32'), ('first', 'StandardizeOn', 'int16'), ('first', 'standardize', 'float64'), ('first', 'CenterOnNone', 'uint8'), ('first', 'serialize_bit', 'uint8'), ('first', 'serialize_bit', 'int16'), ('first', 'ToPower2', 'uint16')]
    def work(sub, kind, *args):
        if kind == 'comb': combination(u, sub, *args, timeout)
        elif kind == 'combh': combination(u, sub, *args[:-1], timeout, warm=args[-1])
        elif kind == 'first': first_order(u, sub, args[0], args[1], timeout)
    groups = [tuple(units[i:i + 4]) for i in range(0, len(units), 4)]
    def wg(sub, *g):
        for x in g: work(sub, *x)
    P.run_units(rep, wg, groups)
    refusals(u, rep)
    rc, o, so, se = R.run_native('props.c18_native', ['bounded', str(seed), a.tier], timeout=2400)
    if o is None: rep.errors.append('native stand-in failed: %s %s' % (so[-400:], se[-900:]))
    else:
        rep.bounded.append(dict(function='all preprocesses under /venv/bin/python vs direct numpy formulas in float64 / Python integers', bound=o['bound'], evaluations=o['evaluations'], distinct=o['evaluations'], exhaustive=False, failures=o['failures']))
        for f in o['failing'][:3]: rep.violation('bounded[native,%s]' % f.get('kind'), f.get('function', HB), f.get('detail', 'differs'), f, None, True, f)
    rep.assume('A1', 'A4', 'A5', 'A6', 'T-pyvc')
    rep.trust('integer -> float conversion is exact in the model (A1): values above 2^24 (float32) / 2^53 (float64) round in reality', 'numpy.fft is outside the fragment')
    rep.not_decided.append('time-frequency preprocesses (Xcorr, WindowFFT, WindowFHT, MaxCorr, ConcatFFT, ConcatFHT) and fft_modulus: FFT numerics are not modelled; only sampled natively')
    rep.not_decided.append('frame lengths are case-split (1..5 quick, 1..8 thorough): the pair loops have that many iterations; the number of rows is symbolic')
    sys.exit(rep.finish('./check C18 --tier %s' % a.tier))

if __name__ == '__main__':
    main()
