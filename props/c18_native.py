"""C18 native side: preprocesses vs direct formulas."""
import sys, json, random
import numpy as np

INTS = ['uint8', 'int8', 'uint16', 'int16', 'uint32', 'int32', 'uint64', 'int64']
def rand_traces(rnd, dt, n, w):
    if np.dtype(dt).kind == 'f': return np.array([[rnd.uniform(-100, 100) for _ in range(w)] for _ in range(n)], dtype=dt)
    info = np.iinfo(dt); lo, hi = max(info.min, -2 ** 31), min(info.max, 2 ** 31 - 1)
    ext = [info.min if info.min > -2 ** 40 else -2 ** 31, min(info.max, 2 ** 31 - 1), 0, 1, 65536 if hi >= 65536 else hi, 46341 if hi >= 46341 else hi]
    return np.array([[rnd.choice(ext + [rnd.randint(lo, hi)]) for _ in range(w)] for _ in range(n)], dtype=dt)

def pairs(mode, c1, c2, d):
    if mode == 'one': return [(c1[i], c1[j]) for i in range(len(c1)) for j in range(i, len(c1))]
    if mode == 'distance': return [(c1[i], c1[j]) for i in range(len(c1)) for j in range(i, min(i + d + 1, len(c1)))]
    if mode == 'two': return [(a, b) for a in c1 for b in c2]
    return list(zip(c1, c2))

def comb_case(rnd, dt=None, fixed=None):
    import scared
    ho = scared.preprocesses.high_order
    dt = dt or rnd.choice(INTS + ['float32', 'float64']); n = rnd.choice([1, 2, 5]); W = 9
    X = rand_traces(rnd, dt, n, W)
    op = rnd.choice(['Product', 'Difference', 'AbsoluteDifference', 'CenteredProduct']); mode = rnd.choice(['one', 'distance', 'two', 'same'])
    L1 = rnd.randint(1, 5); st = rnd.randint(0, W - L1)
    f1 = rnd.choice([slice(st, st + L1), [rnd.randrange(W) for _ in range(L1)], Ellipsis]); c1 = list(range(W)) if f1 is Ellipsis else (list(range(W))[f1] if isinstance(f1, slice) else f1)
    if f1 is Ellipsis and mode == 'one': W = 5; X = X[:, :5].copy(); c1 = list(range(W))      # keep the number of pairs small
    if f1 is Ellipsis and mode == 'same': mode = 'two'
    kw = dict(frame_1=f1) if f1 is not Ellipsis else {}; c2 = c1; d = None; L1 = len(c1)
    if mode == 'distance': d = rnd.choice([1, 2, L1, L1 + 1, L1 + 3]); kw['distance'] = d
    if mode in ('two', 'same'):
        L2 = L1 if mode == 'same' else rnd.randint(1, 4); c2 = [rnd.randrange(W) for _ in range(L2)]; kw['frame_2'] = c2
        if mode == 'two' and f1 is not Ellipsis and rnd.random() < 0.3: c2 = list(c1); kw['frame_2'] = f1 if rnd.random() < 0.5 else list(c1)      # frame_2 given explicitly, equal to frame_1: still frame x frame
        if mode == 'same': kw['mode'] = 'same'
    mean = None
    if op == 'CenteredProduct': mean = np.array([rnd.uniform(-3, 3) for _ in range(W)]); kw['mean'] = mean
    X0 = X.copy(); obj = getattr(ho, op)(**kw)
    if (rnd.random() < 0.3 and not isinstance(f1, slice)) or (f1 is Ellipsis and op != 'CenteredProduct'):      # history: the same object first sees a matrix of another width
        try: obj(rand_traces(rnd, dt, 2, W + rnd.choice([-1, 3])))
        except Exception: pass
    out = obj(X)
    if not np.array_equal(X, X0): return 'input modified'
    if out.dtype.kind != 'f' or out.dtype.itemsize < 4: return '%s %s: result dtype %s is not a float of at least 32 bits (%s input)' % (op, mode, out.dtype, dt)
    pr = pairs(mode, c1, c2, d)
    if out.shape != (n, len(pr)): return '%s %s: shape %s, expected %s pairs (f1=%s f2=%s d=%s)' % (op, mode, out.shape, len(pr), c1, c2, d)
    for r in range(n):
        for c, (a, b) in enumerate(pr):
            x, y = (float(X[r, a]), float(X[r, b])) if np.dtype(dt).kind == 'f' else (int(X[r, a]), int(X[r, b]))
            if mean is not None: x, y = float(x) - mean[a], float(y) - mean[b]
            e = {'Product': x * y, 'CenteredProduct': x * y, 'Difference': x - y, 'AbsoluteDifference': abs(x - y)}[op]
            tol = 1e-6 * max(1.0, abs(float(e))) if out.dtype == np.float64 else 2e-3 * max(1.0, abs(float(e)))
            if np.dtype(dt).kind != 'f' and np.dtype(dt).itemsize >= 4 and out.dtype != np.float64: return '%s input promoted to %s only' % (dt, out.dtype)
            if not abs(float(out[r, c]) - float(e)) <= tol: return '%s %s on %s: out[%d,%d]=%r, expected %r for pair (%d,%d)' % (op, mode, dt, r, c, float(out[r, c]), float(e), a, b)
    return None

def first_case(rnd):
    import scared
    pp = scared.preprocesses
    dt = rnd.choice(INTS + ['float32', 'float64']); n = rnd.choice([1, 3, 6]); X = rand_traces(rnd, dt, n, 4); Xf = X.astype('float64')
    small = np.abs(Xf).max() < 2 ** 20
    im = 128 if np.dtype(dt).kind == 'u' else -3
    checks = [('CenterOn(int mean)', pp.CenterOn(mean=im)(X), Xf - im), ('CenterOn(int array mean)', pp.CenterOn(mean=np.full(4, im).astype(dt if np.dtype(dt).kind != 'f' else 'int16'))(X), Xf - im), ('square', pp.square(X), Xf ** 2), ('ToPower(2)', pp.ToPower(2)(X), Xf ** 2), ('center', pp.center(X), Xf - Xf.mean(0)), ('CenterOn', pp.CenterOn(mean=np.arange(4.0))(X), Xf - np.arange(4.0))]
    if small and n > 1 and (Xf.std(0) > 0).all(): checks.append(('standardize', pp.standardize(X), (Xf - Xf.mean(0)) / Xf.std(0)))
    for name, got, exp in checks:
        if got.dtype.kind != 'f': return '%s on %s returns dtype %s' % (name, dt, got.dtype)
        rt = 1e-3 if got.dtype == np.float32 else 1e-9
        if not np.allclose(got, exp, rtol=rt, atol=rt * max(1.0, np.abs(exp).max())): return '%s on %s differs (wrap-around?) got %s expected %s' % (name, dt, got.ravel()[:4].tolist(), exp.ravel()[:4].tolist())
    if np.dtype(dt).kind != 'f':
        sb = pp.serialize_bit(X); e = np.unpackbits(X.astype('uint8'), axis=1)
        if not np.array_equal(sb, e): return 'serialize_bit differs'
    return None

def replay(c):
    rnd = random.Random(23)
    try:
        for t in range(400):
            r = comb_case(rnd, dt=c.get('dtype') if t % 2 == 0 else None) if c.get('kind') != 'first' else first_case(rnd)
            if r: return dict(reproduced=True, detail=r)
        for t in range(100):
            r = first_case(rnd)
            if r and c.get('kind') == 'first': return dict(reproduced=True, detail=r)
        return dict(reproduced=False)
    except Exception as e: return dict(reproduced=True, detail='raises %r' % (e,))

def bounded(seed, tier):
    rnd = random.Random(seed); fails = []; ev = 0
    for t in range(300 if tier == 'quick' else 4000):
        ev += 1
        try: r = comb_case(rnd)
        except Exception as e: r = 'raises %r' % (e,)
        if r: fails.append(dict(kind='comb', function='scared.preprocesses.high_order._base', detail=r))
    for t in range(100 if tier == 'quick' else 1000):
        ev += 1
        try: r = first_case(rnd)
        except Exception as e: r = 'raises %r' % (e,)
        if r: fails.append(dict(kind='first', function='scared.preprocesses.first_order', detail=r))
    # time-frequency: naive O(n^2) DFT references (the FFT itself is outside the symbolic fragment) and row locality
    import scared, cmath
    tf = scared.preprocesses.high_order
    def rdft(x):
        n = len(x); return np.array([sum(x[t] * cmath.exp(-2j * cmath.pi * k * t / n) for t in range(n)) for k in range(n // 2 + 1)])
    fht = lambda x: rdft(x).real - rdft(x).imag
    for t in range(12 if tier == 'quick' else 120):
        n = rnd.choice([1, 3]); L1 = rnd.choice([2, 4, 6, 8]); mode = rnd.choice(['raw', 'centered', 'standardized'])
        if mode != 'raw': n = 3
        X = np.array([[rnd.uniform(-5, 5) for _ in range(20)] for _ in range(n)])
        f1 = slice(0, L1); f2 = slice(10, 10 + L1); L2 = rnd.choice([1, 3, 5]); g2 = slice(10, 10 + L2)
        pre = {'raw': lambda a: a, 'centered': lambda a: a - a.mean(0), 'standardized': lambda a: (a - a.mean(0)) / a.std(0)}[mode]
        A = pre(X[:, f1]); B = pre(X[:, f2]); B2 = pre(X[:, g2])
        refs = {'Xcorr': (f2, lambda a, b: np.array([sum(a[u] * b[(u + m) % len(a)] for u in range(len(a))) for m in range(len(a))]), B),
                'WindowFFT': (f2, lambda a, b: np.abs(np.conjugate(rdft(a)) * rdft(b)), B), 'WindowFHT': (f2, lambda a, b: fht(a) * fht(b), B),
                'MaxCorr': (g2, lambda a, b: (lambda F: np.hstack([F.real, F.imag, np.abs(F)]))(rdft(np.hstack([a, b]))), B2),
                'ConcatFFT': (g2, lambda a, b: np.abs(rdft(np.hstack([a, b]))) ** 2, B2), 'ConcatFHT': (g2, lambda a, b: fht(np.hstack([a, b])) ** 2, B2)}
        for cls, (fr2, ref, Bm) in refs.items():
            ev += 1
            try:
                f = getattr(tf, cls)(frame_1=f1, frame_2=fr2, mode=mode); got = f(X)
                for r in range(n):
                    e = ref(A[r], Bm[r])
                    if got[r].shape != e.shape or not np.allclose(got[r], e, rtol=1e-7, atol=1e-7):
                        fails.append(dict(kind='timefreq', function='scared.preprocesses.high_order.time_freq', detail='%s mode=%s row %d differs from the naive DFT formula: %s vs %s' % (cls, mode, r, got[r][:4].tolist(), e[:4].tolist()))); break
                if mode == 'raw' and n > 1 and not np.allclose(f(X[1:2]), got[1:2]): fails.append(dict(kind='timefreq', function='scared.preprocesses.high_order.time_freq', detail='%s: row 1 depends on other rows' % cls))
            except Exception as e: fails.append(dict(kind='timefreq', function='scared.preprocesses.high_order.time_freq', detail='%s raises %r' % (cls, e)))
    for t in range(6):
        ev += 1; wd = rnd.choice([4, 7]); X = np.array([[rnd.uniform(-5, 5) for _ in range(wd)] for _ in range(2)])
        try:
            got = scared.preprocesses.fft_modulus(X); e = np.array([np.abs(rdft(X[r]))[:(wd + 1) // 2] for r in range(2)])
            if got.shape != e.shape or not np.allclose(got, e, rtol=1e-6, atol=1e-6): fails.append(dict(kind='timefreq', function='scared.preprocesses.first_order', detail='fft_modulus differs from the first ceil(n/2) moduli of the DFT'))
        except Exception as e: fails.append(dict(kind='timefreq', function='scared.preprocesses.first_order', detail='fft_modulus raises %r' % (e,)))
    return dict(evaluations=ev, failures=len(fails), failing=fails[:5], bound='random matrices of every integer/float dtype incl. extreme values (type bounds, 46341, 65536), random frames/modes/distances (distance up to frame length + 3), first-order preprocesses, the six time-frequency preprocesses and fft_modulus vs naive O(n^2) DFT formulas (even frame lengths 2..8, modes raw/centered/standardized) and their row locality')

if __name__ == '__main__':
    cmd = sys.argv[1]
    if cmd == 'replay': print(json.dumps(replay(json.loads(sys.stdin.read())), default=str))
    elif cmd == 'bounded': print(json.dumps(bounded(int(sys.argv[2]), sys.argv[3]), default=str))
