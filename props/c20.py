"""C20 -- Synchronizer output is exactly the accepted traces, in order, with their own metadata.

Contract over scared/synchronization.py::Synchronizer.run (real source) with a loop cut over a SYMBOLIC number of input traces.
The user function is havoc: on every trace it returns data, returns None, or raises an arbitrary Exception subclass.
  invariant(k)  processed_counter == k, synchronized_counter == A_k (ghost: number accepted among the first k), 0 <= A_k <= k
  step          accepted  -> exactly one write, at index A_k, of (this input trace, the returned data); A_{k+1} = A_k + 1
                rejected  -> no write; A_{k+1} = A_k            (indices are handed out in input order => output order == input order)
  post          processed_counter == n and synchronized_counter == A_n, also when nothing was accepted and the writer has
                nothing to return (the counters are right before close()/get_reader() are reached); a second run() raises
                SynchronizerError and changes nothing; output given as str or Path builds the writer on that file
estraces (the writer, iteration over the trace set) is a trusted contract (pyvc/estub.py)."""
import sys, os, argparse, json, pathlib
sys.path.insert(0, os.path.dirname(os.path.dirname(os.path.abspath(__file__))))
import z3
from pyvc import core, symnp, solve, loader as L, harness as H, report as R, loops
from pyvc.core import SInt, zi, mk_int

MOD = 'scared.synchronization'
def native(case): return R.replay_native('props.c20_native', case)

class UserError(Exception): pass
class WriterEmpty(Exception): pass

def run_contract(rep, timeout, out_kind):
    ld = L.Loader(); mod = ld.load(MOD); E = ld.extra['estraces']
    for k in ('Synchronizer.__init__', 'Synchronizer._check_input_ths', 'Synchronizer._check_output', 'Synchronizer._check_function', 'Synchronizer.run', '_ErrorCounter.__init__', '_ErrorCounter.error_occur', '_no_stdout'):
        rep.function(MOD + '::' + k, ld.fn_hash.get(MOD + '::' + k))
    fn = MOD + '::Synchronizer.run'
    def body():
        n = core.sym_int('n', 0)
        ths = E.TraceHeaderSet('IN', n, 30, 'float32', {'plaintext': (16, 'uint8')})
        log = {'choices': [], 'data': None, 'trace': None}
        def user_function(trace_object, **kw):
            c = core.sym_int('choice!%d' % len(log['choices']), 0, 3); log['choices'].append(c); log['trace'] = trace_object
            if bool(c == 0):
                log['data'] = ('DATA-OF', trace_object); return log['data']
            if bool(c == 1): return None
            if bool(c == 2): raise UserError('rejected')
            raise IndexError('peak search failed')
        out = 'out.ets' if out_kind == 'str' else pathlib.Path('out.ets')
        s = mod.Synchronizer(ths, out, user_function, overwrite=True)
        writer = s.output
        # the writer has nothing to return when nothing was written (trusted contract of ETSWriter.get_reader)
        A = {'v': 0}
        def get_reader():
            if bool(core.mk_bool(zi(A['v']) == 0)): raise WriterEmpty('no output set')
            return ('reader', A['v'])
        writer.get_reader = get_reader
        st = {}
        def count(it): return n
        def element(it, k): st['k'] = k; return (k, ths[k])
        def establish():
            loops.oblige('invariant on entry: counters are zero', 'invariant-init', z3.And(zi(s.processed_counter) == 0, zi(s.synchronized_counter) == 0, z3.BoolVal(len(writer.written) == 0)))
        def havoc(k):
            a = core.sym_int('A!%d' % next(loops._ctr), 0); core.assume(a.z <= zi(k))
            s.processed_counter = k; s.synchronized_counter = a; A['v'] = a; st['A'] = a
            writer.written = []; log['data'] = None
            ec = s._err_counter
            ec.limit = core.sym_int('lim!%d' % next(loops._ctr), 1); ec.last_error_id = core.sym_int('lid!%d' % next(loops._ctr), 0); ec.counter = core.sym_int('cnt!%d' % next(loops._ctr), 0)
        def preserve(k):
            a = st['A']
            c = log['choices'][-1]
            was_accepted = bool(c == 0)          # already decided on this path: no new fork
            loops.oblige('step: processed_counter advanced by one', 'invariant-step', zi(s.processed_counter) == zi(k) + 1)
            if was_accepted:
                ok = len(writer.written) == 1
                loops.oblige('step: an accepted trace is written exactly once', 'invariant-step', z3.BoolVal(ok))
                if ok:
                    idx, tr, pts = writer.written[0]
                    loops.oblige('step: it goes to the next free index (== number accepted before)', 'invariant-step', zi(idx) == a.z)
                    loops.oblige('step: with the metadata of the originating trace and exactly the returned data', 'invariant-step', z3.BoolVal(tr is log['trace'] and pts is log['data'] and isinstance(tr, E.Trace) and tr.row is k))
                loops.oblige('step: synchronized_counter counts it', 'invariant-step', zi(s.synchronized_counter) == a.z + 1)
            else:
                loops.oblige('step: a rejected trace (None / exception) writes nothing', 'invariant-step', z3.BoolVal(len(writer.written) == 0))
                loops.oblige('step: synchronized_counter unchanged', 'invariant-step', zi(s.synchronized_counter) == a.z)
            A['v'] = s.synchronized_counter
        lc = loops.LoopCut('sync', count, element, establish, havoc, preserve)
        L.set_task(loops={MOD + '::Synchronizer.run#0': lc})
        exc = None; res = None
        try: res = s.run()
        except WriterEmpty as e: exc = e
        # postconditions hold on the normal and on the nothing-to-return path
        loops.oblige('post: processed_counter == number of input traces', 'post', zi(s.processed_counter) == n.z)
        loops.oblige('post: synchronized_counter == number of accepted traces', 'post', zi(s.synchronized_counter) == zi(A['v']))
        loops.oblige('post: the writer was closed before its reader is requested', 'post', z3.BoolVal(writer.closed))
        loops.oblige('post: run() fails for lack of an output set only when nothing was accepted', 'post', z3.BoolVal(exc is None) if False else (zi(A['v']) == 0 if exc is not None else zi(A['v']) > 0))
        # second run refused, state untouched
        before = (s.processed_counter, s.synchronized_counter, len(writer.written))
        try:
            s.run(); second = 'accepted'
        except mod.SynchronizerError: second = 'refused'
        except Exception as e: second = repr(e)
        loops.oblige('post: a second run() is refused and changes nothing', 'post', z3.BoolVal(second == 'refused' and before == (s.processed_counter, s.synchronized_counter, len(writer.written))))
        return lc.entered, isinstance(writer, E.formats.ets_writer.ETSWriter) and writer.filename == out
    paths = core.explore(body)
    for p, outc, exc in paths:
        tag = 'output=%s' % out_kind
        if exc is not None:
            rep.obligation('run[%s]' % tag, fn, 'post', dict(result='sat', backend='exec', secs=0), sample=repr(exc))
            rep.violation('run[%s]' % tag, fn, 'an exception of the user function (or an internal one) escapes run(): %r' % (exc,), dict(kind='escape', exc=repr(exc)), None, *native(dict(kind='patterns'))); continue
        entered, writer_ok = outc
        if entered != 1: rep.errors.append('loop contract of Synchronizer.run entered %s times' % entered)
        rep.obligation('post: str/Path output builds the ETS writer on that file [%s]' % tag, MOD + '::Synchronizer._check_output', 'post', dict(result='unsat' if writer_ok else 'sat', backend='exec', secs=0))
        for ob in p.obligations:
            res = solve.discharge(ob['pc'], ob['goal'], timeout_ms=timeout)
            rep.obligation('%s [%s]' % (ob['name'], tag), fn, ob['kind'], res, sample='forall n, forall accept/None/raise patterns')
            if res['result'] == 'sat':
                rep.violation('%s [%s]' % (ob['name'], tag), fn, ob['name'], dict(kind='patterns', model=str(res['model'])[:300]), str(res['model'])[:600], *native(dict(kind='patterns')))
    return len(paths)

def check_contract(rep, timeout):
    """history: Synchronizer.check() -- the dry run on a few traces -- whatever the user function does on them and whether check() returns
    or re-raises (catch_exceptions=False), leaves the counters, the single-use guard and the output untouched, so that run() afterwards starts
    from the state __init__ built (frame condition of check; the run contract above starts from that state)."""
    ld = L.Loader(); mod = ld.load(MOD); E = ld.extra['estraces']
    fn = MOD + '::Synchronizer.check'
    rep.function(fn, ld.fn_hash.get(fn))
    npaths = 0; raised = 0
    for catch in (True, False):
        def body():
            n = core.sym_int('n', 1)
            ths = E.TraceHeaderSet('IN', n, 30, 'float32', {'plaintext': (16, 'uint8')})
            calls = []
            def user_function(trace_object, **kw):
                c = core.sym_int('choice!%d' % len(calls), 0, 2); calls.append(trace_object)
                if bool(c == 0): return ['DATA-OF-CALL', len(calls)]
                if bool(c == 1): return None
                raise UserError('rejected')
            s = mod.Synchronizer(ths, 'out.ets', user_function, overwrite=True)
            before = dict(vars(s)); wr = s.output; written0 = list(wr.written); closed0 = wr.closed
            L.set_task()
            exc = None; res = None
            try: res = s.check(nb_traces=2, catch_exceptions=catch)
            except (UserError, mod.SynchronizerError) as e: exc = e
            after = vars(s)
            same = set(after) == set(before) and all(after[k] is before[k] or (isinstance(after[k], int) and after[k] == before[k]) for k in before)
            return same and wr.written == written0 and wr.closed == closed0, exc, len(calls)
        for p, outc, exc in core.explore(body):
            npaths += 1; tag = 'catch_exceptions=%s,path%d' % (catch, npaths)
            if exc is not None:
                rep.obligation('check[%s]' % tag, fn, 'post', dict(result='sat', backend='exec', secs=0), sample=repr(exc))
                rep.violation('check[%s]' % tag, fn, 'check() raises %r' % (exc,), dict(kind='check_then_run'), None, *native(dict(kind='check_then_run'))); continue
            same, e, ncalls = outc
            raised += e is not None
            ok = same and (catch is False or e is None)
            rep.obligation('frame[check,%s]: counters, single-use guard and output untouched whether check() returns or re-raises' % tag, fn, 'frame', dict(result='unsat' if ok else 'sat', backend='frame-scan', secs=0))
            if not ok:
                rep.violation('frame[check,%s]' % tag, fn, 'check() changes the state run() starts from (or raises although exceptions are to be caught)', dict(kind='check_then_run'), None, *native(dict(kind='check_then_run')))
    rep.cover('check(): returning and re-raising outcomes explored', npaths >= 6 and raised >= 1)

def main():
    ap = argparse.ArgumentParser(); ap.add_argument('--tier', default=os.environ.get('VERIF_TIER', 'quick')); ap.add_argument('--replay')
    a = ap.parse_args(); seed = int(os.environ.get('VERIF_SEED', '0'))
    if a.replay:
        rp, o = native(json.load(open(a.replay))['case']); print(o); sys.exit(1 if rp else 0)
    rep = R.Report('C20', a.tier, seed); timeout = solve.TIMEOUT_MS[a.tier]
    R.prefetch_native('props.c20_native', ['bounded', str(seed), a.tier])      # the stand-in runs while the obligations are discharged
    npaths = 0
    for ok in ('str', 'Path'): npaths += run_contract(rep, timeout, ok)
    check_contract(rep, timeout)
    rep.cover('all four user-function outcomes explored', npaths >= 8)
    rc, o, so, se = R.run_native('props.c20_native', ['bounded', str(seed), a.tier], timeout=1500)
    if o is None: rep.errors.append('native stand-in failed: %s %s' % (so[-400:], se[-900:]))
    else:
        rep.bounded.append(dict(function='Synchronizer.run with real ETS files under /venv/bin/python', bound=o['bound'], evaluations=o['evaluations'], distinct=o['evaluations'], exhaustive=o.get('exhaustive', False), failures=o['failures']))
        for f in o['failing'][:3]: rep.violation('bounded[native,%s]' % f.get('kind'), MOD + '::Synchronizer.run', f.get('detail', 'real run differs'), f, None, True, f)
    rep.assume('A6', 'T-pyvc')
    rep.trust('estraces: iterating a trace set yields its traces in order; ETSWriter.write_trace_object_and_points(trace, points, index) stores them at index; get_reader() has nothing to return when nothing was written (pyvc/estub.py; the native stand-in uses the real writer)',
              'KeyboardInterrupt is outside the property (re-raised by design)')
    sys.exit(rep.finish('./check C20 --tier %s' % a.tier))

if __name__ == '__main__':
    main()
