"""C01 -- incremental distinguishers are invariant to how traces are split into batches.

Representation invariant of every distinguisher: each accumulator entry is the corresponding moment of the rows fed so far.
  update additivity   accumulator' == accumulator + batch moment
        vectorised code (CPA, alternative CPA, DPA, template matching): batch size n SYMBOLIC (unbounded), sums normalised to
        prefix-sum functions;
        scalar/numba kernels (partitioned kernel 1 and 2, MIA, template build kernel 1 and 2, t-test): batch contents fully symbolic,
        batch extents small and concrete (bounded in shape), started from an ARBITRARY accumulator state
  first call          _initialize creates all-zero accumulators (so the state after the first batch is the batch moment)
  compute frame       compute() leaves every accumulator storage and attribute as it was (asking twice gives the same answer,
                      an intermediate compute cannot change later results)
  lemma               sum over [a,c) == sum over [a,b) + sum over [b,c)  (lemmas/Sums.lean, checked by Lean/Mathlib in the thorough tier):
                      with additivity, the state after any sequence of non-empty batches is the moment of the concatenation.
"Up to floating-point rounding" is outside the real-arithmetic model (A1) and only sampled by the native stand-in."""
import sys, os, argparse, json, subprocess, time
sys.path.insert(0, os.path.dirname(os.path.dirname(os.path.abspath(__file__))))
import z3
import numpy as _rnp
from pyvc import core, symnp, solve, loader as L, harness as H, report as R, parallel as P, sums
from pyvc.core import SInt, SBV, SFloat, zi
from props import kernel_inv as KI
from props import dist_common as DCm, kernels as KN, c03 as C3
from props.dist_common import moment_tensor, real_of

def native(case): return R.replay_native('props.c01_native', case)

def initialize_zero(u, rep, kind, precision, timeout):
    def body():
        S = core.sym_int('S', 1); W = core.sym_int('W', 1) if kind in ('CPA',) else 2
        n = 2
        X = H.sym_reals('X', (n, S), 'float32'); D = H.sym_bytes('Y', (n, W), 'uint8', bits=1 if kind == 'DPA' else 2)
        if kind == 'CPA': d = u.d.CPADistinguisher(precision=precision)
        elif kind == 'DPA': d = u.d.DPADistinguisher(precision=precision)
        elif kind == 'SNR': d = u.d.SNRDistinguisher(partitions=[0, 1, 2], precision=precision)
        elif kind == 'MIA': d = u.d.MIADistinguisher(bins_number=3, bin_edges=[0.0, 1.0, 2.0, 3.0], partitions=[0, 1, 2])
        elif kind == 'TemplateBuild':
            d = type('TB', (u.part.PartitionedDistinguisherBase, u.tpl._TemplateBuildDistinguisherMixin), {})(partitions=[0, 1, 2], precision=precision)
        before = set(d.__dict__)
        d._initialize(X, D)
        return d, before
    fn = {'CPA': C3.CPA + '::CPADistinguisherMixin._initialize', 'DPA': C3.DPA + '::DPADistinguisherMixin._initialize', 'SNR': KN.PM + '::PartitionedDistinguisherMixin._initialize_accumulators',
          'MIA': KN.MM + '::MIADistinguisherMixin._initialize_accumulators', 'TemplateBuild': KN.TM + '::_TemplateBuildDistinguisherMixin._initialize_accumulators'}[kind]
    for p, outc, exc in core.explore(body):
        nm = 'post[%s,%s: _initialize creates all-zero accumulators]' % (kind, precision)
        if exc is not None:
            if 'memory' in str(exc): continue
            rep.obligation(nm, fn, 'post', dict(result='sat', backend='exec', secs=0), sample=repr(exc)); rep.violation(nm, fn, 'raises %r' % (exc,), dict(kind='init', dist=kind), None, *native(dict(kind='init', dist=kind))); continue
        d, before = outc
        goals = []; cons = []
        for k, v in d.__dict__.items():
            if k in before or not isinstance(v, symnp.ndarray) or k in ('partitions',): continue
            idx, c = H.generic_index(v.shape); cons += c
            e = v.at(*idx)
            goals.append(core.scalar_eq(e, core.cast(0, v.dtype)))
        res = solve.discharge(p.pc + cons, z3.And(*goals) if goals else z3.BoolVal(False), timeout_ms=timeout)
        rep.obligation(nm, fn, 'post', res, sample='every entry of every accumulator is 0 (shapes symbolic)')
        if res['result'] == 'sat': rep.violation(nm, fn, 'an accumulator does not start at zero', dict(kind='init', dist=kind), str(res['model'])[:300], *native(dict(kind='init', dist=kind)))

def template_matching_update(u, rep, which, precision, timeout):
    """_BaseTemplateAttackDistinguisherMixin._update: _scores[g]' == _scores[g] + sum_i d_i^T Pinv d_i / S (n symbolic)"""
    fn = KN.TM + '::_BaseTemplateAttackDistinguisherMixin._update'
    S = 2; K = 2
    def body():
        mix = u.tpl.TemplateAttackDistinguisherMixin if which == 'static' else u.tpl.TemplateDPADistinguisherMixin
        o = type('TM', (mix,), {})(partitions=[0, 1], precision=precision)
        n = core.sym_int('n', 1)
        o.templates = H.sym_reals('TPL', (K, S), precision); o.pooled_covariance_inv = H.sym_reals('PCI', (S, S), 'float64'); o.pooled_covariance = H.sym_reals('PC', (S, S), 'float64'); o.is_build = True
        G = K if which == 'static' else 2
        o._scores = moment_tensor('SC', (G,), precision); old = o._scores.snapshot()
        X = H.sym_reals('X', (n, S), 'float32')
        D, cons = KN.sym_class_index('D', 1, 1, K) if False else (None, [])
        data = H.sym_bytes('H', (n, G), 'uint8', bits=1)
        if which == 'dpa': o._data_to_partition_index = lambda col: col       # identity class map for declared values 0..K-1 (value == index); the LUT itself is C12
        o._update(X, data)
        return o, n, X, data, old, G
    for p, outc, exc in core.explore(body):
        nm = 'post[template matching (%s),%s: _scores\' == _scores + sum_i d_i^T Pinv d_i / S]' % (which, precision)
        if exc is not None:
            rep.obligation(nm, fn, 'post', dict(result='sat', backend='exec', secs=0), sample=repr(exc)); rep.violation(nm, fn, 'raises %r' % (exc,), dict(kind='tmatch', which=which), None, *native(dict(kind='tmatch', which=which))); continue
        o, n, X, data, old, G = outc
        goals = []
        for g in range(G):
            def term(i, g=g):
                if which == 'static': tpl = [real_of(o.templates.at(g, s)) for s in range(S)]
                else:
                    hv = data.at(i, g)
                    tpl = [z3.If(hv.z == 0, real_of(o.templates.at(0, s)), real_of(o.templates.at(1, s))) for s in range(S)]
                dvec = [real_of(X.at(i, s)) - tpl[s] for s in range(S)]
                return SFloat(sum(dvec[a] * real_of(o.pooled_covariance_inv.at(a, b)) * dvec[b] for a in range(S) for b in range(S)))
            exp = real_of(old((g,))) + DCm.batch_sum(term, n) / S
            goals.append(real_of(o._scores.at(g)) == exp)
        res = solve.discharge(p.pc, z3.And(*goals), timeout_ms=timeout)
        rep.obligation(nm, fn, 'post', res, sample='n symbolic; Mahalanobis form with the pooled covariance pseudo-inverse; template chosen per candidate')
        if res['result'] != 'unsat' and res['result'] != 'sat': pass
        if res['result'] == 'sat': rep.violation(nm, fn, 'score accumulator not increased by the batch term', dict(kind='tmatch', which=which), str(res['model'])[:400], *native(dict(kind='tmatch', which=which)))

def compute_frames(u, rep, timeout):
    """compute() of MIA, template build and template matching leaves the accumulators untouched"""
    def snap(d): return {k: (v, v.st, v.st.version) for k, v in d.__dict__.items() if isinstance(v, symnp.ndarray)}
    def same(sn, d, ignore=()): return [k for k, (v, st, ver) in sn.items() if k not in ignore and not (isinstance(d.__dict__.get(k), symnp.ndarray) and d.__dict__[k].st is st and st.version == ver)]
    cases = []
    def mia():
        d = u.d.MIADistinguisher(bins_number=2, bin_edges=[0.0, 1.0, 2.0], partitions=[0, 1])
        S = core.sym_int('S', 1); d.processed_traces = core.sym_int('n', 1); d._origin_shape = (d.processed_traces, 1); d._trace_length = S; d._data_words = 1
        f = z3.Function('ACC', *([z3.IntSort()] * 5)); d.accumulators = symnp.ndarray.fresh((S, 2, 2, 1), lambda i: SBV(z3.Int2BV(f(*[zi(k) for k in i]), 32), 'uint32', f(*[zi(k) for k in i])), 'uint32')
        sn = snap(d); r = d.compute(); return same(sn, d), 'MIA', KN.MM + '::MIADistinguisherMixin._compute'
    def tb():
        d = type('TB', (u.part.PartitionedDistinguisherBase, u.tpl._TemplateBuildDistinguisherMixin), {})(partitions=[0, 1], precision='float64')
        d.processed_traces = core.sym_int('n', 1); d._origin_shape = (d.processed_traces, 1); d._trace_length = 2; d._data_words = 1
        d._exi = moment_tensor('EXI', (2, 2), 'float64'); d._exxi = moment_tensor('EXXI', (2, 2, 2), 'float64'); d._counters = moment_tensor('CNT', (2,), 'float64')
        sn = snap(d); r = d.compute(); return same(sn, d), 'template build', KN.TM + '::_TemplateBuildDistinguisherMixin._compute'
    def tm():
        o = type('TM', (u.tpl.TemplateAttackDistinguisherMixin,), {})(partitions=[0, 1], precision='float64'); u.base._initialize_distinguisher(o, 'float64', core.sym_int('n', 1))
        o._origin_shape = (o.processed_traces, 1); o._scores = moment_tensor('SC', (2,), 'float64')
        sn = snap(o); r = o.compute(); return same(sn, o), 'template matching', KN.TM + '::_BaseTemplateAttackDistinguisherMixin._compute'
    for f in (mia, tb, tm):
        for p, outc, exc in core.explore(f, max_paths=3000):
            if exc is not None:
                rep.obligation('frame[%s compute]' % f.__name__, 'compute', 'frame', dict(result='unknown', backend='exec', secs=0, note=repr(exc))); continue
            diff, name, fn = outc
            rep.obligation('frame[%s: compute() leaves every accumulator untouched]' % name, fn, 'frame', dict(result='unsat' if not diff else 'sat', backend='frame-scan', secs=0))
            if diff: rep.violation('frame[%s: compute() leaves every accumulator untouched]' % name, fn, 'compute() changed %s' % diff, dict(kind='frame', dist=name, changed=diff), None, *native(dict(kind='frame', dist=name)))

def main():
    ap = argparse.ArgumentParser(); ap.add_argument('--tier', default=os.environ.get('VERIF_TIER', 'quick')); ap.add_argument('--replay')
    a = ap.parse_args(); seed = int(os.environ.get('VERIF_SEED', '0'))
    if a.replay:
        rp, o = native(json.load(open(a.replay))['case']); print(o); sys.exit(1 if rp else 0)
    rep = R.Report('C01', a.tier, seed); timeout = solve.TIMEOUT_MS[a.tier]
    R.prefetch_native('props.c01_native', ['bounded', str(seed), a.tier])      # the stand-in runs while the obligations are discharged
    u = DCm.Dist()
    for k in (C3.CPA + '::CPADistinguisherMixin._update', C3.CPA + '::CPADistinguisherMixin._initialize', C3.DPA + '::DPADistinguisherMixin._update', C3.DPA + '::DPADistinguisherMixin._initialize',
              KN.PM + '::PartitionedDistinguisherMixin._accumulate_core_1', KN.PM + '::PartitionedDistinguisherMixin._accumulate_core_2', KN.PM + '::PartitionedDistinguisherMixin._initialize_accumulators', KN.PM + '::PartitionedDistinguisherMixin._compute',
              KN.MM + '::MIADistinguisherMixin._accumulate_core', KN.MM + '::MIADistinguisherMixin._initialize_accumulators', KN.MM + '::MIADistinguisherMixin._compute', KN.MM + '::MIADistinguisherMixin._compute_pdf',
              KN.TM + '::_TemplateBuildDistinguisherMixin._accumulate_core_1', KN.TM + '::_TemplateBuildDistinguisherMixin._accumulate_core_2', KN.TM + '::_TemplateBuildDistinguisherMixin._initialize_accumulators', KN.TM + '::_TemplateBuildDistinguisherMixin._compute',
              KN.TM + '::_BaseTemplateAttackDistinguisherMixin._update', KN.TM + '::_BaseTemplateAttackDistinguisherMixin._compute', KN.TM + '::_BaseTemplateAttackDistinguisherMixin._initialize', KN.TT + '::TTestThreadAccumulator._update_core'):
        rep.function(k, u.sha(k))
    u.ld.load(KN.TT); rep.function(KN.TT + '::TTestThreadAccumulator._update_core', u.sha(KN.TT + '::TTestThreadAccumulator._update_core'))
    units = [('upd', 'CPA', 'uint8', 'float32', 'float64'), ('upd', 'CPA', 'int16', 'float64', 'float32'), ('upd', 'CPA', 'float64', 'uint8', 'float32'), ('upd', 'DPA', 'uint8', 'float32', 'float64'), ('upd', 'DPA', 'uint8', 'int16', 'float32')]
    for kind in ('CPA', 'DPA', 'SNR', 'MIA', 'TemplateBuild'): units.append(('init', kind, 'float32'))
    for which in (1, 2):
        for (n, S, W, K) in (((2, 2, 1, 2), (1, 1, 2, 3)) if a.tier == 'quick' else ((2, 2, 1, 2), (1, 1, 2, 3), (2, 1, 2, 2), (3, 1, 1, 2))):
            for td, pr in (('float32', 'float64'), ('int8', 'float32')): units.append(('part', which, n, S, W, K, td, pr))
        for (n, S, K) in (((2, 2, 2),) if a.tier == 'quick' else ((2, 2, 2), (3, 1, 2), (1, 2, 3))):
            for td, pr in (('float32', 'float64'), ('uint8', 'float32')): units.append(('tpl', which, n, S, K, td, pr))
    for td, pr in (('float32', 'float64'), ('float64', 'float32'), ('int8', 'float32'), ('uint8', 'float64'), ('float32', 'float32')):
        units += [('inv', 'pk1', td, pr), ('inv', 'tk1', td, pr), ('inv', 'tt', td, pr)]
    units += [('miainv', 'float32', 3, -1, 2), ('miainv', 'uint8', 3, 0, 64)]
    units += [('k2n', 2, 1, 2, 'float32', 'float64'), ('k2n', 1, 2, 3, 'uint8', 'float32'), ('k2n', 2, 2, 2, 'int16', 'float64'), ('k2n', 1, 1, 9, 'float64', 'float32')]
    units += [('mia', 1, 1, 1, 2, 2, 'float32'), ('mia', 2, 1, 1, 1, 2, 'float64'), ('tt', 2, 2, 'float32', 'float64'), ('tt', 3, 1, 'int8', 'float32'), ('tm', 'static', 'float64'), ('tm', 'static', 'float32'), ('frames',)]
    def work(sub, kind, *args):
        if kind == 'upd': C3.update_additivity(u, sub, args[0], args[1], args[2], args[3], timeout)
        elif kind == 'init': initialize_zero(u, sub, args[0], args[1], timeout)
        elif kind == 'part':
            which, n, S, W, K, td, pr = args
            KN.report_kernel(sub, KN.partitioned_kernel(u, which, n, S, W, K, td, pr), 'partitioned kernel %d, %d traces x %d samples x %d words x %d classes, %s->%s' % (which, n, S, W, K, td, pr), KN.PM + '::PartitionedDistinguisherMixin._accumulate_core_%d' % which, timeout, native, dict(kind='kernel', dist='SNR', which=which, tdtype=td, precision=pr))
        elif kind == 'tpl':
            which, n, S, K, td, pr = args
            KN.report_kernel(sub, KN.template_kernel(u, which, n, S, K, td, pr), 'template build kernel %d, %d traces x %d samples x %d classes, %s->%s' % (which, n, S, K, td, pr), KN.TM + '::_TemplateBuildDistinguisherMixin._accumulate_core_%d' % which, timeout, native, dict(kind='kernel', dist='TemplateBuild', which=which, tdtype=td, precision=pr))
        elif kind == 'mia':
            n, S, W, K, B, td = args
            KN.report_kernel(sub, KN.mia_kernel(u, n, S, W, K, B, td), 'MIA kernel, %d traces x %d samples x %d words x %d classes x %d bins, %s' % (n, S, W, K, B, td), KN.MM + '::MIADistinguisherMixin._accumulate_core', timeout, native, dict(kind='kernel', dist='MIA', tdtype=td), check_flows=False)
        elif kind == 'tt':
            n, S, td, pr = args
            KN.report_kernel(sub, KN.ttest_kernel(u, n, S, td, pr), 't-test kernel, %d traces x %d samples, %s->%s' % (n, S, td, pr), KN.TT + '::TTestThreadAccumulator._update_core', timeout, native, dict(kind='kernel', dist='ttest', tdtype=td, precision=pr))
        elif kind == 'inv':
            which, td, pr = args
            fn_, key_, exp_, dist_ = {'pk1': (KI.partitioned_core1, KN.PM + '::PartitionedDistinguisherMixin._accumulate_core_1', (1, 1, 1), 'SNR'), 'tk1': (KI.template_core1, KN.TM + '::_TemplateBuildDistinguisherMixin._accumulate_core_1', (1, 1), 'TemplateBuild'),
                                      'tt': (KI.ttest_core, KN.TT + '::TTestThreadAccumulator._update_core', (1,), 'ttest')}[which]
            KI.report(sub, fn_(u, td, pr), '%s loop invariants, all extents symbolic, %s->%s' % ({'pk1': 'partitioned kernel 1', 'tk1': 'template build kernel 1', 'tt': 't-test kernel'}[which], td, pr), key_, timeout, exp_, native, dict(kind='kernel', dist=dist_, which=1, tdtype=td, precision=pr))
        elif kind == 'k2n': KI.report(sub, KI.partitioned_core2(u, *args), 'partitioned kernel 2, number of traces symbolic, %d samples x %d words x %d classes, %s->%s' % args, KN.PM + '::PartitionedDistinguisherMixin._accumulate_core_2', timeout, (), native, dict(kind='kernel', dist='SNR', which=2, tdtype=args[3], precision=args[4]), sat_is_undecided=True)
        elif kind == 'miainv': KI.report(sub, KI.mia_core(u, *args), 'MIA kernel loop invariants, all extents symbolic, %s traces, %d bins from %s of width %s' % args, KN.MM + '::MIADistinguisherMixin._accumulate_core', timeout, [(1, 1, 1), (1, 1, 0)], native, dict(kind='kernel', dist='MIA', tdtype=args[0]))
        elif kind == 'tm': template_matching_update(u, sub, args[0], args[1], timeout)
        elif kind == 'frames': compute_frames(u, sub, timeout)
    P.run_units(rep, work, units)
    # the interval-split lemma behind "additivity => batch invariance"
    if a.tier == 'thorough':
        t0 = time.time()
        try:
            pr = subprocess.run(['lean', os.path.join(R.VERIF, 'lemmas', 'Sums.lean')], capture_output=True, text=True, timeout=900)
            ok = pr.returncode == 0 and 'error' not in pr.stdout.lower()
        except Exception as e: ok = False; pr = None
        rep.obligation('lemma[interval split / linearity / shift / permutation of finite sums (Lean 4 + Mathlib)]', 'lemmas/Sums.lean', 'lemma', dict(result='unsat' if ok else 'unknown', backend='lean', secs=time.time() - t0, note=None if ok else (pr.stdout + pr.stderr)[-400:] if pr else 'lean failed'))
    else:
        rep.notes.append('lemmas/Sums.lean (interval split, linearity, shift, permutation) is re-checked by Lean in the thorough tier')
    rc, o, so, se = R.run_native('props.c01_native', ['bounded', str(seed), a.tier], timeout=2400)
    if o is None: rep.errors.append('native stand-in failed: %s %s' % (so[-400:], se[-900:]))
    else:
        rep.bounded.append(dict(function='all distinguishers + t-test accumulator: every ordered partition into consecutive non-empty batches, compute() interleaved, vs one batch', bound=o['bound'], evaluations=o['evaluations'], distinct=o['evaluations'], exhaustive=o.get('exhaustive', False), failures=o['failures']))
        for f in o['failing'][:3]: rep.violation('bounded[native,%s]' % f.get('dist'), f.get('function', 'scared.distinguishers'), f.get('detail', 'batch split changes the result'), f, None, True, f)
    rep.assume('A1', 'A2', 'A3', 'A4', 'A5', 'A6', 'T-pyvc')
    rep.trust('numpy.linalg.pinv is an uninterpreted deterministic function', 'class indices reaching the kernels are -1 or 0..K-1 (established by the look-up table: C12)')
    rep.not_decided.append('"up to floating-point rounding of the chosen precision": arithmetic is real (A1); rounding is only sampled by the native stand-in (float32 and float64, all ordered partitions of up to 6 traces)')
    rep.not_decided.append('partitioned kernel 1, template-build kernel 1 and the t-test kernel are proved by loop invariants with every extent symbolic (props/kernel_inv.py); the MIA kernel likewise for concrete dyadic uniform edges; the vectorised kernels 2 are proved for fully symbolic contents but small concrete extents (loops unrolled exactly): bounded in shape, stated per obligation')
    sys.exit(rep.finish('./check C01 --tier %s' % a.tier))

if __name__ == '__main__':
    main()
