"""loop-invariant proofs of the scalar accumulation kernels with ALL extents symbolic (unbounded): traces n, samples S, words W, classes K.

The kernels are nests of `for` loops; each loop gets a cut (pyvc/loops.LoopCut): establish the invariant on entry, replace the accumulators by
the state the invariant describes at a GENERIC iteration, run the real loop body once, show the invariant of the next iteration, continue
after the loop with the invariant at the bound.  The invariants determine the accumulators as functions of the entry state and of
prefix moments PM(t, ...) of the batch, which are uninterpreted functions with the recursive definition
        PM(0, idx) = 0        PM(t+1, idx) = PM(t, idx) + term(t, idx)
(instances supplied at the generic iteration) -- i.e. PM(n, idx) is by definition the batch moment  sum_{i<n} term(i, idx).

partitioned kernel 1   sum[s,w,c]' == sum[s,w,c] + sum_i [D(i,w) = c] X(i,s);  sum_square likewise with X^2;  counters[w,c]' == counters[w,c] + #{i : D(i,w) = c}
                       (class index -1 = undeclared value contributes to nothing; requires -1 <= D(i,w) < K and S >= 1)
t-test kernel          sum[s]' == sum[s] + sum_i X(i,s), sum_squared[s]' == sum_squared[s] + sum_i X(i,s)^2  (inner reductions through the sum normaliser)"""
import z3, itertools
import numpy as _rnp
from pyvc import core, symnp, solve, loader as L, harness as H, loops, sums
from pyvc.core import SInt, SBV, SFloat, zi
from props.dist_common import moment_tensor, real_of

PM_ = 'scared.distinguishers.partitioned'; TT = 'scared.ttest'
_uid = itertools.count()

def _set_state(arr, fn, dt):
    """overwrite the storage of arr by the function of the storage index fn(J) -> z3 Real"""
    arr.st.set(lambda J: SFloat(fn(tuple(zi(j) for j in J)), dt))

def partitioned_core1(u, tdtype, precision):
    """returns (paths, entered counts): obligations are recorded on the paths by loops.oblige"""
    cls = u.part.PartitionedDistinguisherMixin
    fnc = L.unwrap(cls.__dict__['_accumulate_core_1']); key = PM_ + '::PartitionedDistinguisherMixin._accumulate_core_1'
    isf = _rnp.dtype(tdtype).kind == 'f'
    def body():
        core.NARROW_FLOWS.clear()
        n = core.sym_int('n', 1); S = core.sym_int('S', 1); W = core.sym_int('W', 1); K = core.sym_int('K', 1)
        X = H.sym_reals('X', (n, S), tdtype) if isf else H.sym_ints('X', (n, S), tdtype)
        DF = z3.Function('D', z3.IntSort(), z3.IntSort(), z3.IntSort())      # class indices as the look-up table produces them (int32 holding -1..K-1; exact value carried)
        D = symnp.ndarray.fresh((n, W), lambda i: SBV(z3.Int2BV(DF(zi(i[0]), zi(i[1])), 32), 'int32', DF(zi(i[0]), zi(i[1]))), 'int32', name='D')
        xv = lambda t, s: real_of(X.at(SInt(t) if not isinstance(t, SInt) else t, SInt(s) if not isinstance(s, SInt) else s))
        dv = lambda t, w: DF(t, w)
        sm = moment_tensor('SUM', (S, W, K), precision); sq = moment_tensor('SQ', (S, W, K), precision); cn = moment_tensor('CNT', (W, K), precision)
        s0, q0, c0 = sm.uf, sq.uf, cn.uf
        I = z3.IntSort(); Rl = z3.RealSort()
        P1 = z3.Function('PM1', I, I, I, I, Rl); P2 = z3.Function('PM2', I, I, I, I, Rl); PC = z3.Function('PMC', I, I, I, Rl)       # (t, s, w, c), (t, w, c)
        term1 = lambda t, s, w, c: z3.If(dv(t, w) == c, xv(t, s), z3.RealVal(0))
        term2 = lambda t, s, w, c: z3.If(dv(t, w) == c, xv(t, s) * xv(t, s), z3.RealVal(0))
        termc = lambda t, w, c: z3.If(dv(t, w) == c, z3.RealVal(1), z3.RealVal(0))
        nz, Sz, Wz, Kz = n.z, S.z, W.z, K.z
        # the three invariants as states (functions of the storage index)
        def out_state(k):
            return (lambda J: s0(*J) + z3.If(J[0] < k, P1(nz, *J), 0), lambda J: q0(*J) + z3.If(J[0] < k, P2(nz, *J), 0), lambda J: c0(*J) + z3.If(k > 0, PC(nz, *J), 0))
        def mid_state(k, t):
            return (lambda J: s0(*J) + z3.If(J[0] < k, P1(nz, *J), z3.If(J[0] == k, P1(t, *J), 0)), lambda J: q0(*J) + z3.If(J[0] < k, P2(nz, *J), z3.If(J[0] == k, P2(t, *J), 0)),
                    lambda J: c0(*J) + z3.If(k > 0, PC(nz, *J), PC(t, *J)))
        def in_state(k, t, j):
            a, b, c = mid_state(k, t)
            hit3 = lambda J: z3.And(J[0] == k, J[1] < j, dv(t, J[1]) == J[2])
            return (lambda J: a(J) + z3.If(hit3(J), xv(t, k), 0), lambda J: b(J) + z3.If(hit3(J), xv(t, k) * xv(t, k), 0),
                    lambda J: c(J) + z3.If(z3.And(k == 0, J[0] < j, dv(t, J[0]) == J[1]), z3.RealVal(1), 0))
        def install(st):
            _set_state(sm, st[0], precision); _set_state(sq, st[1], precision); _set_state(cn, st[2], precision)
        gs, gw, gc = z3.Int('gs!'), z3.Int('gw!'), z3.Int('gc!')
        grange = [gs >= 0, gs < Sz, gw >= 0, gw < Wz, gc >= 0, gc < Kz]
        def same(st, what, kind, extra=()):
            """current accumulators == the state st at a generic in-range index"""
            cur = (real_of(sm.at(SInt(gs), SInt(gw), SInt(gc))), real_of(sq.at(SInt(gs), SInt(gw), SInt(gc))), real_of(cn.at(SInt(gw), SInt(gc))))
            exp = (st[0]((gs, gw, gc)), st[1]((gs, gw, gc)), st[2]((gw, gc)))
            for nm, a, b in zip(('sum', 'sum_square', 'counters'), cur, exp):
                loops.oblige('%s: %s' % (what, nm), kind, z3.Implies(z3.And(*(grange + list(extra))), a == b))
        base = [P1(0, gs, gw, gc) == 0, P2(0, gs, gw, gc) == 0, PC(0, gw, gc) == 0]
        ctx = {}
        # outer loop over samples
        def o_establish(): same(out_state(z3.IntVal(0)), 'kernel 1 / sample loop: invariant on entry', 'invariant-init')
        def o_havoc(k): ctx['k'] = zi(k); install(out_state(zi(k)))
        def o_preserve(k): same(out_state(zi(k) + 1), 'kernel 1 / sample loop: invariant preserved (all traces of sample k accumulated, counters once)', 'invariant-step')
        # middle loop over traces
        def m_establish(): same(mid_state(ctx['k'], z3.IntVal(0)), 'kernel 1 / trace loop: invariant on entry', 'invariant-init', extra=base)
        def m_havoc(t): ctx['t'] = zi(t); install(mid_state(ctx['k'], zi(t)))
        def m_preserve(t):
            k = ctx['k']; tz = zi(t)
            unfold = [P1(tz + 1, k, gw, gc) == P1(tz, k, gw, gc) + term1(tz, k, gw, gc), P2(tz + 1, k, gw, gc) == P2(tz, k, gw, gc) + term2(tz, k, gw, gc), PC(tz + 1, gw, gc) == PC(tz, gw, gc) + termc(tz, gw, gc)]
            same(mid_state(k, tz + 1), 'kernel 1 / trace loop: invariant preserved (prefix moment extended by trace t)', 'invariant-step', extra=unfold)
        # inner loop over words
        def i_establish(): same(in_state(ctx['k'], ctx['t'], z3.IntVal(0)), 'kernel 1 / word loop: invariant on entry', 'invariant-init')
        def i_havoc(j):
            jz = zi(j); install(in_state(ctx['k'], ctx['t'], jz))
            if not isinstance(j, int) or j < 0 or True:
                d = dv(ctx['t'], jz); core.assume(z3.And(d >= -1, d < Kz))      # precondition of the kernel, instantiated at the entry read by this iteration
        def i_preserve(j): same(in_state(ctx['k'], ctx['t'], zi(j) + 1), 'kernel 1 / word loop: invariant preserved (entry of the class of word j updated, -1 skipped)', 'invariant-step')
        lo = loops.LoopCut('pk1s', lambda it: S, lambda it, k: k, o_establish, o_havoc, o_preserve)
        lm = loops.LoopCut('pk1t', lambda it: n, lambda it, k: k, m_establish, m_havoc, m_preserve)
        li = loops.LoopCut('pk1w', lambda it: W, lambda it, k: k, i_establish, i_havoc, i_preserve)
        L.set_task(loops={key + '#0': lo, key + '#1': lm, key + '#2': li})
        try: fnc(X, D, sm, sq, cn, symnp.dtype(precision))
        finally: L.set_task(loops={})
        # postcondition: the accumulators are the entry state plus the batch moments
        post = (lambda J: s0(*J) + P1(nz, *J), lambda J: q0(*J) + P2(nz, *J), lambda J: c0(*J) + PC(nz, *J))
        same(post, 'kernel 1: accumulator\' == accumulator + batch moment (n, S, W, K symbolic)', 'post')
        return (lo.entered, lm.entered, li.entered), list(core.NARROW_FLOWS)
    return core.explore(body)

def template_core1(u, tdtype, precision):
    """template build kernel 1: _exi[c,s]' == _exi[c,s] + sum_i [D(i)=c] X(i,s); _exxi[c,s,s2]' likewise with X(i,s) X(i,s2); _counters[c]' == _counters[c] + #{i : D(i) = c}"""
    cls = u.tpl._TemplateBuildDistinguisherMixin
    fnc = L.unwrap(cls.__dict__['_accumulate_core_1']); key = 'scared.distinguishers.template::_TemplateBuildDistinguisherMixin._accumulate_core_1'
    isf = _rnp.dtype(tdtype).kind == 'f'
    def body():
        core.NARROW_FLOWS.clear()
        n = core.sym_int('n', 1); S = core.sym_int('S', 1); K = core.sym_int('K', 1)
        X = H.sym_reals('X', (n, S), tdtype) if isf else H.sym_ints('X', (n, S), tdtype)
        DF = z3.Function('D', z3.IntSort(), z3.IntSort(), z3.IntSort())
        D = symnp.ndarray.fresh((n, 1), lambda i: SBV(z3.Int2BV(DF(zi(i[0]), zi(i[1])), 32), 'int32', DF(zi(i[0]), zi(i[1]))), 'int32', name='D')
        xv = lambda t, s: real_of(X.at(SInt(t), SInt(s))); dv = lambda t: DF(t, z3.IntVal(0))
        exi = moment_tensor('EXI', (K, S), precision); exxi = moment_tensor('EXXI', (K, S, S), precision); cn = moment_tensor('CNT', (K,), precision)
        e0, x0, c0 = exi.uf, exxi.uf, cn.uf
        I = z3.IntSort(); Rl = z3.RealSort()
        PE = z3.Function('PE', I, I, I, Rl); PX = z3.Function('PX', I, I, I, I, Rl); PC = z3.Function('PCt', I, I, Rl)      # (t, c, s), (t, c, s, s2), (t, c)
        nz, Sz, Kz = n.z, S.z, K.z
        def out_state(k): return (lambda J: e0(*J) + z3.If(J[1] < k, PE(nz, *J), 0), lambda J: x0(*J) + z3.If(J[1] < k, PX(nz, *J), 0), lambda J: c0(*J) + z3.If(k > 0, PC(nz, *J), 0))
        def mid_state(k, t): return (lambda J: e0(*J) + z3.If(J[1] < k, PE(nz, *J), z3.If(J[1] == k, PE(t, *J), 0)), lambda J: x0(*J) + z3.If(J[1] < k, PX(nz, *J), z3.If(J[1] == k, PX(t, *J), 0)), lambda J: c0(*J) + z3.If(k > 0, PC(nz, *J), PC(t, *J)))
        def install(st): _set_state(exi, st[0], precision); _set_state(exxi, st[1], precision); _set_state(cn, st[2], precision)
        gc, gs, g2 = z3.Int('gc!'), z3.Int('gs!'), z3.Int('g2!'); grange = [gc >= 0, gc < Kz, gs >= 0, gs < Sz, g2 >= 0, g2 < Sz]
        def same(st, what, kind, extra=()):
            cur = (real_of(exi.at(SInt(gc), SInt(gs))), real_of(exxi.at(SInt(gc), SInt(gs), SInt(g2))), real_of(cn.at(SInt(gc))))
            exp = (st[0]((gc, gs)), st[1]((gc, gs, g2)), st[2]((gc,)))
            for nm, a, b in zip(('_exi', '_exxi', '_counters'), cur, exp): loops.oblige('%s: %s' % (what, nm), kind, z3.Implies(z3.And(*(grange + list(extra))), a == b))
        base = [PE(0, gc, gs) == 0, PX(0, gc, gs, g2) == 0, PC(0, gc) == 0]; ctx = {}
        def o_establish(): same(out_state(z3.IntVal(0)), 'template kernel 1 / sample loop: invariant on entry', 'invariant-init')
        def o_havoc(k): ctx['k'] = zi(k); install(out_state(zi(k)))
        def o_preserve(k): same(out_state(zi(k) + 1), 'template kernel 1 / sample loop: invariant preserved', 'invariant-step')
        def m_establish(): same(mid_state(ctx['k'], z3.IntVal(0)), 'template kernel 1 / trace loop: invariant on entry', 'invariant-init', extra=base)
        def m_havoc(t):
            tz = zi(t); install(mid_state(ctx['k'], tz)); core.assume(z3.And(dv(tz) >= -1, dv(tz) < Kz))
        def m_preserve(t):
            k = ctx['k']; tz = zi(t); hit = dv(tz) == gc
            unfold = [PE(tz + 1, gc, k) == PE(tz, gc, k) + z3.If(hit, xv(tz, k), 0), PX(tz + 1, gc, k, g2) == PX(tz, gc, k, g2) + z3.If(hit, xv(tz, k) * xv(tz, g2), 0), PC(tz + 1, gc) == PC(tz, gc) + z3.If(hit, z3.RealVal(1), 0)]
            same(mid_state(k, tz + 1), 'template kernel 1 / trace loop: invariant preserved (prefix moments extended by trace t, -1 skipped)', 'invariant-step', extra=unfold)
        lo = loops.LoopCut('tk1s', lambda it: S, lambda it, k: k, o_establish, o_havoc, o_preserve)
        lm = loops.LoopCut('tk1t', lambda it: n, lambda it, k: k, m_establish, m_havoc, m_preserve)
        L.set_task(loops={key + '#0': lo, key + '#1': lm})
        try: fnc(X, D, exi, exxi, cn, symnp.dtype(precision).type)
        finally: L.set_task(loops={})
        same((lambda J: e0(*J) + PE(nz, *J), lambda J: x0(*J) + PX(nz, *J), lambda J: c0(*J) + PC(nz, *J)), 'template kernel 1: accumulator\' == accumulator + batch moment (n, S, K symbolic)', 'post')
        return (lo.entered, lm.entered), list(core.NARROW_FLOWS)
    return core.explore(body)

def mia_core(u, tdtype, B, e0, wd):
    """MIA histogram kernel, every extent symbolic (traces n, samples S, words W, classes K), uniform edges e0 + k*wd (k = 0..B, concrete):
    accumulators[s,b,c,w]' == accumulators[s,b,c,w] + #{i < n : e_b <= X(i,s) < e_{b+1} (last bin closed on the right) and D(i,w) = c}
    requires -1 <= D < K and that the uint32 counters cannot overflow with n more traces (a0 + n < 2^32)"""
    from fractions import Fraction
    import inspect
    fnc = L.unwrap(u.mia.MIADistinguisherMixin.__dict__['_accumulate_core']); key = 'scared.distinguishers.mia::MIADistinguisherMixin._accumulate_core'
    isf = _rnp.dtype(tdtype).kind == 'f'; e0 = Fraction(e0); wd = Fraction(wd)
    assert all(Fraction(float(e0 + wd * k)) == e0 + wd * k for k in range(B + 1)), 'edges must be exactly representable (the array holds doubles; rounding is outside the model, A1)'
    rv_ = lambda q: z3.RealVal(str(q))
    def body():
        n = core.sym_int('n', 1); S = core.sym_int('S', 1); W = core.sym_int('W', 1); K = core.sym_int('K', 1)
        X = H.sym_reals('X', (n, S), tdtype) if isf else H.sym_ints('X', (n, S), tdtype)
        DF = z3.Function('D', z3.IntSort(), z3.IntSort(), z3.IntSort())
        D = symnp.ndarray.fresh((n, W), lambda i: SBV(z3.Int2BV(DF(zi(i[0]), zi(i[1])), 32), 'int32', DF(zi(i[0]), zi(i[1]))), 'int32', name='D')
        edges = symnp.from_real(_rnp.array([float(e0 + wd * k) for k in range(B + 1)]))
        xv = lambda t, s: real_of(X.at(SInt(t), SInt(s))); dv = lambda t, w: DF(t, w)
        I = z3.IntSort()
        A0 = z3.Function('ACC0', I, I, I, I, I); PA = z3.Function('PA', I, I, I, I, I, I)      # PA(t, s, b, c, w)
        nz, Sz, Wz, Kz = n.z, S.z, W.z, K.z
        def inbin(x, b):      # b: z3 Int in [0, B)
            lo = rv_(e0) + rv_(wd) * z3.ToReal(b); hi = lo + rv_(wd)
            return z3.And(x >= lo, z3.Or(x < hi, z3.And(b == B - 1, x == hi)))
        term = lambda t, s, b, c, w: z3.If(z3.And(inbin(xv(t, s), b), dv(t, w) == c), 1, 0)
        acc = symnp.ndarray.fresh((S, B, K, W), lambda i: (lambda v: SBV(z3.Int2BV(v, 32), 'uint32', v))(A0(*[zi(k) for k in i])), 'uint32', name='ACC')
        def mk(valfn): acc.st.set(lambda J: (lambda v: SBV(z3.Int2BV(v, 32), 'uint32', v))(valfn(tuple(zi(j) for j in J))))
        out_state = lambda k: (lambda J: A0(*J) + z3.If(J[0] < k, PA(nz, *J), 0))
        mid_state = lambda k, t: (lambda J: A0(*J) + z3.If(J[0] < k, PA(nz, *J), z3.If(J[0] == k, PA(t, *J), 0)))
        def in_state(k, t, j, bn): return lambda J: mid_state(k, t)(J) + z3.If(z3.And(J[0] == k, J[1] == bn, J[3] < j, dv(t, J[3]) == J[2]), 1, 0)
        gs, gb, gc, gw = z3.Int('gs!'), z3.Int('gb!'), z3.Int('gc!'), z3.Int('gw!')
        G = (gs, gb, gc, gw); grange = [gs >= 0, gs < Sz, gb >= 0, gb < B, gc >= 0, gc < Kz, gw >= 0, gw < Wz]
        def cur():
            e = acc.at(SInt(gs), SInt(gb), SInt(gc), SInt(gw)); return e.ival if e.ival is not None else z3.BV2Int(e.z)
        def same(st, what, kind, extra=()): loops.oblige(what, kind, z3.Implies(z3.And(*(grange + list(extra))), cur() == st(G)))
        ctx = {}
        def bounds(t, idx):      # facts about the ghost counts at one index: lemma instances (proved below) and the no-overflow precondition
            return [A0(*idx) >= 0, A0(*idx) + nz <= 2 ** 32 - 1, PA(t, *idx) >= 0, PA(t, *idx) <= t, PA(nz, *idx) >= 0, PA(nz, *idx) <= nz]
        def o_establish(): same(out_state(z3.IntVal(0)), 'MIA kernel / sample loop: invariant on entry', 'invariant-init')
        def o_havoc(k): ctx['k'] = zi(k); mk(out_state(zi(k)))
        def o_preserve(k): same(out_state(zi(k) + 1), 'MIA kernel / sample loop: invariant preserved', 'invariant-step')
        def m_establish(): same(mid_state(ctx['k'], z3.IntVal(0)), 'MIA kernel / trace loop: invariant on entry', 'invariant-init', extra=[PA(0, *G) == 0])
        def m_havoc(t): ctx['t'] = zi(t); ctx['bin'] = None; mk(mid_state(ctx['k'], zi(t)))
        def m_preserve(t):
            k = ctx['k']; tz = zi(t)
            unfold = [PA(tz + 1, k, gb, gc, gw) == PA(tz, k, gb, gc, gw) + term(tz, k, gb, gc, gw)]
            same(mid_state(k, tz + 1), 'MIA kernel / trace loop: invariant preserved (the sample goes to the bin that contains it, or nowhere when outside the edges)', 'invariant-step', extra=unfold)
        def _bin():
            fr = [f for f in inspect.stack() if f.function == '_accumulate_core' and 'bin_idx' in f.frame.f_locals]
            return zi(fr[0].frame.f_locals['bin_idx'])
        def i_establish():
            ctx['bin'] = _bin(); same(in_state(ctx['k'], ctx['t'], z3.IntVal(0), ctx['bin']), 'MIA kernel / word loop: invariant on entry', 'invariant-init')
        def i_havoc(j):
            jz = zi(j); k, t, bn = ctx['k'], ctx['t'], ctx['bin']; mk(in_state(k, t, jz, bn))
            d = dv(t, jz); core.assume(z3.And(d >= -1, d < Kz))
            for f_ in bounds(t, (k, bn, d, jz)): core.assume(z3.Implies(d >= 0, f_))
        def i_preserve(j): same(in_state(ctx['k'], ctx['t'], zi(j) + 1, ctx['bin']), 'MIA kernel / word loop: invariant preserved (counter of (bin, class of word j, word j) incremented, -1 skipped)', 'invariant-step')
        lo = loops.LoopCut('mias', lambda it: S, lambda it, k: k, o_establish, o_havoc, o_preserve)
        lm = loops.LoopCut('miat', lambda it: n, lambda it, k: k, m_establish, m_havoc, m_preserve)
        li = loops.LoopCut('miaw', lambda it: W, lambda it, k: k, i_establish, i_havoc, i_preserve)
        L.set_task(loops={key + '#0': lo, key + '#1': lm, key + '#2': li})
        try: fnc(X, D, edges, acc)
        finally: L.set_task(loops={})
        same(lambda J: A0(*J) + PA(nz, *J), 'MIA kernel: accumulators\' == accumulators + number of traces of the class whose sample falls in the bin (n, S, W, K symbolic)', 'post')
        # the two lemma instances used as facts above: 0 <= PA(t) <= t by induction on t
        tt = z3.Int('tl!')
        loops.oblige('MIA kernel lemma: prefix count bounded by the number of traces (base)', 'lemma', z3.Implies(PA(0, *G) == 0, z3.And(PA(0, *G) >= 0, PA(0, *G) <= 0)))
        loops.oblige('MIA kernel lemma: prefix count bounded by the number of traces (step)', 'lemma', z3.Implies(z3.And(tt >= 0, PA(tt, *G) >= 0, PA(tt, *G) <= tt, PA(tt + 1, *G) == PA(tt, *G) + term(tt, *G)), z3.And(PA(tt + 1, *G) >= 0, PA(tt + 1, *G) <= tt + 1)))
        return (lo.entered, lm.entered, li.entered), []
    return core.explore(body)

def partitioned_core2(u, S, W, K, tdtype, precision):
    """vectorised kernel 2 with the number of traces SYMBOLIC (samples, words, classes concrete): the matrix products over the trace axis go through the sum
    normaliser; accumulator' == accumulator + sum_i [D(i,w) = c] * X(i,s)^p for p = 0, 1, 2 (indicator times sample)"""
    fnc = L.unwrap(u.part.PartitionedDistinguisherMixin.__dict__['_accumulate_core_2'])
    isf = _rnp.dtype(tdtype).kind == 'f'
    def body():
        core.NARROW_FLOWS.clear(); sums.install()
        n = core.sym_int('n', 1)
        X = H.sym_reals('X', (n, S), tdtype) if isf else H.sym_ints('X', (n, S), tdtype)
        DF = z3.Function('D', z3.IntSort(), z3.IntSort(), z3.IntSort())
        D = symnp.ndarray.fresh((n, W), lambda i: SBV(z3.Int2BV(DF(zi(i[0]), zi(i[1])), 32), 'int32', DF(zi(i[0]), zi(i[1]))), 'int32', name='D')
        sm = moment_tensor('SUM', (S, W, K), precision); sq = moment_tensor('SQ', (S, W, K), precision); cn = moment_tensor('CNT', (W, K), precision)
        old = (sm.snapshot(), sq.snapshot(), cn.snapshot())
        fnc(X, D, sm, sq, cn, symnp.dtype(precision))
        from props.dist_common import batch_sum
        ind = lambda i, w, c: z3.If(DF(zi(i), z3.IntVal(w)) == c, z3.RealVal(1), z3.RealVal(0))
        xr = lambda i, s: real_of(X.at(i, s))
        for s_ in range(S):
            for w in range(W):
                for c in range(K):
                    loops.oblige('kernel 2, symbolic number of traces: sum[%d,%d,%d]\' == sum + batch moment' % (s_, w, c), 'post', real_of(sm.at(s_, w, c)) == real_of(old[0]((s_, w, c))) + batch_sum(lambda i: SFloat(ind(i, w, c) * xr(i, s_)), n))
                    loops.oblige('kernel 2, symbolic number of traces: sum_square[%d,%d,%d]\' == sum_square + batch moment' % (s_, w, c), 'post', real_of(sq.at(s_, w, c)) == real_of(old[1]((s_, w, c))) + batch_sum(lambda i: SFloat(ind(i, w, c) * xr(i, s_) * xr(i, s_)), n))
        for w in range(W):
            for c in range(K):
                loops.oblige('kernel 2, symbolic number of traces: counters[%d,%d]\' == counters + number of traces of the class' % (w, c), 'post', real_of(cn.at(w, c)) == real_of(old[2]((w, c))) + batch_sum(lambda i: SFloat(ind(i, w, c)), n))
        return (), list(core.NARROW_FLOWS)
    return core.explore(body)

def ttest_core(u, tdtype, precision):
    mod = u.ld.load(TT); fnc = L.unwrap(mod.TTestThreadAccumulator.__dict__['_update_core']); key = TT + '::TTestThreadAccumulator._update_core'
    isf = _rnp.dtype(tdtype).kind == 'f'
    def body():
        core.NARROW_FLOWS.clear(); sums.install()
        n = core.sym_int('n', 1); S = core.sym_int('S', 1)
        X = H.sym_reals('X', (n, S), tdtype) if isf else H.sym_ints('X', (n, S), tdtype)
        sm = moment_tensor('TS', (S,), precision); sq = moment_tensor('TSQ', (S,), precision); s0, q0 = sm.uf, sq.uf
        from props.dist_common import batch_sum
        M1 = lambda s: batch_sum(lambda i: SFloat(real_of(X.at(i, SInt(s))), 'float64'), n); M2 = lambda s: batch_sum(lambda i: SFloat(real_of(X.at(i, SInt(s))) * real_of(X.at(i, SInt(s))), 'float64'), n)
        gs = z3.Int('gs!'); gr = [gs >= 0, gs < S.z]
        def state(k): return (lambda J: s0(*J) + z3.If(J[0] < k, M1(J[0]), 0), lambda J: q0(*J) + z3.If(J[0] < k, M2(J[0]), 0))
        def install(st): _set_state(sm, st[0], precision); _set_state(sq, st[1], precision)
        def same(st, what, kind):
            for nm, a, b in (('sum', real_of(sm.at(SInt(gs))), st[0]((gs,))), ('sum_squared', real_of(sq.at(SInt(gs))), st[1]((gs,)))):
                loops.oblige('%s: %s' % (what, nm), kind, z3.Implies(z3.And(*gr), a == b))
        lo = loops.LoopCut('tts', lambda it: S, lambda it, k: k, lambda: same(state(z3.IntVal(0)), 't-test kernel / sample loop: invariant on entry', 'invariant-init'),
                           lambda k: install(state(zi(k))), lambda k: same(state(zi(k) + 1), 't-test kernel / sample loop: invariant preserved', 'invariant-step'))
        L.set_task(loops={key + '#0': lo})
        try: fnc(X, sm, sq, symnp.dtype(precision))
        finally: L.set_task(loops={})
        same((lambda J: s0(*J) + M1(J[0]), lambda J: q0(*J) + M2(J[0])), 't-test kernel: sums\' == sums + batch sums (n, S symbolic)', 'post')
        return (lo.entered,), list(core.NARROW_FLOWS)
    return core.explore(body)

def report(rep, paths, label, function, timeout, expect_entered, native=None, case=None, sat_is_undecided=False):
    n = 0
    for p, outc, exc in paths:
        if exc is not None:
            rep.obligation('loop-invariant proof[%s]' % label, function, 'post', dict(result='sat', backend='exec', secs=0), sample=repr(exc))
            rep.violation('loop-invariant proof[%s]' % label, function, 'raises %r' % (exc,), case, None, *(native(case) if native else (None, None))); continue
        entered, flows = outc
        if tuple(entered) != tuple(expect_entered) and not (callable(expect_entered) and expect_entered(entered)) and not (isinstance(expect_entered, (list, set)) and tuple(entered) in expect_entered): rep.errors.append('loop contracts of %s entered %s times, expected %s (the loop structure changed: contracts do not apply)' % (label, entered, expect_entered))
        for ob in p.obligations:
            res = solve.discharge(ob['pc'], ob['goal'], timeout_ms=timeout)
            nm = '%s [%s]' % (ob['name'], label)
            if res['result'] == 'sat' and sat_is_undecided:      # sums compared through uninterpreted prefix-sum functions: a difference of normal forms is not a counterexample
                res = dict(res, result='unknown', note='the abstract sums differ (the units with concrete extents decide whether that is a real difference)')
            rep.obligation(nm, function, ob['kind'], res, sample='generic index, every extent symbolic'); n += 1
            if res['result'] == 'sat':
                rep.violation(nm, function, ob['name'], case, str(res['model'])[:600], *(native(case) if native else (None, None)))
        bad = [f for f in flows if f[0] < f[1]]
        nm = 'dtype[%s: no inexact float operation narrower than the accumulator]' % label
        rep.obligation(nm, function, 'post', dict(result='sat' if bad else 'unsat', backend='taint', secs=0))
        if bad: rep.violation(nm, function, 'a %d-bit float operation flows into a %d-bit accumulator' % bad[0], case, None, *(native(case) if native else (None, None)))
    return n
