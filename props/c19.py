"""C19 -- signal helpers equal windowed definitions; peak search keeps isolated maxima.

Contracts over scared/signal_processing/{moving_operators,pattern_detection,peaks_detection,base}.py (real source), sample VALUES symbolic reals,
array SHAPES case-split (stated bounds):
  moving_sum/mean/var/std/skew/kurtosis   == the naive statistic of every length-w window along the axis (1-D and 2-D, both axes, every w)
  correlation / distance / bcdc           == per-window Pearson correlation / Euclidean distance / BCDC ratio, with the contract
                                              correlate(a, b, 'valid')[k] == sum_t a[k+t] b[t] ASSUMED on scipy.signal.correlate (dependency)
  pad / extract_around_indexes            place / take exactly the documented samples (symbolic offsets / symbolic indexes)
  find_peaks                              on every path of the candidate mask and of the elimination scan (symbolic data, height and distance):
                                              survivors are candidates (local maxima >= height), pairwise >= distance apart, and every dropped
                                              candidate has another candidate closer than distance with a value at least as large
  find_width                              result rows == exactly the maximal runs strictly beyond the threshold, bracketed on both sides, within the
                                              width bounds (symbolic threshold and widths), each as [first index, index after the last]"""
import sys, os, argparse, json, itertools
sys.path.insert(0, os.path.dirname(os.path.dirname(os.path.abspath(__file__))))
import z3, types
import numpy as _rnp
from fractions import Fraction
from pyvc import core, symnp, solve, loader as L, harness as H, report as R, parallel as P, sums
from pyvc.core import SInt, SBV, SFloat, zi

MO = 'scared.signal_processing.moving_operators'; PD = 'scared.signal_processing.pattern_detection'; PK = 'scared.signal_processing.peaks_detection'; BS = 'scared.signal_processing.base'
def native(case): return R.replay_native('props.c19_native', case)
def rv(x): return core.to_float(x).v
def fin(x):
    f = core.to_float(x).finite(); return z3.BoolVal(f) if isinstance(f, bool) else core.zb(f)
def mfloat(m, t):
    v = solve.mval(m, t)
    return float(v) if v is not None else 0.0

def scipy_stub():
    """ASSUMED contract of the dependency: scipy.signal.correlate(a, b, 'valid')[k] == sum_t a[k + t] * b[t] for real 1-D a, b, len(a) >= len(b)"""
    sc = types.ModuleType('scipy'); sg = types.ModuleType('scipy.signal')
    def correlate(a, b, mode='full', method='auto'):
        if mode != 'valid' or a.ndim != 1 or b.ndim != 1 or not isinstance(a.shape[0], int) or not isinstance(b.shape[0], int): raise core.NeedsContract('scipy.signal.correlate outside the assumed contract')
        fa, fb = a.snapshot(), b.snapshot(); n = b.shape[0]; dt = _rnp.result_type(a.dtype, b.dtype)
        def fn(i):
            acc = None
            for t in range(n):
                v = core.cast(fa((i[0] + t,)) * fb((t,)), dt); acc = v if acc is None else acc + v
            return acc
        return symnp.ndarray.fresh((a.shape[0] - n + 1,), fn, dt)
    sg.correlate = correlate; sc.signal = sg
    return {'scipy': sc, 'scipy.signal': sg}

class Under:
    def __init__(self):
        sums.install(); self.ld = L.Loader(); self.ld.extra.update(scipy_stub())
        self.bs = self.ld.load(BS); self.mo = self.ld.load(MO); self.pd = self.ld.load(PD); self.pk = self.ld.load(PK)

def inp(name, shape, dtype): return H.sym_reals(name, shape, dtype) if _rnp.dtype(dtype).kind == 'f' else H.sym_ints(name, shape, dtype)

# --------------------------------------------------------------------------- ring-identity obligations
from pyvc import polyid
import time as _time
def inner_of(a):
    """radicand written |c| == If(c >= 0, c, -c): returns (c, True); otherwise (a, False)"""
    if a.decl().kind() == z3.Z3_OP_ITE and a.arg(0).decl().kind() == z3.Z3_OP_GE: return a.arg(0).arg(0), True
    return a, False
def match_atom(args, naive):
    """the code's square-root argument that is identically the naive quantity (ring identity), or None"""
    unsup = None
    for a in args:
        c, _ = inner_of(a)
        try:
            if polyid.identical(c, naive)[0]: return a
        except polyid.Unsupported as e: unsup = e
    if unsup is not None: raise unsup
    return None
def ring(rep, nm, fn, pairs, case, inputs, sample=''):
    """pairs: [(where, lhs z3, rhs z3 or None when no matching atom)] -- one obligation; a failing identity is replayed on random rational inputs"""
    t0 = _time.time(); bad = None
    for where, lhs, rhs in pairs:
        if rhs is None: bad = (where, 'no square root of the expected quantity in the result'); break
        try: ok, _ = polyid.identical(lhs, rhs)
        except polyid.Unsupported as e:
            rep.obligation(nm, fn, 'post', dict(result='unknown', backend='ring-normaliser', secs=_time.time() - t0, note='ring normaliser: unsupported %s' % e)); return False
        if not ok: bad = (where, 'not identical'); break
    rep.obligation(nm, fn, 'post', dict(result='sat' if bad else 'unsat', backend='ring-normaliser(sympy)', secs=_time.time() - t0), sample=sample or '%d rational-function identities modulo S^2 = radicand' % len(pairs))
    if bad:
        import random
        rnd = random.Random(7); rp = None; o = None
        for t in range(3):
            c2 = dict(case); c2.update(inputs(rnd)); rp, o = native(c2)
            if rp: break
        rep.violation(nm, fn, '%s at %s' % (bad[1], bad[0]), c2, None, rp, o)
    return not bad

# --------------------------------------------------------------------------- moving operators
def moving(u, rep, op, shape, axis, w, dtype, timeout):
    fn = MO + '::moving_' + op; tag = '%s,shape=%s,axis=%d,w=%d,%s' % (op, shape, axis, w, dtype); case = dict(kind='moving', op=op, shape=list(shape), axis=axis, w=w, dtype=dtype)
    def body():
        core.SQRT_ARGS.clear(); X = inp('X', shape, dtype); pre = symnp.ndarray.fresh(X.shape, X.snapshot(), X.dtype)
        return X, pre, getattr(u.mo, 'moving_' + op)(X, w, axis)
    isint = _rnp.dtype(dtype).kind != 'f'
    def rand_inputs(rnd): return dict(data=_rnp.array([rnd.randint(-9, 9) * (1 if isint else 0.5) for _ in range(int(_rnp.prod(shape)))]).reshape(shape).tolist())
    for p, outc, exc in core.explore(body):
        if exc is not None:
            rep.obligation('post[%s]' % tag, fn, 'post', dict(result='sat', backend='exec', secs=0), sample=repr(exc)); rep.violation('post[%s]' % tag, fn, 'raises %r' % (exc,), case, None, *native(case)); continue
        X, pre, out = outc
        ax = axis % len(shape); eshape = tuple(d - w + 1 if k == ax else d for k, d in enumerate(shape))
        nm = 'post[%s: every output position == the naive statistic of its length-w window]' % tag
        if tuple(out.shape) != eshape:
            rep.obligation(nm, fn, 'post', dict(result='sat', backend='exec', secs=0), sample='shape %s, expected %s' % (out.shape, eshape)); rep.violation(nm, fn, 'shape %s, expected %s' % (out.shape, eshape), case, None, *native(case)); continue
        goals = []; pairs = []; fins = []
        for pos in itertools.product(*[range(d) for d in eshape]):
            xs = [rv(pre.at(*[pos[k] + t if k == ax else pos[k] for k in range(len(shape))])) for t in range(w)]
            s = z3.Sum(*xs) if w > 1 else xs[0]; m = s / w
            cm = lambda k: z3.Sum(*[z3.Product(*([x - m] * k)) for x in xs]) / w
            n0 = len(core.SQRT_ARGS); o = out.at(*pos); ov = rv(o); args = core.SQRT_ARGS[n0:]
            if op == 'sum': goals.append(z3.And(fin(o), ov == s))
            elif op == 'mean': goals.append(z3.And(fin(o), ov == m))
            elif op == 'var': pairs.append((pos, ov, cm(2))); fins.append(fin(o))
            elif op == 'std':
                a = match_atom(args, cm(2))
                if a is not None: pairs.append((pos, ov, core._SQRT(a))); fins.append(z3.Implies(a >= 0, z3.And(fin(o), ov >= 0)))
                else: pairs.append((pos, ov * ov, cm(2))); fins.append(z3.And(fin(o), ov >= 0))      # no symbolic square root (constant variance): the square must be the variance
            elif op == 'skew':
                a = match_atom(args, cm(2)); S = core._SQRT(a) if a is not None else None
                pairs.append((pos, ov, cm(3) / (S * S * S) if a is not None else None))
                if a is not None: fins.append(z3.Implies(a > 0, fin(o)))
            elif op == 'kurtosis':
                pairs.append((pos, ov, cm(4) / (cm(2) * cm(2)) - 3)); fins.append(z3.Implies(cm(2) > 0, fin(o)))
        if pairs:
            ring(rep, nm, fn, pairs, case, rand_inputs, sample='%d positions: value == naive central-moment formula (ring identity, square root of the window variance as atom)' % len(pairs))
            res = solve.discharge(p.pc, z3.And(*fins) if fins else z3.BoolVal(True), extra=core.sqrt_axioms(pairs=False), timeout_ms=timeout, nra=True)
            nf = 'post[%s: the result is finite whenever the window variance is positive (std: always, and >= 0)]' % tag
            rep.obligation(nf, fn, 'post', res)
            if res['result'] == 'sat':
                m_ = res['model']; arr = _rnp.array([mfloat(m_, H._term(pre.at(*ix))) for ix in itertools.product(*[range(d) for d in shape])]).reshape(shape).tolist()
                c2 = dict(case, data=arr); rep.violation(nf, fn, 'not finite for data %s' % (arr,), c2, str(m_)[:300], *native(c2))
        else:
            res = solve.discharge(p.pc, z3.And(*goals), timeout_ms=timeout)
            rep.obligation(nm, fn, 'post', res, sample='%d positions' % len(goals))
            if res['result'] == 'sat':
                m_ = res['model']; arr = _rnp.array([mfloat(m_, H._term(pre.at(*ix))) for ix in itertools.product(*[range(d) for d in shape])]).reshape(shape).tolist()
                c2 = dict(case, data=arr); rep.violation(nm, fn, 'window statistic differs for data %s' % (arr,), c2, str(m_)[:300], *native(c2))
        if not H.untouched(X):
            rep.obligation('frame[%s: data not written]' % tag, fn, 'frame', dict(result='sat', backend='frame-scan', secs=0)); rep.violation('frame[%s: data not written]' % tag, fn, 'the caller\'s array is modified', case, None, *native(case))

def moving_sum_inv(u, rep, rank, axis, dtype, timeout):
    """moving_sum / moving_mean with EVERY extent and the window symbolic: out[.., j, ..] == PX(j + w) - PX(j) where PX(k) = sum_{i<k} x[.., i, ..] is the
    prefix sum of the data along the axis (PX(0) = 0, PX(k+1) = PX(k) + x[k]) -- i.e. the sum of the w samples j .. j+w-1 (interval split, lemmas/Sums.lean).
    The code pads, takes a cumulative sum (a prefix-sum function PS of the PADDED row) and subtracts; the bridge PS(k+1) == PX(k) is an induction lemma
    discharged as two obligations (base, step)."""
    fn = MO + '::moving_sum'; tag = 'moving_sum/mean, rank %d, axis %d, %s, length and window symbolic' % (rank, axis, dtype)
    case = dict(kind='moving', op='sum', shape=[7] * rank, axis=axis, w=3, dtype=dtype)
    def body():
        sums.USED.clear()
        dims = [core.sym_int('D%d' % a, 2 if a == axis % rank else 1) for a in range(rank)]; Ln = dims[axis % rank]
        w = core.sym_int('w', 2); core.assume(w.z <= Ln.z)
        X = inp('X', tuple(dims), dtype); pre = symnp.ndarray.fresh(X.shape, X.snapshot(), X.dtype)
        out = u.mo.moving_sum(X, w, axis); mean = u.mo.moving_mean(X, w, axis)
        j = z3.Int('j!'); others = [z3.Int('o%d!' % a) for a in range(rank)]
        core.assume(z3.And(j >= 0, j <= Ln.z - w.z, *[z3.And(o >= 0, o < dims[a].z) for a, o in enumerate(others) if a != axis % rank]))
        idx = [SInt(j) if a == axis % rank else SInt(others[a]) for a in range(rank)]
        ov = rv(out.at(*idx)); mv = rv(mean.at(*idx))
        xat = lambda k: rv(pre.at(*[SInt(k) if a == axis % rank else SInt(others[a]) for a in range(rank)]))
        PX = z3.Function('PX', z3.IntSort(), z3.RealSort())
        used = [(ent, app) for ent, app in sums.USED]
        ok_shape = out.ndim == rank and all(H.structurally_equal([out.shape[a]], [dims[a]]) for a in range(rank) if a != axis % rank)
        loops_ = __import__('pyvc.loops', fromlist=['x'])
        loops_.oblige('post[%s: shape -- the axis shrinks to length - w + 1, other dimensions preserved]' % tag, 'post', z3.And(z3.BoolVal(bool(ok_shape)), zi(out.shape[axis % rank]) == Ln.z - w.z + 1))
        # induction lemma PS(k+1) == PX(k), 0 <= k <= L, for every prefix-sum function of the padded row that the result mentions
        k = z3.Int('k!'); facts = []
        for ent, app in used:
            params = list(app.children())[1:]; PS = lambda n_: ent['uf'](n_, *params)
            base = [sums.base(ent, params), sums.unfold(ent, z3.IntVal(0), params), PX(0) == 0]
            loops_.oblige('lemma[%s: prefix sum of the padded row at 1 is the empty prefix sum of the data (base)]' % tag, 'lemma', z3.Implies(z3.And(*base), PS(z3.IntVal(1)) == PX(0)))
            step = [sums.unfold(ent, k + 1, params), PX(k + 1) == PX(k) + xat(k), k >= 0, k < Ln.z, PS(k + 1) == PX(k)]
            loops_.oblige('lemma[%s: prefix sum of the padded row at k+2 is the prefix sum of the data at k+1 (step)]' % tag, 'lemma', z3.Implies(z3.And(*step), PS(k + 2) == PX(k + 1)))
            facts += [PS(j + w.z + 1) == PX(j + w.z), PS(j + 1) == PX(j)]      # the lemma at the two points the result reads (both <= L)
        loops_.oblige('post[%s: out[j] == PX(j + w) - PX(j), the sum of samples j .. j+w-1]' % tag, 'post', z3.Implies(z3.And(*facts) if facts else z3.BoolVal(False), z3.And(fin(out.at(*idx)), ov == PX(j + w.z) - PX(j))))
        loops_.oblige('post[%s: moving_mean == that sum / w]' % tag, 'post', z3.Implies(z3.And(*facts) if facts else z3.BoolVal(False), mv * z3.ToReal(w.z) == PX(j + w.z) - PX(j)))
        return len(used)
    for p, outc, exc in core.explore(body):
        if exc is not None:
            rep.obligation('post[%s]' % tag, fn, 'post', dict(result='sat', backend='exec', secs=0), sample=repr(exc)); rep.violation('post[%s]' % tag, fn, 'raises %r' % (exc,), case, None, *native(case)); continue
        if not outc: rep.errors.append('%s: the result mentions no prefix sum (the contract does not apply to this code shape)' % tag)
        for ob in p.obligations:
            res = solve.discharge(ob['pc'], ob['goal'], timeout_ms=timeout)
            rep.obligation(ob['name'], fn, ob['kind'], res, sample='length, window and the other extents symbolic')
            if res['result'] == 'sat': rep.violation(ob['name'], fn, ob['name'], case, str(res['model'])[:400], *native(case))

# --------------------------------------------------------------------------- pattern detection
def abstract_lemmas(rep, timeout):
    """the last step from the ring identities to the property's wording, over abstract reals"""
    s0, s1, n, d = z3.Reals('s0 s1 n d'); ab = lambda x: z3.If(x >= 0, x, -x)
    for nm, hyp, goal in (('lemma[bcdc: sqrt|n| / sqrt|d| is >= 0 and its square times d is n, for n >= 0 < d]', [s0 >= 0, s0 * s0 == ab(n), s1 >= 0, s1 * s1 == ab(d), n >= 0, d > 0], z3.And(s0 / s1 >= 0, (s0 / s1) * (s0 / s1) * d == n)),
                          ('lemma[distance: sqrt|q| is >= 0 and its square is q, for q >= 0]', [s0 >= 0, s0 * s0 == ab(n), n >= 0], z3.And(s0 >= 0, s0 * s0 == n))):
        rep.obligation(nm, PD + '::bcdc' if 'bcdc' in nm else PD + '::distance', 'lemma', solve.discharge(hyp, goal, timeout_ms=timeout, nra=True))

def pattern(u, rep, op, Lt, n, dtype, timeout):
    fn = PD + '::' + op; tag = '%s,len(trace)=%d,len(pattern)=%d,%s' % (op, Lt, n, dtype); case = dict(kind='pattern', op=op, L=Lt, n=n, dtype=dtype)
    def body():
        core.SQRT_ARGS.clear(); T = inp('T', (Lt,), dtype); Pn = inp('P', (n,), dtype)
        return T, Pn, getattr(u.pd, op)(T, Pn)
    isint = _rnp.dtype(dtype).kind != 'f'
    def rand_inputs(rnd): return dict(trace=[rnd.randint(-9, 9) * (1 if isint else 0.5) for _ in range(Lt)], pattern=[rnd.randint(-9, 9) * (1 if isint else 0.5) for _ in range(n)])
    for p, outc, exc in core.explore(body):
        if exc is not None:
            rep.obligation('post[%s]' % tag, fn, 'post', dict(result='sat', backend='exec', secs=0), sample=repr(exc)); rep.violation('post[%s]' % tag, fn, 'raises %r' % (exc,), case, None, *native(case)); continue
        T, Pn, out = outc
        nm = 'post[%s: every position == the per-window definition]' % tag
        if tuple(out.shape) != (Lt - n + 1,):
            rep.obligation(nm, fn, 'post', dict(result='sat', backend='exec', secs=0), sample='shape %s' % (out.shape,)); rep.violation(nm, fn, 'shape %s, expected (%d,)' % (out.shape, Lt - n + 1), case, None, *native(case)); continue
        pairs = []; fins = []
        ys = [rv(Pn.at(t)) for t in range(n)]; S = lambda terms: z3.Sum(*terms) if len(terms) > 1 else terms[0]; my = S(ys) / n
        outs = [out.at(k) for k in range(Lt - n + 1)]; args = list(core.SQRT_ARGS)
        for k in range(Lt - n + 1):
            xs = [rv(T.at(k + t)) for t in range(n)]; mx = S(xs) / n; o = outs[k]; ov = rv(o)
            if op == 'correlation':
                a = match_atom(args, S([(x - mx) * (x - mx) for x in xs])); b = match_atom(args, S([(y - my) * (y - my) for y in ys]))
                pairs.append((k, ov, S([(x - mx) * (y - my) for x, y in zip(xs, ys)]) / (core._SQRT(a) * core._SQRT(b)) if a is not None and b is not None else None))
                if a is not None and b is not None: fins.append(z3.Implies(z3.And(a > 0, b > 0), fin(o)))
            elif op == 'distance':
                a = match_atom(args, S([(x - y) * (x - y) for x, y in zip(xs, ys)])); pairs.append((k, ov, core._SQRT(a) if a is not None else None)); fins.append(fin(o))
            elif op == 'bcdc':
                dm = S([x - y for x, y in zip(xs, ys)]) / n; sm = S([x + y for x, y in zip(xs, ys)]) / n
                vd = S([(x - y - dm) * (x - y - dm) for x, y in zip(xs, ys)]) / n; vs = S([(x + y - sm) * (x + y - sm) for x, y in zip(xs, ys)]) / n
                a = match_atom(args, vd); b = match_atom(args, vs)
                pairs.append((k, ov, core._SQRT(a) / core._SQRT(b) if a is not None and b is not None else None))
                if b is not None: fins.append(z3.Implies(b > 0, fin(o)))
        ring(rep, nm, fn, pairs, case, rand_inputs, sample='%d windows: value == Pearson / Euclid / BCDC expression over the square roots of the naive sums (ring identity); scipy.signal.correlate under its assumed contract' % len(pairs))
        res = solve.discharge(p.pc, z3.And(*fins) if fins else z3.BoolVal(True), extra=core.sqrt_axioms(pairs=False), timeout_ms=timeout, nra=True)
        nf = 'post[%s: finite whenever the denominators are non-zero]' % tag
        rep.obligation(nf, fn, 'post', res)
        if res['result'] == 'sat':
            m_ = res['model']; tv = [mfloat(m_, H._term(T.at(k))) for k in range(Lt)]; pv = [mfloat(m_, H._term(Pn.at(k))) for k in range(n)]
            c2 = dict(case, trace=tv, pattern=pv); rep.violation(nf, fn, 'trace %s pattern %s' % (tv, pv), c2, str(m_)[:300], *native(c2))

# --------------------------------------------------------------------------- pad / extract
def pad_case(u, rep, shape, target, timeout):
    fn = BS + '::pad'; tag = 'shape=%s,target=%s' % (shape, target); case = dict(kind='pad', shape=list(shape), target=list(target))
    def body():
        A = inp('A', shape, 'float32'); offs = [core.sym_int('o%d' % k, 0, target[k] - shape[k]) for k in range(len(shape))]
        pw = SFloat(z3.Real('padv'), 'float32')
        return A, offs, pw, u.bs.pad(A, list(target), offs, pw)
    for p, outc, exc in core.explore(body):
        nm = 'post[pad,%s: the array sits at the offsets, every other cell holds pad_with]' % tag
        if exc is not None:
            rep.obligation(nm, fn, 'post', dict(result='sat', backend='exec', secs=0), sample=repr(exc)); rep.violation(nm, fn, 'raises %r' % (exc,), case, None, *native(case)); continue
        A, offs, pw, out = outc
        if tuple(out.shape) != tuple(target):
            rep.obligation(nm, fn, 'post', dict(result='sat', backend='exec', secs=0), sample=str(out.shape)); rep.violation(nm, fn, 'shape %s' % (out.shape,), case, None, *native(case)); continue
        goals = []
        for pos in itertools.product(*[range(d) for d in target]):
            inside = z3.And(*[z3.And(zi(offs[k]) <= pos[k], pos[k] < zi(offs[k]) + shape[k]) for k in range(len(shape))])
            src = rv(A.at(*[SInt(z3.IntVal(pos[k]) - zi(offs[k])) for k in range(len(shape))]))
            goals.append(rv(out.at(*pos)) == z3.If(inside, src, pw.v))
        res = solve.discharge(p.pc, z3.And(*goals), timeout_ms=timeout)
        rep.obligation(nm, fn, 'post', res, sample='%d cells, symbolic offsets and fill value' % len(goals))
        if res['result'] == 'sat':
            m_ = res['model']; c2 = dict(case, offsets=[int(solve.mval(m_, zi(o))) for o in offs]); rep.violation(nm, fn, 'offsets %s' % c2['offsets'], c2, str(m_)[:300], *native(c2))
    # refusal: an array that does not fit
    for p, outc, exc in core.explore(lambda: u.bs.pad(inp('A', shape, 'float32'), [d - 1 for d in shape])):
        ok = isinstance(exc, ValueError)
        rep.obligation('raises[pad: target smaller than the array refused]', fn, 'raises', dict(result='unsat' if ok else 'sat', backend='exec', secs=0))
        if not ok: rep.violation('raises[pad: target smaller than the array refused]', fn, 'outcome %r' % (exc,), case, None, None)

def extract_case(u, rep, Ld, ni, before, after, timeout):
    fn = PK + '::extract_around_indexes'; tag = 'len=%d,%d indexes,before=%d,after=%d' % (Ld, ni, before, after); case = dict(kind='extract', L=Ld, ni=ni, before=before, after=after)
    for mode in ('STACK', 'CONCATENATE', 'AVERAGE'):
        def body():
            D = inp('D', (Ld,), 'float64'); I = H.sym_ints('I', (ni,), 'int64')
            for k in range(ni): core.assume(z3.And(core.zi(I.at(k).as_int()) >= before, core.zi(I.at(k).as_int()) < Ld - after))
            return D, I, u.pk.extract_around_indexes(D, I, before, after, getattr(u.pk.ExtractMode, mode))
        for p, outc, exc in core.explore(body):
            nm = 'post[extract_around_indexes,%s,%s: row j holds data[indexes[j]-before .. indexes[j]+after]]' % (tag, mode)
            if exc is not None:
                rep.obligation(nm, fn, 'post', dict(result='sat', backend='exec', secs=0), sample=repr(exc)); rep.violation(nm, fn, 'raises %r' % (exc,), dict(case, mode=mode), None, *native(dict(case, mode=mode))); continue
            D, I, out = outc; wdt = before + after + 1
            exp = lambda j, t: rv(D.at(SInt(core.zi(I.at(j).as_int()) - before + t)))
            es = {'STACK': (ni, wdt), 'CONCATENATE': (ni * wdt,), 'AVERAGE': (wdt,)}[mode]
            if tuple(out.shape) != es:
                rep.obligation(nm, fn, 'post', dict(result='sat', backend='exec', secs=0), sample=str(out.shape)); rep.violation(nm, fn, 'shape %s expected %s' % (out.shape, es), dict(case, mode=mode), None, *native(dict(case, mode=mode))); continue
            goals = []
            for j in range(ni):
                for t in range(wdt):
                    if mode == 'STACK': goals.append(rv(out.at(j, t)) == exp(j, t))
                    elif mode == 'CONCATENATE': goals.append(rv(out.at(j * wdt + t)) == exp(j, t))
            if mode == 'AVERAGE':
                for t in range(wdt): goals.append(rv(out.at(t)) * ni == z3.Sum(*[exp(j, t) for j in range(ni)]))
            res = solve.discharge(p.pc, z3.And(*goals), timeout_ms=timeout)
            rep.obligation(nm, fn, 'post', res, sample='symbolic indexes in [before, len - after)')
            if res['result'] == 'sat':
                m_ = res['model']; c2 = dict(case, mode=mode, indexes=[int(solve.mval(m_, core.zi(I.at(k).as_int()))) for k in range(ni)]); rep.violation(nm, fn, 'indexes %s' % c2['indexes'], c2, str(m_)[:300], *native(c2))

# --------------------------------------------------------------------------- find_peaks / find_width
def peaks(u, rep, Ld, hmode, dtype, timeout):
    fn = PK + '::find_peaks'; tag = 'len=%d,height %s,%s' % (Ld, hmode, dtype); case = dict(kind='peaks', L=Ld, hmode=hmode, dtype=dtype)
    def body():
        D = inp('D', (Ld,), dtype); d = core.sym_int('dist', 0, Ld + 1)
        h = SFloat(z3.Real('height'), 'float64') if hmode == 'symbolic' else -float('inf')
        return D, d, h, u.pk.find_peaks(D, d, h)
    nm = 'post[find_peaks,%s: survivors are candidates, pairwise >= distance apart; every dropped candidate has a candidate closer than distance at least as high]' % tag
    npaths = 0
    for p, outc, exc in core.explore(body, max_paths=400000):
        npaths += 1
        if exc is not None:
            rep.obligation(nm, fn, 'post', dict(result='sat', backend='exec', secs=0), sample=repr(exc)); rep.violation(nm, fn, 'raises %r' % (exc,), case, None, *native(case)); continue
        D, d, h, out = outc
        R_ = [int(core.conc(H._term(out.at(k)))) if core.conc(H._term(out.at(k))) is not None else None for k in range(out.shape[0])]
        if None in R_: raise core.NeedsContract('find_peaks returned a symbolic index')
        x = [rv(D.at(k)) for k in range(Ld)]; dz = zi(d)
        hv = (lambda k: x[k] >= h.v) if hmode == 'symbolic' else (lambda k: z3.BoolVal(True))
        cand = [z3.And(hv(k), x[k] >= x[k - 1] if k > 0 else True, x[k] >= x[k + 1] if k < Ld - 1 else True) for k in range(Ld)]
        goals = [cand[r] for r in R_] + [z3.IntVal(abs(a - b)) >= dz for a, b in itertools.combinations(R_, 2)]
        goals += [z3.BoolVal(sorted(set(R_)) == R_)]
        for c in range(Ld):
            if c not in R_: goals.append(z3.Implies(cand[c], z3.Or(*[z3.And(cand[o], z3.IntVal(abs(o - c)) < dz, x[o] >= x[c]) for o in range(Ld) if o != c])))
        res = solve.discharge(p.pc, z3.And(*goals), timeout_ms=timeout)
        rep.obligation(nm, fn, 'post', res, sample='one obligation per path of the mask and of the elimination scan; symbolic data, distance%s' % (', height' if hmode == 'symbolic' else ''))
        if res['result'] == 'sat':
            m_ = res['model']; dv = [mfloat(m_, t) for t in x]; c2 = dict(case, data=[int(v) for v in dv] if dtype != 'float64' else dv, distance=int(solve.mval(m_, dz)), height=(mfloat(m_, h.v) if hmode == 'symbolic' else '-inf'))
            rep.violation(nm, fn, 'data %s distance %s height %s returns %s' % (dv, c2['distance'], c2['height'], R_), c2, str(m_)[:300], *native(c2))
    rep.notes.append('find_peaks %s: %d paths' % (tag, npaths)) if hasattr(rep, 'notes') else None

def width(u, rep, Ld, direction, bound, timeout):
    fn = PK + '::find_width'; tag = 'len=%d,%s,%s' % (Ld, direction, bound); case = dict(kind='width', L=Ld, direction=direction, bound=bound)
    def body():
        D = inp('D', (Ld,), 'float64'); thr = SFloat(z3.Real('thr'), 'float64'); mn = core.sym_int('minw', 1, Ld + 1)
        mx = core.sym_int('maxw', 1, Ld + 1) if bound == 'max' else None
        dl = core.sym_int('delta', 1, Ld + 1) if bound == 'delta' else None
        if dl is not None: core.assume(zi(dl) < zi(mn))
        return D, thr, mn, mx, dl, u.pk.find_width(D, getattr(u.pk.Direction, direction), thr, mn, max_width=mx, delta=dl)
    nm = 'post[find_width,%s: rows == exactly the bracketed maximal runs strictly beyond the threshold within the width bounds, as [first, after last]]' % tag
    for p, outc, exc in core.explore(body, max_paths=400000):
        if exc is not None:
            rep.obligation(nm, fn, 'post', dict(result='sat', backend='exec', secs=0), sample=repr(exc)); rep.violation(nm, fn, 'raises %r' % (exc,), case, None, *native(case)); continue
        D, thr, mn, mx, dl, out = outc
        rows = []
        if out.ndim != 2 or (out.shape[0] and out.shape[1] != 2):
            rep.obligation(nm, fn, 'post', dict(result='sat', backend='exec', secs=0), sample=str(out.shape)); rep.violation(nm, fn, 'shape %s' % (out.shape,), case, None, *native(case)); continue
        for k in range(out.shape[0]):
            a, b = core.conc(H._term(out.at(k, 0))), core.conc(H._term(out.at(k, 1)))
            if a is None or b is None: raise core.NeedsContract('find_width returned a symbolic index')
            rows.append((int(a), int(b)))
        x = [rv(D.at(k)) for k in range(Ld)]
        beyond = [(x[k] > thr.v) if direction == 'POSITIVE' else (x[k] < thr.v) for k in range(Ld)]
        goals = [z3.BoolVal(sorted(set(rows)) == rows)]
        for s in range(1, Ld):
            for e in range(s + 1, Ld):
                ln = e - s
                okw = ln >= zi(mn)
                if mx is not None: okw = z3.And(okw, ln <= zi(mx))
                elif dl is not None: okw = z3.And(ln >= zi(mn) - zi(dl), ln <= zi(mn) + zi(dl))
                run = z3.And(z3.Not(beyond[s - 1]), z3.Not(beyond[e]), *[beyond[k] for k in range(s, e)])
                goals.append(z3.And(run, okw) == z3.BoolVal((s, e) in rows))
        goals.append(z3.BoolVal(all(1 <= s < e <= Ld - 1 for s, e in rows)))
        res = solve.discharge(p.pc, z3.And(*goals), timeout_ms=timeout)
        rep.obligation(nm, fn, 'post', res, sample='one obligation per path of the threshold mask and width comparisons; symbolic data, threshold, widths')
        if res['result'] == 'sat':
            m_ = res['model']; dv = [mfloat(m_, t) for t in x]
            c2 = dict(case, data=dv, threshold=mfloat(m_, thr.v), min_width=int(solve.mval(m_, zi(mn))), max_width=(int(solve.mval(m_, zi(mx))) if mx is not None else None), delta=(int(solve.mval(m_, zi(dl))) if dl is not None else None))
            rep.violation(nm, fn, 'data %s threshold %s widths %s/%s/%s returns %s' % (dv, c2['threshold'], c2['min_width'], c2['max_width'], c2['delta'], rows), c2, str(m_)[:300], *native(c2))

def main():
    ap = argparse.ArgumentParser(); ap.add_argument('--tier', default=os.environ.get('VERIF_TIER', 'quick')); ap.add_argument('--replay')
    a = ap.parse_args(); seed = int(os.environ.get('VERIF_SEED', '0'))
    if a.replay:
        rp, o = native(json.load(open(a.replay))['case']); print(o); sys.exit(1 if rp else 0)
    rep = R.Report('C19', a.tier, seed); timeout = solve.TIMEOUT_MS[a.tier]
    R.prefetch_native('props.c19_native', ['bounded', str(seed), a.tier])      # the stand-in runs while the obligations are discharged
    u = Under(); q = a.tier == 'quick'
    for m, names in ((MO, ['moving_sum', 'moving_mean', 'moving_var', 'moving_std', 'moving_skew', 'moving_kurtosis', '_moving_argument_check']), (PD, ['correlation', 'distance', 'bcdc', '_check_and_cast_args']),
                     (PK, ['find_peaks', '_find_peaks_numba_core', 'find_width', '_check_find_width_args', 'extract_around_indexes', '_check_data']), (BS, ['pad', 'cast_array'])):
        for n in names: rep.function(m + '::' + n, u.ld.fn_hash.get(m + '::' + n))
    units = []
    for op in ('sum', 'mean', 'var', 'std', 'skew', 'kurtosis'):
        for Ln in ((1, 2, 3, 4, 5) if q else range(1, 8)):
            for w in range(1, Ln + 1):
                if op in ('skew', 'kurtosis') and (w > 4 or (q and Ln > 4) or w == 1): continue      # w == 1: the window variance is identically 0, the statistic is undefined
                units.append(('moving', op, (Ln,), -1, w, 'float64'))
        for shape, axis in (((2, 3), 0), ((2, 3), 1), ((3, 2), -2), ((3, 3), 1)):
            for w in range(2 if op in ('skew', 'kurtosis') else 1, shape[axis] + 1): units.append(('moving', op, shape, axis, w, 'float32' if op in ('sum', 'mean') else 'float64'))
    units += [('moving', 'sum', (2, 2, 3), 2, 2, 'float64'), ('moving', 'mean', (2, 3, 2), -1, 2, 'float64'), ('moving', 'var', (2, 3, 2), 1, 2, 'float64'), ('moving', 'sum', (3, 2, 2), 0, 3, 'float32'), ('moving', 'std', (2, 1, 3), -1, 3, 'float64'),
              ('moving', 'sum', (4,), 0, 2, 'uint8'), ('moving', 'mean', (4,), 0, 3, 'int16'), ('moving', 'var', (3,), 0, 2, 'uint8')]
    for op in ('correlation', 'distance', 'bcdc'):
        for Lt in ((2, 3, 4) if q else (2, 3, 4, 5, 6)):
            for n in range(1, Lt):
                if n > 3 or (n == 1 and op in ('correlation', 'bcdc')): continue      # a one-sample pattern has zero variance: correlation / bcdc undefined
                units.append(('pattern', op, Lt, n, 'float64'))
        units.append(('pattern', op, 3, 2, 'int16'))
    units += [('msinv', 1, -1, 'float64'), ('msinv', 1, 0, 'float32'), ('msinv', 2, 0, 'float64'), ('msinv', 2, 1, 'float64'), ('msinv', 3, 1, 'float32'), ('msinv', 1, 0, 'uint8')]
    units += [('pad', (2,), (4,)), ('pad', (2, 2), (3, 4)), ('pad', (1, 2, 1), (2, 3, 2)), ('pad', (3,), (3,))]
    units += [('extract', 6, 2, 1, 1), ('extract', 7, 3, 2, 0), ('extract', 5, 1, 0, 2), ('extract', 5, 2, 0, 0)]
    for Ld in ((1, 2, 3, 4, 5) if q else (1, 2, 3, 4, 5, 6, 7)):
        units.append(('peaks', Ld, 'none', 'float64'))
        if Ld <= (4 if q else 5): units.append(('peaks', Ld, 'symbolic', 'float64'))
        if 2 <= Ld <= 4: units += [('peaks', Ld, 'none', 'uint8'), ('peaks', Ld, 'none', 'int8')]
    for Ld in ((1, 2, 3, 4, 5) if q else (1, 2, 3, 4, 5, 6, 7)):
        for direction in ('POSITIVE', 'NEGATIVE'):
            for bound in ('none', 'max', 'delta'):
                if bound != 'none' and Ld > (5 if q else 6): continue
                units.append(('width', Ld, direction, bound))
    def work(sub, kind, *args):
        {'msinv': moving_sum_inv, 'moving': moving, 'pattern': pattern, 'pad': pad_case, 'extract': extract_case, 'peaks': peaks, 'width': width}[kind](u, sub, *args, timeout)
    heavy = [x for x in units if x[0] in ('peaks', 'width')]; light = [x for x in units if x[0] not in ('peaks', 'width')]
    groups = [(x,) for x in sorted(heavy, key=lambda x: -x[1])] + [tuple(light[i:i + 6]) for i in range(0, len(light), 6)]
    def wg(sub, *g):
        for x in g:
            try: work(sub, *x)
            except polyid.Unsupported as e: raise core.Undecided('ring normaliser: unsupported %s (unit %s)' % (e, x))
    P.run_units(rep, wg, groups)
    abstract_lemmas(rep, timeout)
    rc, o, so, se = R.run_native('props.c19_native', ['bounded', str(seed), a.tier], timeout=2400)
    if o is None: rep.errors.append('native stand-in failed: %s %s' % (so[-400:], se[-900:]))
    else:
        rep.bounded.append(dict(function='scared.signal_processing under /venv/bin/python (real numba, real scipy) vs naive references', bound=o['bound'], evaluations=o['evaluations'], distinct=o['evaluations'], exhaustive=o.get('exhaustive', False), failures=o['failures']))
        for f in o['failing'][:3]: rep.violation('bounded[native,%s]' % f.get('kind'), f.get('function', PK), f.get('detail', 'differs'), f, None, True, f)
    rep.assume('A1', 'A4', 'A6', 'T-pyvc')
    rep.trust('ring normaliser (pyvc/polyid.py): sympy expand / together / polynomial remainder decide the rational-function identities', 'scipy.signal.correlate(a, b, "valid")[k] == sum_t a[k+t] b[t] (assumed contract on the dependency; the native stand-in runs the real scipy)', 'numba.njit compiles _find_peaks_numba_core with the semantics of the Python source (the prover executes the Python source; the native stand-in runs the compiled function)')
    rep.not_decided.append('array shapes are case-split (1-D lengths <= 5 quick / 7 thorough, four 2-D shapes, find_peaks / find_width lengths <= 5 / 7): sample values, thresholds, distances, widths, offsets and indexes are symbolic, lengths are not')
    rep.not_decided.append('floating-point rounding (A1): cumsum cancellation in moving_* on long arrays is outside the model')
    sys.exit(rep.finish('./check C19 --tier %s' % a.tier))

if __name__ == '__main__':
    main()
