"""C09 native side: real threads, real containers."""
import sys, json, random, time
import numpy as np

def ths(n, seed, dtype='float64'):
    import estraces
    rng = np.random.default_rng(seed); s = (rng.normal(size=(n, 8)) * 3 + rng.integers(0, 5)).astype(dtype)
    return estraces.read_ths_from_ram(samples=s), s

def welch_ref(a, b):
    a = a.astype('float64'); b = b.astype('float64')
    return (a.mean(0) - b.mean(0)) / np.sqrt(a.var(0) / len(a) + b.var(0) / len(b))

def case(rnd, delays=False, runs=1):
    import scared
    bs = rnd.choice([1, 2, 3, 7, 50]); scared.set_batch_size(bs)
    try:
        A, B = [], []; an = scared.TTestAnalysis(precision=rnd.choice(['float32', 'float64']))
        def slow(traces):
            if delays: time.sleep(rnd.random() * 0.004)
            return traces * 2.0 + 1.0
        pp = scared.preprocess(slow); frame = rnd.choice([None, slice(1, 6), [5, 0, 3]])
        for r in range(runs):
            n1, n2 = rnd.choice([1, 2, 5, 13, 40]), rnd.choice([1, 3, 8, 21])
            t1, s1 = ths(n1, rnd.randrange(10 ** 6), rnd.choice(['float32', 'float64', 'int16'])); t2, s2 = ths(n2, rnd.randrange(10 ** 6))
            an.run(scared.TTestContainer(t1, t2, frame=frame, preprocesses=[pp]))
            f = (lambda s: s if frame is None else s[:, frame]); A.append(f(s1) * 2.0 + 1.0); B.append(f(s2) * 2.0 + 1.0)
        ref = welch_ref(np.concatenate(A), np.concatenate(B))
        tol = 2e-2 if an.precision == np.dtype('float32') else 1e-8
        if an.result.shape != ref.shape or not np.allclose(an.result, ref, rtol=tol, atol=tol, equal_nan=True): return 'result differs from the Welch statistic (batch %s, %d runs, max diff %r)' % (bs, runs, float(np.nanmax(np.abs(an.result - ref))))
        return None
    finally: scared.set_batch_size(None)

def failure_case(rnd, which, at):
    import scared
    scared.set_batch_size(10)
    try:
        t1, _ = ths(60, 1); t2, _ = ths(60, 2); calls = {'n': 0}
        class MyErr(FloatingPointError): pass
        def bad(traces):
            calls['n'] += 1
            if calls['n'] > at: raise MyErr('nan rejected')
            return traces
        pps = [[], []]; pps[which] = [scared.preprocess(bad)]
        tc = scared.TTestContainer(t1, t2); tc.containers[which] = scared.Container(t1 if which == 0 else t2, preprocesses=pps[which])
        an = scared.TTestAnalysis()
        try: an.run(tc)
        except Exception as e: return None
        return 'a failure in set %d after %d batches is lost: run() returned a result' % (which + 1, at)
    finally: scared.set_batch_size(None)

def big_batch_case(n, bs):
    """one accumulator, batches larger than any internal block size"""
    import scared, estraces
    scared.set_batch_size(bs)
    try:
        rng = np.random.default_rng(n); s1 = rng.integers(-100, 100, size=(n, 3)).astype('int8'); s2 = rng.integers(-100, 100, size=(n // 2 + 7, 3)).astype('int8')
        an = scared.TTestAnalysis(precision='float64'); an.run(scared.TTestContainer(estraces.read_ths_from_ram(samples=s1), estraces.read_ths_from_ram(samples=s2)))
        ref = welch_ref(s1, s2)
        if not np.allclose(an.result, ref, rtol=1e-8, atol=1e-8, equal_nan=True): return 'Welch statistic wrong for %d / %d traces with batch size %s (max diff %r)' % (n, len(s2), bs, float(np.nanmax(np.abs(an.result - ref))))
        return None
    finally: scared.set_batch_size(None)

_WARM = [False]
def timed_failure_case(delay, which):
    """one corrupted (NaN) trace in the second batch of set `which`, rejected by a preprocess that takes `delay` seconds per batch in BOTH threads;
    the other set is long, so its accumulator is still running when the failure happens"""
    import scared, estraces
    scared.set_batch_size(100)
    try:
        rng = np.random.default_rng(5); sets = [rng.normal(0, 1, (300, 6)).astype('float32'), rng.normal(0.1, 1, (1200, 6)).astype('float32')]
        if which == 1: sets = sets[::-1]
        def mk(d):
            def check_finite(traces):
                if len(traces) > 1: time.sleep(d)
                if not np.isfinite(traces).all(): raise ValueError('corrupted trace')
                return traces
            return scared.preprocess(check_finite)
        if not _WARM[0]:      # numba warm-up outside the timed runs
            scared.TTestAnalysis(precision='float64').run(scared.TTestContainer(estraces.read_ths_from_ram(samples=sets[0]), estraces.read_ths_from_ram(samples=sets[1]), preprocesses=[mk(0.0)])); _WARM[0] = True
        bad = [x.copy() for x in sets]; bad[which][117, 3] = np.nan
        an = scared.TTestAnalysis(precision='float64')
        try: an.run(scared.TTestContainer(estraces.read_ths_from_ram(samples=bad[0]), estraces.read_ths_from_ram(samples=bad[1]), preprocesses=[mk(delay)]))
        except Exception: return None
        return 'a corrupted trace in the second batch of set %d (%.0f ms per batch) is lost while the other accumulator is still running: run() returned a result (processed %s)' % (which + 1, delay * 1000, [a_.processed_traces for a_ in an.accumulators])
    finally: scared.set_batch_size(None)

def replay(c):
    rnd = random.Random(4)
    try:
        if c.get('kind') == 'update':
            for n, bs in ((9000, None), (6500, 5000)):
                r = big_batch_case(n, bs)
                if r: return dict(reproduced=True, detail=r)
        if c.get('kind') == 'failure':
            for which in (0, 1):
                for delay in (0.03, 0.07, 0.11):
                    r = timed_failure_case(delay, which)
                    if r: return dict(reproduced=True, detail=r)
            for which in (0, 1):
                for at in (0, 1, 3):
                    r = failure_case(rnd, which, at)
                    if r: return dict(reproduced=True, detail=r)
            return dict(reproduced=False)
        for t in range(40):
            r = case(rnd, delays=(t % 3 == 0), runs=1 + t % 2)
            if r: return dict(reproduced=True, detail=r)
        return dict(reproduced=False)
    except Exception as e: return dict(reproduced=True, detail='raises %r' % (e,))

def bounded(seed, tier):
    rnd = random.Random(seed); fails = []; ev = 0
    for t in range(40 if tier == 'quick' else 400):
        ev += 1
        try: r = case(rnd, delays=(t % 2 == 0), runs=1 + t % 3)
        except Exception as e: r = 'raises %r' % (e,)
        if r: fails.append(dict(kind='welch', detail=r))
    for which in (0, 1):
        for at in (0, 1, 3, 5):
            ev += 1
            try: r = failure_case(rnd, which, at)
            except Exception as e: r = 'raises %r' % (e,)
            if r: fails.append(dict(kind='failure', detail=r))
    for n, bs in ((9000, None), (6500, 5000), (4100, 4099)):
        ev += 1
        try: r = big_batch_case(n, bs)
        except Exception as e: r = 'raises %r' % (e,)
        if r: fails.append(dict(kind='welch', detail=r))
    for which in (0, 1):
        for delay in ((0.03, 0.05, 0.07, 0.09, 0.11, 0.13) if tier == 'quick' else [0.03 + 0.005 * k for k in range(21)]):
            ev += 1
            try: r = timed_failure_case(delay, which)
            except Exception as e: r = 'raises %r' % (e,)
            if r: fails.append(dict(kind='failure', detail=r))
    return dict(evaluations=ev, failures=len(fails), failing=fails[:5], bound='batches of 4100..9000 traces; failures timed against a still-running second accumulator (30..130 ms per batch); random pairs of trace sets (sizes 1..40, integer and float dtypes), batch sizes 1..50, 1-3 consecutive runs, frames, random per-batch delays in the threads, failures injected in either thread after 0..5 batches')

if __name__ == '__main__':
    cmd = sys.argv[1]
    if cmd == 'replay': print(json.dumps(replay(json.loads(sys.stdin.read())), default=str))
    elif cmd == 'bounded': print(json.dumps(bounded(int(sys.argv[2]), sys.argv[3]), default=str))
