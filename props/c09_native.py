"""C09 native side: real threads, real containers."""
import sys, json, random, time
import numpy as np

def ths(n, seed, dtype='float64'):
    import estraces
    rng = np.random.default_rng(seed); s = (rng.normal(size=(n, 8)) * 3 + rng.integers(0, 5)).astype(dtype)
    return estraces.read_ths_from_ram(samples=s), s

def welch_ref(a, b):
    a = a.astype('float64'); b = b.astype('float64')
    return (a.mean(0) - b.mean(0)) / np.sqrt(a.var(0) / len(a) + b.var(0) / len(b))

def case(rnd, delays=False, runs=1):
    import scared
    bs = rnd.choice([1, 2, 3, 7, 50]); scared.set_batch_size(bs)
    try:
        A, B = [], []; an = scared.TTestAnalysis(precision=rnd.choice(['float32', 'float64']))
        def slow(traces):
            if delays: time.sleep(rnd.random() * 0.004)
            return traces * 2.0 + 1.0
        pp = scared.preprocess(slow); frame = rnd.choice([None, slice(1, 6), [5, 0, 3]])
        for r in range(runs):
            n1, n2 = rnd.choice([1, 2, 5, 13, 40]), rnd.choice([1, 3, 8, 21])
            t1, s1 = ths(n1, rnd.randrange(10 ** 6), rnd.choice(['float32', 'float64', 'int16'])); t2, s2 = ths(n2, rnd.randrange(10 ** 6))
            an.run(scared.TTestContainer(t1, t2, frame=frame, preprocesses=[pp]))
            f = (lambda s: s if frame is None else s[:, frame]); A.append(f(s1) * 2.0 + 1.0); B.append(f(s2) * 2.0 + 1.0)
        ref = welch_ref(np.concatenate(A), np.concatenate(B))
        tol = 2e-2 if an.precision == np.dtype('float32') else 1e-8
        if an.result.shape != ref.shape or not np.allclose(an.result, ref, rtol=tol, atol=tol, equal_nan=True): return 'result differs from the Welch statistic (batch %s, %d runs, max diff %r)' % (bs, runs, float(np.nanmax(np.abs(an.result - ref))))
        return None
    finally: scared.set_batch_size(None)

def failure_case(rnd, which, at):
    import scared
    scared.set_batch_size(10)
    try:
        t1, _ = ths(60, 1); t2, _ = ths(60, 2); calls = {'n': 0}
        class MyErr(FloatingPointError): pass
        def bad(traces):
            calls['n'] += 1
            if calls['n'] > at: raise MyErr('nan rejected')
            return traces
        pps = [[], []]; pps[which] = [scared.preprocess(bad)]
        tc = scared.TTestContainer(t1, t2); tc.containers[which] = scared.Container(t1 if which == 0 else t2, preprocesses=pps[which])
        an = scared.TTestAnalysis()
        try: an.run(tc)
        except Exception as e: return None
        return 'a failure in set %d after %d batches is lost: run() returned a result' % (which + 1, at)
    finally: scared.set_batch_size(None)

def replay(c):
    rnd = random.Random(4)
    try:
        if c.get('kind') == 'failure':
            for which in (0, 1):
                for at in (0, 1, 3):
                    r = failure_case(rnd, which, at)
                    if r: return dict(reproduced=True, detail=r)
            return dict(reproduced=False)
        for t in range(40):
            r = case(rnd, delays=(t % 3 == 0), runs=1 + t % 2)
            if r: return dict(reproduced=True, detail=r)
        return dict(reproduced=False)
    except Exception as e: return dict(reproduced=True, detail='raises %r' % (e,))

def bounded(seed, tier):
    rnd = random.Random(seed); fails = []; ev = 0
    for t in range(40 if tier == 'quick' else 400):
        ev += 1
        try: r = case(rnd, delays=(t % 2 == 0), runs=1 + t % 3)
        except Exception as e: r = 'raises %r' % (e,)
        if r: fails.append(dict(kind='welch', detail=r))
    for which in (0, 1):
        for at in (0, 1, 3, 5):
            ev += 1
            try: r = failure_case(rnd, which, at)
            except Exception as e: r = 'raises %r' % (e,)
            if r: fails.append(dict(kind='failure', detail=r))
    return dict(evaluations=ev, failures=len(fails), failing=fails[:5], bound='random pairs of trace sets (sizes 1..40, integer and float dtypes), batch sizes 1..50, 1-3 consecutive runs, frames, random per-batch delays in the threads, failures injected in either thread after 0..5 batches')

if __name__ == '__main__':
    cmd = sys.argv[1]
    if cmd == 'replay': print(json.dumps(replay(json.loads(sys.stdin.read())), default=str))
    elif cmd == 'bounded': print(json.dumps(bounded(int(sys.argv[2]), sys.argv[3]), default=str))
