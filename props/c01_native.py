"""C01 native side: every ordered partition of a small trace set into consecutive non-empty batches, compute() interleaved."""
import sys, json, random, itertools
import numpy as np

def compositions(n):
    for k in range(1 << (n - 1)):
        parts = []; cur = 1
        for b in range(n - 1):
            if k >> b & 1: parts.append(cur); cur = 1
            else: cur += 1
        parts.append(cur); yield parts

def make(kind, precision):
    import scared
    from scared.distinguishers import template, partitioned
    if kind == 'CPA': return scared.CPADistinguisher(precision=precision)
    if kind == 'CPAAlt': return scared.CPAAlternativeDistinguisher(precision=precision)
    if kind == 'DPA': return scared.DPADistinguisher(precision=precision)
    if kind in ('ANOVA', 'NICV', 'SNR'): return getattr(scared, kind + 'Distinguisher')(partitions=range(4), precision=precision)
    if kind == 'SNR12': return scared.SNRDistinguisher(partitions=range(12), precision=precision)
    if kind == 'MIA': return scared.MIADistinguisher(bins_number=4, bin_edges=np.linspace(-40, 40, 5), partitions=range(4), precision=precision)
    if kind == 'TemplateBuild': return type('TB', (partitioned.PartitionedDistinguisherBase, template._TemplateBuildDistinguisherMixin), {})(partitions=range(4), precision=precision)
    if kind == 'ttest':
        import scared.ttest as tt
        return tt.TTestThreadAccumulator(precision=precision)
    raise KeyError(kind)

def feed(d, kind, X, Y, parts, interleave):
    pos = 0; outs = []
    for k in parts:
        if kind == 'ttest': d.update(X[pos:pos + k])
        else: d.update(X[pos:pos + k], Y[pos:pos + k])
        pos += k
        if interleave:
            if kind == 'ttest': d.compute(); outs.append((d.mean.copy(), d.var.copy()))
            else: outs.append(d.compute().copy())
    if kind == 'ttest':
        d.compute(); r1 = np.stack([d.mean, d.var]); d.compute(); r2 = np.stack([d.mean, d.var])
    else: r1 = d.compute(); r2 = d.compute()
    extra = {}
    if kind == 'TemplateBuild': extra['cov'] = d.pooled_covariance.copy()
    return r1, r2, extra

def case(kind, precision, X, Y, parts, interleave):
    one, one2, ex1 = feed(make(kind, precision), kind, X, Y, [len(X)], False)
    r1, r2, ex2 = feed(make(kind, precision), kind, X, Y, parts, interleave)
    tol = dict(rtol=2e-3, atol=2e-3) if precision == 'float32' else dict(rtol=1e-9, atol=1e-9)
    if not np.array_equal(r1, r2, equal_nan=True): return 'asking twice gives different answers'
    if r1.shape != one.shape or not np.allclose(r1, one, equal_nan=True, **tol): return 'split %s differs from one batch (max diff %r)' % (parts, float(np.nanmax(np.abs(r1 - one))) if r1.shape == one.shape else 'shape')
    for k in ex1:
        if not np.allclose(ex1[k], ex2[k], equal_nan=True, **tol): return 'split %s: %s differs' % (parts, k)
    return None

def data(rnd, kind, n):
    S, W = 3, (1 if kind == 'TemplateBuild' else 2)
    tdt = rnd.choice(['uint8', 'int16', 'float32', 'float64'])
    X = np.array([[rnd.randint(-30, 30) if tdt != 'uint8' else rnd.randint(0, 60) for _ in range(S)] for _ in range(n)]).astype(tdt)
    hi = 2 if kind == 'DPA' else (12 if kind == 'SNR12' else 4)
    Y = np.array([[rnd.randrange(hi) for _ in range(W)] for _ in range(n)], dtype='uint8')
    return X, Y

KINDS = ['CPA', 'CPAAlt', 'DPA', 'ANOVA', 'NICV', 'SNR', 'SNR12', 'MIA', 'TemplateBuild', 'ttest']

def replay(c):
    rnd = random.Random(3); kinds = [c['dist']] if c.get('dist') in KINDS else KINDS
    for kind in kinds:
        for n in (2, 3):
            X, Y = data(rnd, kind, n)
            for parts in compositions(n):
                for prec in ('float64', 'float32'):
                    try: r = case(kind, prec, X, Y, parts, True)
                    except Exception as e: r = 'raises %r' % (e,)
                    if r: return dict(reproduced=True, dist=kind, detail=r, X=X.tolist(), Y=Y.tolist())
    return dict(reproduced=False)

def bounded(seed, tier):
    rnd = random.Random(seed); fails = []; ev = 0
    nmax = 5 if tier == 'quick' else 7
    for kind in KINDS:
        for n in range(1, nmax + 1):
            X, Y = data(rnd, kind, n)
            comps = list(compositions(n))
            if tier == 'quick' and len(comps) > 8: comps = rnd.sample(comps, 8)
            for parts in comps:
                prec = rnd.choice(['float32', 'float64']); ev += 1
                try: r = case(kind, prec, X, Y, parts, rnd.random() < 0.5)
                except Exception as e: r = 'raises %r' % (e,)
                if r: fails.append(dict(dist=kind, function='scared.distinguishers', precision=prec, parts=parts, detail=r, X=X.tolist(), Y=Y.tolist()))
        if tier != 'quick':
            for t in range(10):
                n = rnd.randint(20, 200); X, Y = data(rnd, kind, n); parts = []; left = n
                while left: k = rnd.randint(1, left); parts.append(k); left -= k
                ev += 1
                try: r = case(kind, rnd.choice(['float32', 'float64']), X, Y, parts, True)
                except Exception as e: r = 'raises %r' % (e,)
                if r: fails.append(dict(dist=kind, function='scared.distinguishers', parts=parts, detail=r))
    return dict(evaluations=ev, failures=len(fails), failing=fails[:5], exhaustive=(tier != 'quick'), bound='ordered partitions of N <= %d traces (%s), 10 distinguisher configurations incl. > 9 classes, compute() interleaved, float32 and float64, integer and float traces' % (nmax, 'sampled' if tier == 'quick' else 'all'))

if __name__ == '__main__':
    cmd = sys.argv[1]
    if cmd == 'replay': print(json.dumps(replay(json.loads(sys.stdin.read())), default=str))
    elif cmd == 'bounded': print(json.dumps(bounded(int(sys.argv[2]), sys.argv[3]), default=str))
