"""C10 native side: replay + bounded stand-ins (real scared under /venv/bin/python vs specs)."""
import sys, json, random
import numpy as np
from specs import fips197 as F, fips46 as D

TOTAL = {16: 44, 24: 52, 32: 60}

def aes_expansion_expected(key, kl, col_in, col_out):
    """key = window bytes W[col_in:col_in+nk]; grow the FIPS recurrence in both directions"""
    nk = kl // 4; total = TOTAL[kl]; co = total if col_out is None else col_out
    fwd = col_in < co; lo, hi = (col_in, co) if fwd else (co, col_in + nk)
    W = {col_in + k: list(key[4 * k:4 * k + 4]) for k in range(nk)}
    i = col_in + nk
    while i < hi: W[i] = F.next_word(W[i - nk], W[i - 1], i, nk); i += 1
    j = col_in - 1
    while j >= lo: i = j + nk; W[j] = F.prev_word(W[i], W[i - 1], i, nk); j -= 1
    return [b for c in range(lo, hi) for b in W[c]]

def exp_case(aes, kl, col_in, col_out, keys):
    k = np.array(keys, dtype='uint8'); k0 = k.copy()
    out = aes.key_expansion(k, col_in=col_in, col_out=col_out)
    if not np.array_equal(k, k0): return True, 'caller key modified'
    exp = np.array([aes_expansion_expected([int(v) for v in row], kl, col_in, col_out) for row in k.reshape(-1, kl)], dtype='uint8')
    if out.shape != exp.shape: return True, 'shape %s expected %s' % (out.shape, exp.shape)
    return (not np.array_equal(out, exp)), 'got %s expected %s' % (out.tolist()[:1], exp.tolist()[:1])

def des_sched_case(des, key, iar, dtype='uint8'):
    k = np.array(key, dtype=dtype)
    out = des.key_schedule(k) if iar is None else des.key_schedule(k, interrupt_after_round=iar)
    nr = 16 if iar is None else iar + 1
    exp = np.array([D.round_keys_words([int(v) for v in row])[:nr] for row in k.reshape(-1, 8)], dtype='uint8')
    if k.ndim == 1: exp = exp[0]
    if out.shape != exp.shape: return True, 'shape %s expected %s' % (out.shape, exp.shape)
    return (not np.array_equal(out, exp)), 'differs'

def master_case(des, key, r, pt):
    """get_master_key from round key r and one pair returns the key up to parity"""
    rk = np.array(D.round_keys_words(key)[r], dtype='uint8')
    p = np.array(pt, dtype='uint8'); c = np.array(D.cipher_bytes(pt, key), dtype='uint8')
    got = des.get_master_key(rk, r, p, c)
    if got is None: return True, 'None returned'
    if [int(v) & 0xfe for v in got] != [v & 0xfe for v in key]: return True, 'got %s' % (got.tolist(),)
    return False, 'ok'

def replay(case):
    from scared.aes import base as aes
    from scared.des import base as des
    kind = case['kind']; rnd = random.Random(4)
    if kind in ('expansion', 'expansion-frame'):
        kl = case['kl']
        for t in range(12):
            keys = [case['key']] if (t == 0 and case.get('key')) else [[rnd.randrange(256) for _ in range(kl)] for _ in range(3 if case.get('batch') else 1)]
            if not case.get('batch'): keys = keys[0]
            try: bad, d = exp_case(aes, kl, case['col_in'], case['col_out'], keys)
            except Exception as e: bad, d = True, 'raises %r' % (e,)
            if bad: return dict(reproduced=True, key=keys, detail=d)
        return dict(reproduced=False)
    if kind == 'schedule':
        kl = case['kl']; key = case.get('key') or [rnd.randrange(256) for _ in range(kl)]
        out = aes.key_schedule(np.array(key, dtype='uint8')); exp = np.array(F.round_keys(key), dtype='uint8')
        return dict(reproduced=out.shape != exp.shape or not np.array_equal(out, exp), key=key)
    if kind == 'inv_schedule':
        for t in range(8):
            key = [rnd.randrange(256) for _ in range(16)]; rks = F.round_keys(key); r = case['round_in']
            try:
                out = aes.inv_key_schedule(np.array(rks[r], dtype='uint8'), round_in=r)
                bad = out.reshape(-1).shape != (176,) or not np.array_equal(out.reshape(11, 16), np.array(rks, dtype='uint8'))
            except Exception as e: bad = True
            if bad: return dict(reproduced=True, key=key)
        return dict(reproduced=False)
    if kind == 'des_schedule':
        for t in range(8):
            key = case.get('key') if (t == 0 and case.get('key')) else [rnd.randrange(256) for _ in range(8)]
            keys = [key, [rnd.randrange(256) for _ in range(8)]] if case.get('batch') else key
            try: bad, d = des_sched_case(des, keys, case['iar'], case.get('dtype', 'uint8'))
            except Exception as e: bad, d = True, repr(e)
            if bad: return dict(reproduced=True, key=keys, detail=d)
        return dict(reproduced=False)
    if kind == 'master':
        bad, d = master_case(des, case['key'], case['round'], case['pt']); return dict(reproduced=bad, detail=d)
    if kind == 'candidates':
        # _find_possible_keys on random keys of this round: 256 distinct candidates, each reproducing the round key, the key (parity cleared) among them
        from specs import fips46 as D2
        r = case['round']
        for t in range(12):
            key = [rnd.randrange(256) for _ in range(8)]; rk = np.array(D.round_keys_words(key)[r], dtype='uint8')
            try:
                c = des._find_possible_keys(rk, r)
                ok = c.shape == (256, 8) and len({tuple(x) for x in c.tolist()}) == 256 and all(D.round_keys_words(list(map(int, x)))[r] == rk.tolist() for x in c[::17]) \
                    and [v & 0xfe for v in key] in [[int(v) & 0xfe for v in x] for x in c]
            except Exception as e: ok = False
            if not ok: return dict(reproduced=True, key=key, round=r, detail='candidate set of _find_possible_keys is not the 256 completions containing the key')
        return dict(reproduced=False)
    if kind == 'schedule_history':
        for t in range(4):
            kb = [rnd.randrange(256) for _ in range(32)]; K = np.array(kb, dtype='uint8')
            outs = [aes.key_schedule(K), aes.key_schedule(K.reshape(2, 16)), aes.key_schedule(K[:16].copy()), aes.key_schedule(K[:16].reshape(1, 16))]
            exps = [np.array(F.round_keys(kb), dtype='uint8'), np.array([F.round_keys(kb[:16]), F.round_keys(kb[16:])], dtype='uint8'), np.array(F.round_keys(kb[:16]), dtype='uint8'), np.array(F.round_keys(kb[:16]), dtype='uint8')]
            for k_, (o, e) in enumerate(zip(outs, exps)):
                if (k_ < 3 and o.shape != e.shape) or not np.array_equal(o.reshape(-1), e.reshape(-1)): return dict(reproduced=True, key=kb, detail='call %d on the same bytes in another shape: shape %s' % (k_ + 1, o.shape))
        return dict(reproduced=False)
    if kind == 'convert':
        # _convert_hypothesis_bits_into_keys on small lists with the given length / head: exactly the matching numbers, each once
        import itertools
        Ln = min(case['L'], 10); head = case.get('head', 255)      # small lists: a wrong body may return exponentially many numbers
        def completions(arr):
            free = [i for i, b in enumerate(arr) if b == 255]; out = set()
            for bits in itertools.product((0, 1), repeat=len(free)):
                v = list(arr)
                for i, b in zip(free, bits): v[i] = b
                out.add(sum(b << (len(arr) - 1 - i) for i, b in enumerate(v)))
            return out
        for t in range(40):
            tail = [rnd.choice([0, 1, 1, 0, 255]) for _ in range(Ln - 1)]
            while tail.count(255) > 8: tail[tail.index(255)] = rnd.randrange(2)
            if tail: tail[-1] = rnd.randrange(2)
            arr = ([head] + tail) if Ln > 1 else [head if head != 255 else 0]
            try: got = list(des._convert_hypothesis_bits_into_keys(list(arr)))
            except Exception as e: return dict(reproduced=True, array=arr, detail='raises %r' % (e,))
            exp = completions(arr)
            if len(got) != len(exp) or set(int(g) for g in got) != exp: return dict(reproduced=True, array=arr, detail='got %d numbers, %d completions expected; first differing %s' % (len(got), len(exp), sorted(set(int(g) for g in got) ^ exp)[:4]))
        return dict(reproduced=False)
    return dict(reproduced=None)

def bounded(n, seed):
    from scared.aes import base as aes
    from scared.des import base as des
    rnd = random.Random(seed); fails = []; ev = 0
    for t in range(n):
        kl = rnd.choice([16, 24, 32]); nk = kl // 4; total = TOTAL[kl]
        ci = rnd.randrange(0, total - nk + 1); co = rnd.choice([None] + list(range(total + 1)))
        keys = [[rnd.randrange(256) for _ in range(kl)] for _ in range(rnd.choice([1, 2, 3]))]
        if rnd.random() < 0.4: keys = keys[0]
        ev += 1
        try: bad, d = exp_case(aes, kl, ci, co, keys)
        except Exception as e: bad, d = True, 'raises %r' % (e,)
        if bad: fails.append(dict(kind='expansion', function='scared.aes.base::key_expansion', kl=kl, col_in=ci, col_out=co, key=keys if isinstance(keys[0], int) else keys[0], batch=not isinstance(keys[0], int), detail=d))
    # DES master key recovery: directed boundary keys (unknown bits all ones / all zeros) for every round + random keys
    miss = []
    ks = D.key_schedule_bits(list(range(1, 65)))
    for r in range(16): miss.append(sorted(set(b for b in range(1, 65) if b % 8) - set(ks[r])))
    cases = []
    for r in range(16):
        base = [rnd.randrange(256) for _ in range(8)]
        for fill in (1, 0):
            bits = D.bytes_to_bits(base)
            for pos in miss[r]: bits[pos - 1] = fill
            cases.append((D.bits_to_bytes(bits), r))
        cases.append(([rnd.randrange(256) for _ in range(8)], r))
    cases.append(([0xfe] * 8, 5)); cases.append(([0x01] * 8, 9))
    if n < 100: cases = [c for i, c in enumerate(cases) if i % 3 != 2 or i % 9 == 2]
    for key, r in cases:
        pt = [rnd.randrange(256) for _ in range(8)]; ev += 1
        try: bad, d = master_case(des, key, r, pt)
        except Exception as e: bad, d = True, 'raises %r' % (e,)
        if bad: fails.append(dict(kind='master', function='scared.des.base::get_master_key', key=key, round=r, pt=pt, detail=d))
    # candidate structure of _find_possible_keys: 256 distinct keys, each reproducing the round key, true key among them
    for r in range(0, 16, 1 if n >= 100 else 5):
        key = [rnd.randrange(256) for _ in range(8)]; rk = np.array(D.round_keys_words(key)[r], dtype='uint8'); ev += 1
        try:
            c = des._find_possible_keys(rk, r)
            ok = c.shape == (256, 8) and len({tuple(x) for x in c.tolist()}) == 256 and all(D.round_keys_words(list(map(int, x)))[r] == rk.tolist() for x in c[::17]) \
                and [v & 0xfe for v in key] in [[int(v) & 0xfe for v in x] for x in c]
        except Exception as e: ok = False
        if not ok: fails.append(dict(kind='candidates', function='scared.des.base::_find_possible_keys', key=key, round=r))
    ev += 1; r_ = replay(dict(kind='schedule_history'))
    if r_['reproduced']: fails.append(dict(kind='schedule_history', function='scared.aes.base::key_schedule', detail=r_.get('detail')))
    return dict(evaluations=ev, failures=len(fails), failing=fails[:5], bound='%d random AES windows; DES get_master_key on %d directed/random (key, round) cases; _find_possible_keys candidate sets' % (n, len(cases)))

if __name__ == '__main__':
    cmd = sys.argv[1]
    if cmd == 'replay': print(json.dumps(replay(json.loads(sys.stdin.read())), default=str))
    elif cmd == 'bounded': print(json.dumps(bounded(int(sys.argv[2]), int(sys.argv[3])), default=str))
