"""C10 -- key schedules conform and invert: AES from any window, DES from any round key.

AES (scared/aes/base.py): key_expansion/_expand_forward/_expand_backward/key_schedule/inv_key_schedule.
  contract: requires window == W[col_in : col_in+Nk] of a FIPS-197 schedule W (all 4*Nk window bytes symbolic, N keys symbolic)
            ensures  forward (col_in < col_out): result == W[col_in : col_out];  backward: result == W[col_out : col_in+Nk]
  where W is *defined* from the window by the FIPS-197 recurrence W[i] = W[i-Nk] ^ T_i(W[i-1]) in both directions.
  The loops have concrete trip counts for each (Nk, col_in, col_out): complete case split (exact unrolling, no bound).
DES (scared/des/base.py): key_schedule == PC-2(rot(PC-1(key))) for every round and interrupt_after_round; _find_possible_keys /
  _convert_hypothesis_bits_into_keys / get_master_key: see props/c10_des part.
"""
import sys, os, argparse, json, random, time
sys.path.insert(0, os.path.dirname(os.path.dirname(os.path.abspath(__file__))))
import z3
import numpy as _rnp
from pyvc import core, symnp, solve, loader as L, harness as H, report as R, parallel as P
from pyvc.core import SInt, SBV, zi
from specs import fips197 as F
from props import aes_common as AC
from props.aes_common import SymAlg
from props.c05 import bytes_stub

MOD = 'scared.aes.base'
TOTAL = {16: 44, 24: 52, 32: 60}

def schedule_from_window(win_cols, col_in, nk, lo, hi):
    """W[lo:hi] (list of 4-byte columns) given the window W[col_in:col_in+nk], by the FIPS recurrence (symbolic bytes)"""
    W = {col_in + k: win_cols[k] for k in range(nk)}
    i = col_in + nk
    while i < hi:
        W[i] = F.next_word(W[i - nk], W[i - 1], i, nk, SymAlg); i += 1
    j = col_in - 1
    while j >= lo:
        i = j + nk
        W[j] = F.prev_word(W[i], W[i - 1], i, nk, SymAlg); j -= 1
    return [W[c] for c in range(lo, hi)]

def expansion_case(aes, rep, kl, col_in, col_out, batch, timeout):
    nk = kl // 4; total = TOTAL[kl]
    fwd = col_in < (total if col_out is None else col_out)
    co = total if col_out is None else col_out
    lo, hi = (col_in, co) if fwd else (co, col_in + nk)
    def body():
        if batch:
            N = core.sym_int('N', 1); key = H.sym_bytes('K', (N, kl), 'uint8')
        else: key = H.sym_bytes('K', (kl,), 'uint8')
        L.set_task(stubs={'scared._utils::_is_bytes_array': bytes_stub})
        out = aes.fn('key_expansion')(key, col_in=col_in, col_out=col_out)
        return key, out
    oname = 'post[key_expansion,%d,in%d,out%s,%s]' % (kl, col_in, col_out, 'N' if batch else '1')
    for p, outc, exc in core.explore(body):
        if exc is not None:
            rep.obligation(oname, MOD + '::key_expansion', 'post', dict(result='sat', backend='exec', secs=0), sample=repr(exc))
            case = dict(kind='expansion', kl=kl, col_in=col_in, col_out=col_out, batch=batch)
            rp_, o = R.replay_native('props.c10_native', case)
            rep.violation(oname, MOD + '::key_expansion', 'raises %r for a window inside the schedule' % (exc,), case, None, rp_, o)
            continue
        key, out = outc
        ncols = hi - lo
        if out.ndim != 2 or not isinstance(out.shape[1], int) or out.shape[1] != 4 * ncols:
            rep.obligation(oname + ':shape', MOD + '::key_expansion', 'post', dict(result='sat', backend='exec', secs=0))
            case = dict(kind='expansion', kl=kl, col_in=col_in, col_out=col_out, batch=batch)
            rp_, o = R.replay_native('props.c10_native', case)
            rep.violation(oname + ':shape', MOD + '::key_expansion', 'result shape %s, expected (keys, %d)' % (out.shape, 4 * ncols), case, None, rp_, o)
            continue
        if batch: idx, cons = H.generic_index(out.shape[:1]); r = idx[0]
        else: r, cons = 0, []
        win = [[(key.at(r, 4 * c + b) if batch else key.at(4 * c + b)) for b in range(4)] for c in range(nk)]
        exp_cols = schedule_from_window(win, col_in, nk, lo, hi)
        exp = [b for col in exp_cols for b in col]
        got = [out.at(r, j) for j in range(4 * ncols)]
        t0 = time.time()
        if H.structurally_equal(got, exp, simp=True): res = dict(result='unsat', backend='structural', secs=time.time() - t0)
        else: res = solve.discharge(p.pc + cons, H.eq_all(got, exp) if exp else z3.BoolVal(True), timeout_ms=timeout)
        rep.obligation(oname, MOD + '::' + ('_expand_forward' if fwd else '_expand_backward'), 'post', res,
                       sample='key_expansion(W[%d:%d], col_in=%d, col_out=%s) == W[%d:%d] (FIPS-197 recurrence), all window bytes symbolic' % (col_in, col_in + nk, col_in, col_out, lo, hi))
        if res['result'] == 'sat':
            m = res['model']
            kv = [solve.mval(m, H._term(key.at(r, j) if batch else key.at(j))) & 0xff for j in range(kl)]
            case = dict(kind='expansion', kl=kl, col_in=col_in, col_out=col_out, batch=batch, key=kv)
            rp_, o = R.replay_native('props.c10_native', case)
            rep.violation(oname, MOD + '::' + ('_expand_forward' if fwd else '_expand_backward'), 'expanded columns differ from the FIPS-197 schedule', case, str(m)[:1500], rp_, o)
        if not H.untouched(key):
            rep.obligation('frame[key_expansion,%d]' % kl, MOD + '::key_expansion', 'frame', dict(result='sat', backend='frame-scan', secs=0))
            rep.violation('frame[key_expansion,%d]' % kl, MOD + '::key_expansion', 'caller key array modified', dict(kind='expansion-frame', kl=kl, col_in=col_in, col_out=col_out, batch=batch), None, None)

def schedule_history(aes, rep, timeout):
    """history: the schedule is a function of the key ARRAY (shape included): the same 32 bytes read first as one AES-256 key and then as two AES-128
    keys (and 16 bytes as (16,) then (1,16)) give each time the schedule of that reading -- no state kept between calls"""
    oname = 'history[key_schedule: same bytes, another shape]'; fn = MOD + '::key_schedule'
    def body():
        K = H.sym_bytes('K', (32,), 'uint8')
        L.set_task(stubs={'scared._utils::_is_bytes_array': bytes_stub})
        o1 = aes.fn('key_schedule')(K); o2 = aes.fn('key_schedule')(K.reshape(2, 16)); o3 = aes.fn('key_schedule')(K[:16]); o4 = aes.fn('key_schedule')(K[:16].reshape(1, 16))
        return K, o1, o2, o3, o4
    for p, outc, exc in core.explore(body):
        case = dict(kind='schedule_history')
        if exc is not None:
            rep.obligation(oname, fn, 'post', dict(result='sat', backend='exec', secs=0), sample=repr(exc))
            rep.violation(oname, fn, 'raises %r' % (exc,), case, None, *R.replay_native('props.c10_native', case)); continue
        K, o1, o2, o3, o4 = outc
        kb = [K.at(j) for j in range(32)]
        def flat(rks): return [b for rk in rks for b in rk]
        exp = [((15, 16), flat(F.round_keys(kb, SymAlg))), ((2, 11, 16), flat(F.round_keys(kb[:16], SymAlg)) + flat(F.round_keys(kb[16:], SymAlg))),
               ((11, 16), flat(F.round_keys(kb[:16], SymAlg))), (None, flat(F.round_keys(kb[:16], SymAlg)))]
        bad = None
        for k_, (o, (shp, e)) in enumerate(zip((o1, o2, o3, o4), exp)):
            if shp is not None and tuple(o.shape) != shp: bad = 'call %d returns shape %s, expected %s' % (k_ + 1, tuple(o.shape), shp); break
            if o.size != len(e): bad = 'call %d returns %s values, expected %d' % (k_ + 1, o.size, len(e)); break
            import itertools as _it
            got = [o.at(*i) for i in _it.product(*[range(d) for d in o.shape])]
            if not H.structurally_equal(got, e, simp=True):
                r_ = solve.discharge(p.pc, H.eq_all(got, e), timeout_ms=timeout)
                if r_['result'] != 'unsat': bad = 'call %d differs from the FIPS-197 schedule of its own argument (%s)' % (k_ + 1, r_['result']); break
        rep.obligation(oname, fn, 'post', dict(result='sat' if bad else 'unsat', backend='structural', secs=0), sample='key_schedule((32,)), ((2,16)), ((16,)), ((1,16)) on the same bytes')
        if bad: rep.violation(oname, fn, bad, case, None, *R.replay_native('props.c10_native', case))

def schedule_case(aes, rep, kl, batch, timeout):
    """key_schedule(key) == the Nr+1 FIPS round keys, shape (Nr+1,16) / (N,Nr+1,16)"""
    nk = kl // 4; nr = F.NR[kl]
    def body():
        if batch:
            N = core.sym_int('N', 1); key = H.sym_bytes('K', (N, kl), 'uint8')
        else: key = H.sym_bytes('K', (kl,), 'uint8')
        L.set_task(stubs={'scared._utils::_is_bytes_array': bytes_stub})
        return key, aes.fn('key_schedule')(key)
    oname = 'post[key_schedule,%d,%s]' % (kl, 'N' if batch else '1')
    for p, outc, exc in core.explore(body):
        if exc is not None:
            rep.obligation(oname, MOD + '::key_schedule', 'post', dict(result='sat', backend='exec', secs=0), sample=repr(exc))
            rep.violation(oname, MOD + '::key_schedule', 'raises %r' % (exc,), dict(kind='schedule', kl=kl, batch=batch), None, None); continue
        key, out = outc
        exp_shape = ('N', nr + 1, 16) if batch else (nr + 1, 16)
        ok_shape = out.ndim == len(exp_shape) and out.shape[-1] == 16 and out.shape[-2] == nr + 1
        if batch: idx, cons = H.generic_index(out.shape[:1]); r = idx[0]
        else: r, cons = None, []
        kb = [key.at(r, j) if batch else key.at(j) for j in range(kl)]
        rks = F.round_keys(kb, SymAlg)
        exp = [b for rk in rks for b in rk]
        if ok_shape:
            got = [(out.at(r, rr, j) if batch else out.at(rr, j)) for rr in range(nr + 1) for j in range(16)]
            res = dict(result='unsat', backend='structural', secs=0) if H.structurally_equal(got, exp, simp=True) else solve.discharge(p.pc + cons, H.eq_all(got, exp), timeout_ms=timeout)
        else: res = dict(result='sat', backend='exec', secs=0, model=None)
        rep.obligation(oname, MOD + '::key_schedule', 'post', res, sample='key_schedule(key)[r] == FIPS-197 round key r, r = 0..%d' % nr)
        if res['result'] == 'sat':
            m = res.get('model'); kv = [solve.mval(m, H._term(b)) & 0xff for b in kb] if m is not None else [0] * kl
            case = dict(kind='schedule', kl=kl, batch=batch, key=kv)
            rp_, o = R.replay_native('props.c10_native', case)
            rep.violation(oname, MOD + '::key_schedule', 'round keys differ from FIPS-197', case, str(m)[:1000], rp_, o)

def inv_schedule_case(aes, rep, round_in, batch, timeout):
    """inv_key_schedule(round key r of an AES-128 schedule, round_in=r) == the whole schedule (master key recovered)"""
    def body():
        if batch:
            N = core.sym_int('N', 1); rk = H.sym_bytes('K', (N, 16), 'uint8')
        else: rk = H.sym_bytes('K', (16,), 'uint8')
        L.set_task(stubs={'scared._utils::_is_bytes_array': bytes_stub})
        return rk, aes.fn('inv_key_schedule')(rk, round_in=round_in)
    oname = 'post[inv_key_schedule,round%d,%s]' % (round_in, 'N' if batch else '1')
    for p, outc, exc in core.explore(body):
        if exc is not None:
            rep.obligation(oname, MOD + '::inv_key_schedule', 'post', dict(result='sat', backend='exec', secs=0), sample=repr(exc))
            case = dict(kind='inv_schedule', round_in=round_in, batch=batch)
            rp_, o = R.replay_native('props.c10_native', case)
            rep.violation(oname, MOD + '::inv_key_schedule', 'raises %r' % (exc,), case, None, rp_, o); continue
        rk, out = outc
        if batch: idx, cons = H.generic_index(out.shape[:1]); r = idx[0]
        else: r, cons = None, []
        win = [[(rk.at(r, 4 * c + b) if batch else rk.at(4 * c + b)) for b in range(4)] for c in range(4)]
        cols = schedule_from_window(win, 4 * round_in, 4, 0, 44)
        exp = [b for col in cols for b in col]
        lead1 = (not batch) and out.ndim == 3 and isinstance(out.shape[0], int) and out.shape[0] == 1      # layout for a single key is not documented
        ok_shape = out.shape[-1] == 16 and out.shape[-2] == 11 and (out.ndim == (3 if batch else 2) or lead1)
        if ok_shape:
            got = [(out.at(r, rr, j) if batch else (out.at(0, rr, j) if lead1 else out.at(rr, j))) for rr in range(11) for j in range(16)]
            res = dict(result='unsat', backend='structural', secs=0) if H.structurally_equal(got, exp, simp=True) else solve.discharge(p.pc + cons, H.eq_all(got, exp), extra=AC.sbox_axioms(), timeout_ms=timeout)
        else: res = dict(result='sat', backend='exec', secs=0, model=None)
        rep.obligation(oname, MOD + '::inv_key_schedule', 'post', res, sample='inv_key_schedule(W[4r:4r+4], r) == W[0:44] reshaped (11,16)')
        if res['result'] == 'sat':
            case = dict(kind='inv_schedule', round_in=round_in, batch=batch)
            rp_, o = R.replay_native('props.c10_native', case)
            rep.violation(oname, MOD + '::inv_key_schedule', 'schedule recovered from round key %d differs' % round_in, case, str(res.get('model'))[:1000], rp_, o)

def refusals(aes, rep):
    for (ci, co) in ((-1, None), (0, -1), (0, 45)):
        def body():
            key = H.sym_bytes('K', (16,), 'uint8'); L.set_task(stubs={'scared._utils::_is_bytes_array': bytes_stub})
            return aes.fn('key_expansion')(key, col_in=ci, col_out=co)
        for p, outc, exc in core.explore(body):
            ok = isinstance(exc, ValueError)
            rep.obligation('raises[key_expansion,in%s,out%s]' % (ci, co), MOD + '::key_expansion', 'raises', dict(result='unsat' if ok else 'sat', backend='exec', secs=0), sample=repr(exc))
            if not ok: rep.violation('raises[key_expansion,in%s,out%s]' % (ci, co), MOD + '::key_expansion', 'out-of-range columns accepted', dict(kind='refuse', col_in=ci, col_out=co), None, None)

def canary(aes, rep, timeout):
    def body():
        key = H.sym_bytes('K', (16,), 'uint8'); L.set_task(stubs={'scared._utils::_is_bytes_array': bytes_stub})
        return key, aes.fn('key_expansion')(key, col_in=0, col_out=8)
    for p, (key, out), exc in core.explore(body):
        win = [[key.at(4 * c + b) for b in range(4)] for c in range(4)]
        cols = schedule_from_window(win, 1, 4, 1, 9)       # wrong claim: window taken as W[1:5]
        res = solve.discharge(p.pc, H.eq_all([out.at(0, j) for j in range(32)], [b for c in cols for b in c]), timeout_ms=timeout)
        rep.canary('key_expansion(col_in=0) == schedule grown from col_in=1', res['result'] == 'sat')

def aes_units(tier, seed):
    rnd = random.Random(seed); units = []
    for kl in (16, 24, 32):
        nk = kl // 4; total = TOTAL[kl]
        for col_in in range(0, total - nk + 1):
            if tier == 'thorough': outs = [None] + list(range(0, total + 1))
            else:
                outs = {None, 0, col_in, col_in + 1, min(total, col_in + nk), min(total, col_in + nk + 1), total, max(0, col_in - 1)}
                outs |= {rnd.randrange(0, total + 1) for _ in range(2)}
                outs = sorted(outs, key=lambda v: -1 if v is None else v)
            for co in outs:
                units.append((kl, col_in, co, (col_in + (co or 0)) % 2 == 0))
    return units

def main():
    ap = argparse.ArgumentParser(); ap.add_argument('--tier', default=os.environ.get('VERIF_TIER', 'quick')); ap.add_argument('--replay')
    a = ap.parse_args(); seed = int(os.environ.get('VERIF_SEED', '0'))
    if a.replay:
        doc = json.load(open(a.replay)); mod = 'props.c10_native' if doc['case'].get('kind') not in ('des',) else 'props.c10_native'
        rp_, o = R.replay_native(mod, doc['case']); print(o); sys.exit(1 if rp_ else 0)
    rep = R.Report('C10', a.tier, seed); timeout = solve.TIMEOUT_MS[a.tier]
    errs = F.self_check()
    if errs: rep.errors.append('fips197 self-check: %s' % errs)
    aes = AC.AesUnderProof()
    for n in ('key_expansion', '_expand_forward', '_expand_backward', 'key_schedule', 'inv_key_schedule'): rep.function(MOD + '::' + n, aes.sha(n))
    for name in ('SBOX', 'RCON'):
        ok = aes.table_ok[name]
        rep.obligation('table[%s]' % name, MOD + '::' + name, 'table', dict(result='unsat' if ok else 'sat', backend='table-eval', secs=0))
        if not ok:
            d = aes.table_diffs[name][0]; case = dict(kind='table', table=name, index=d[0], got=d[1], expected=d[2])
            rp_, o = R.replay_native('props.c05_native', case)
            rep.violation('table[%s]' % name, MOD + '::' + name, 'entry %s is %s, FIPS-197 gives %s' % d, case, 'table evaluation', rp_, o)
    units = [('exp',) + u for u in aes_units(a.tier, seed)]
    units += [('sched', kl, b) for kl in (16, 24, 32) for b in (False, True)]
    units += [('inv', r, b) for r in range(11) for b in (False, True)]
    def work(sub, kind, *args):
        if kind == 'exp': expansion_case(aes, sub, args[0], args[1], args[2], args[3], timeout)
        elif kind == 'sched': schedule_case(aes, sub, args[0], args[1], timeout)
        elif kind == 'inv': inv_schedule_case(aes, sub, args[0], args[1], timeout)
        elif kind == 'schedhist': schedule_history(aes, sub, timeout)
    # group units to limit process overhead
    groups = [units[i:i + 12] for i in range(0, len(units), 12)]
    def work_group(sub, *group):
        for u in group: work(sub, *u)
    P.run_units(rep, work_group, [tuple(g) for g in groups])
    P.run_units(rep, work_group, [(('schedhist',),)])          # its own unit: a model limit met by a neighbour must not hide it
    refusals(aes, rep); canary(aes, rep, timeout)
    # DES part
    from props import c10_des
    c10_des.run(rep, a.tier, seed, timeout)
    n = 40 if a.tier == 'quick' else 400
    rc, o, so, se = R.run_native('props.c10_native', ['bounded', str(n), str(seed)], timeout=1200)
    if o is None: rep.errors.append('native stand-in failed: %s %s' % (so[-500:], se[-800:]))
    else:
        rep.bounded.append(dict(function='aes.key_expansion/key_schedule/inv_key_schedule, des.key_schedule/get_master_key vs specs under /venv/bin/python', bound=o.get('bound'), evaluations=o['evaluations'], distinct=o['evaluations'], exhaustive=False, failures=o['failures']))
        for f in o['failing'][:3]: rep.violation('bounded[native-vs-spec,%s]' % f.get('kind'), f.get('function', MOD + '::key_expansion'), 'real code differs from the spec on a sampled input', f, None, True, f)
    rep.assume('A4', 'A6', 'T-pyvc', 'T-spec')
    rep.trust('scared._utils._is_bytes_array replaced by its contract (inputs byte-valued by construction)')
    rep.not_decided.append('DES get_master_key: uniqueness of the candidate that maps the plaintext to the ciphertext among the 256 candidates is cryptographic (a collision on one block has probability about 2^-56 per candidate) and is not decided; stated as an assumption')
    sys.exit(rep.finish('./check C10 --tier %s' % a.tier))

if __name__ == '__main__':
    main()
