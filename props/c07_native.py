"""C07 native side: real selection functions vs the real cipher state under the true key (scared under /venv/bin/python)."""
import sys, json, random
import numpy as np
from specs import fips197 as F, fips46 as D

SR = F.shift_rows(list(range(16)))

def aes_check(ns, cname, kl, n, rnd, guesses=None, words=None):
    import scared
    from scared import aes
    mod = getattr(scared.aes.selection_functions, ns)
    key = np.array([rnd.randrange(256) for _ in range(kl)], dtype='uint8'); pt = np.array([[rnd.randrange(256) for _ in range(16)] for _ in range(n)], dtype='uint8')
    nr = F.NR[kl]; ct = aes.encrypt(pt, key).reshape(n, 16)
    enc_name = cname if ns == 'encrypt' else {'FirstAddRoundKey': 'LastAddRoundKey', 'LastAddRoundKey': 'FirstAddRoundKey', 'FirstSubBytes': 'LastSubBytes', 'LastSubBytes': 'FirstSubBytes', 'DeltaRFirstRounds': 'DeltaRLastRounds'}[cname]
    first = enc_name.startswith('First')
    data = pt if first else ct
    kw = {}
    if guesses is not None: kw['guesses'] = guesses
    sf = getattr(mod, cname)(**kw)
    tag = 'plaintext' if first else 'ciphertext'
    out = sf(**{tag: data})
    G = len(sf.guesses)
    if out.shape != (n, G, 16): return 'shape %s' % (out.shape,)
    ek = sf.compute_expected_key(key=key)
    rks = aes.key_schedule(key)
    if not np.array_equal(ek, rks[0] if first else rks[-1]): return 'expected key'
    st = lambda r, s: aes.encrypt(pt, key, at_round=r, after_step=s).reshape(n, 16)
    s9 = st(nr - 1, 3)
    target = {'FirstAddRoundKey': lambda: st(0, 3), 'FirstSubBytes': lambda: st(1, 0), 'LastAddRoundKey': lambda: st(nr, 1),
              'LastSubBytes': lambda: s9[:, SR], 'DeltaRLastRounds': lambda: s9[:, SR] ^ ct[:, SR]}[enc_name]()
    gl = sf.guesses.tolist()
    for w in range(16):
        if int(ek[w]) not in gl: continue
        if not np.array_equal(out[:, gl.index(int(ek[w])), w], target[:, w]): return 'true-key word %d' % w
    return None

def des_check(ns, cname, n, rnd, guesses=None):
    import scared
    from scared import des
    mod = getattr(scared.des.selection_functions, ns)
    alias = {'FirstAddRoundKey': 'LastAddRoundKey', 'LastAddRoundKey': 'FirstAddRoundKey', 'FirstSboxes': 'LastSboxes', 'LastSboxes': 'FirstSboxes', 'FeistelRFirstRounds': 'FeistelRLastRounds',
             'FeistelRLastRounds': 'FeistelRFirstRounds', 'DeltaRFirstRounds': 'DeltaRLastRounds', 'DeltaRLastRounds': 'DeltaRFirstRounds'}
    enc_name = cname if ns == 'encrypt' else alias[cname]
    first = 'First' in enc_name
    key = [rnd.randrange(256) for _ in range(8)]; pts = [[rnd.randrange(256) for _ in range(8)] for _ in range(n)]
    cts = [D.cipher_bytes(p, key) for p in pts]
    data = np.array(pts if first else cts, dtype='uint8')
    kw = {} if guesses is None else dict(guesses=guesses)
    sf = getattr(mod, cname)(**kw)
    out = sf(**{('plaintext' if first else 'ciphertext'): data})
    G = len(sf.guesses)
    if out.shape != (n, G, 8): return 'shape %s' % (out.shape,)
    ek = sf.compute_expected_key(key=np.array(key, dtype='uint8')); rkw = D.round_keys_words(key)
    if ek.tolist() != (rkw[0] if first else rkw[15]): return 'expected key'
    step = {'AddRoundKey': 2, 'Sboxes': 3, 'FeistelR': 7, 'DeltaR': 8}[[k for k in ('AddRoundKey', 'Sboxes', 'FeistelR', 'DeltaR') if k in enc_name][0]]
    gl = sf.guesses.tolist()
    for i in range(n):
        if first: target = D.cipher_bytes(pts[i], key, 'encrypt', 0, 0, step)
        else:
            # last round internals of the real encryption, seen through the real des.encrypt stop points
            from scared.des import base
            if step in (2, 3): target = base.encrypt(np.array(pts[i], dtype='uint8'), np.array(key, dtype='uint8'), at_round=15, after_step=step).tolist()
            else:
                lr15 = D.cipher_bytes(pts[i], key, 'encrypt', 0, 15, 0); l15, r15 = D.bytes_to_bits(lr15[:4]), D.bytes_to_bits(lr15[4:])
                bits = l15 if step == 7 else [a ^ b for a, b in zip(l15, r15)]
                target = D.bits_to_words(D.permute(bits, D.PINV), 4)
        for w in range(8):
            if int(ek[w]) in gl and int(out[i, gl.index(int(ek[w])), w]) != target[w]: return 'true-key word %d (trace %d)' % (w, i)
    return None

def replay(case):
    rnd = random.Random(7); k = case['kind']
    try:
        if k in ('aes_formula', 'aes_true'):
            ns = case.get('ns', 'encrypt'); cn = case['cls']
            for kl in ([case['kl']] if 'kl' in case else [16, 24, 32]):
                for n in (1, 2, 3):
                    r = aes_check(ns, cn, kl, n, rnd)
                    if r: return dict(reproduced=True, detail=r, kl=kl, n=n)
            return dict(reproduced=False)
        if k in ('des_formula', 'des_true'):
            ns = case.get('ns', 'encrypt'); cn = case['cls']
            for n in (1, 2, 3):
                r = des_check(ns, cn, n, rnd)
                if r: return dict(reproduced=True, detail=r, n=n)
            return dict(reproduced=False)
        if k == 'words':
            import scared
            pt = np.array([[rnd.randrange(256) for _ in range(16)] for _ in range(3)], dtype='uint8')
            full = scared.aes.selection_functions.encrypt.FirstSubBytes()(plaintext=pt)
            sel = {'int 3': 3, 'list [0,5,5,15]': [0, 5, 5, 15], 'slice(2,11,3)': slice(2, 11, 3), 'array [15,0,7]': np.array([15, 0, 7], dtype='uint8'), 'Ellipsis': Ellipsis, 'None': None}[case['words']]
            out = scared.aes.selection_functions.encrypt.FirstSubBytes(words=sel)(plaintext=pt)
            exp = full if sel is None or sel is Ellipsis else full[:, :, sel]
            return dict(reproduced=out.shape != exp.shape or not np.array_equal(out, exp))
        if k == 'reuse':
            r = reuse_check(rnd)
            return dict(reproduced=bool(r), detail=r)
        if k == 'tags':
            r = tags_check(rnd)
            return dict(reproduced=bool(r), detail=r)
    except Exception as e:
        return dict(reproduced=True, detail='raises %r' % (e,))
    return dict(reproduced=None)

def reuse_check(rnd):
    """an array returned by a call must still hold its values after later calls of the same shape"""
    import scared
    for ns, w, names in (('aes', 16, ['FirstAddRoundKey', 'LastAddRoundKey', 'FirstSubBytes', 'LastSubBytes', 'DeltaRLastRounds']), ('des', 8, ['FirstAddRoundKey', 'FirstSboxes'])):
        mod = getattr(scared, ns).selection_functions.encrypt
        for a in names:
            for b in names:
                fa, fb = getattr(mod, a)(), getattr(mod, b)()
                ta = 'plaintext' if 'First' in a else 'ciphertext'; tb = 'plaintext' if 'First' in b else 'ciphertext'
                x1 = np.array([[rnd.randrange(256) for _ in range(w)] for _ in range(3)], dtype='uint8'); x2 = np.array([[rnd.randrange(256) for _ in range(w)] for _ in range(3)], dtype='uint8')
                o1 = fa(**{ta: x1}); keep = o1.copy(); fb(**{tb: x2}); fa(**{ta: x2})
                if not np.array_equal(o1, keep): return '%s.%s: the array returned by a call changed after a later call of %s' % (ns, a, b)
    return None

def tags_check(rnd):
    """extra metadata fields (also ones called data / key / plaintext) must not change hypotheses nor the expected key"""
    import scared
    for ns, cls, tagarg, deftag in (('aes', 'FirstSubBytes', 'plaintext_tag', 'plaintext'), ('aes', 'LastSubBytes', 'ciphertext_tag', 'ciphertext'), ('des', 'FirstSboxes', 'plaintext_tag', 'plaintext')):
        mod = getattr(scared, ns).selection_functions.encrypt; w = 16 if ns == 'aes' else 8
        for custom in (False, True):
            tag = 'my_text' if custom else deftag; ktag = 'my_key' if custom else 'key'
            kw = {tagarg: tag, 'key_tag': ktag} if custom else {}
            sf = getattr(mod, cls)(**kw)
            data = np.array([[rnd.randrange(256) for _ in range(w)] for _ in range(3)], dtype='uint8'); other = np.array([[rnd.randrange(256) for _ in range(w)] for _ in range(3)], dtype='uint8')
            key = np.array([rnd.randrange(256) for _ in range(w)], dtype='uint8'); okey = np.array([rnd.randrange(256) for _ in range(w)], dtype='uint8')
            meta = {tag: data, 'data': other, 'foo': other, ktag: key}
            if custom: meta[deftag] = other; meta['key'] = okey
            if not np.array_equal(sf(**meta), sf(**{tag: data})): return '%s.%s (%s tags): a metadata field other than %r changes the hypotheses' % (ns, cls, 'custom' if custom else 'default', tag)
            if not np.array_equal(sf.compute_expected_key(**meta), sf.compute_expected_key(**{ktag: key})): return '%s.%s (%s tags): a metadata field other than %r changes the expected key' % (ns, cls, 'custom' if custom else 'default', ktag)
    return None

def bounded(seed, tier):
    rnd = random.Random(seed); fails = []; ev = 0
    try: r = tags_check(rnd)
    except Exception as e: r = 'raises %r' % (e,)
    ev += 12
    if r: fails.append(dict(kind='tags', detail=r))
    try: r = reuse_check(rnd)
    except Exception as e: r = 'raises %r' % (e,)
    ev += 29
    if r: fails.append(dict(kind='reuse', detail=r))
    aes_cls = {'encrypt': ['FirstAddRoundKey', 'LastAddRoundKey', 'FirstSubBytes', 'LastSubBytes', 'DeltaRLastRounds'], 'decrypt': ['FirstAddRoundKey', 'LastAddRoundKey', 'FirstSubBytes', 'LastSubBytes', 'DeltaRFirstRounds']}
    des_cls = ['FirstAddRoundKey', 'LastAddRoundKey', 'FirstSboxes', 'LastSboxes', 'FeistelRFirstRounds', 'FeistelRLastRounds', 'DeltaRFirstRounds', 'DeltaRLastRounds']
    reps = 1 if tier == 'quick' else 5
    for _ in range(reps):
        for ns in ('encrypt', 'decrypt'):
            for cn in aes_cls[ns]:
                for kl in (16, 24, 32):
                    for n in (1, 3):
                        ev += 1
                        try: r = aes_check(ns, cn, kl, n, rnd)
                        except Exception as e: r = 'raises %r' % (e,)
                        if r: fails.append(dict(kind='aes_true', function='scared.aes.selection_functions.%s::%s' % (ns, cn), ns=ns, cls=cn, kl=kl, n=n, detail=r))
            for cn in des_cls:
                for n in (1, 2):
                    ev += 1
                    try: r = des_check(ns, cn, n, rnd)
                    except Exception as e: r = 'raises %r' % (e,)
                    if r: fails.append(dict(kind='des_true', function='scared.des.selection_functions.%s::%s' % (ns, cn), ns=ns, cls=cn, n=n, detail=r))
    # guess subset / permutation
    import scared
    pt = np.array([[rnd.randrange(256) for _ in range(16)] for _ in range(2)], dtype='uint8'); g = np.array([200, 3, 3, 77], dtype='uint8'); ev += 1
    full = scared.aes.selection_functions.encrypt.FirstSubBytes()(plaintext=pt); sub = scared.aes.selection_functions.encrypt.FirstSubBytes(guesses=g)(plaintext=pt)
    if not np.array_equal(sub, full[:, g.tolist(), :]): fails.append(dict(kind='guesses', function='scared.selection_functions.base::_AttackSelectionFunction'))
    return dict(evaluations=ev, failures=len(fails), failing=fails[:5], bound='every class x namespace x key length x batch of 1 and 3 traces, random keys/plaintexts (%d rounds); guess subset' % reps)

if __name__ == '__main__':
    cmd = sys.argv[1]
    if cmd == 'replay': print(json.dumps(replay(json.loads(sys.stdin.read())), default=str))
    elif cmd == 'bounded': print(json.dumps(bounded(int(sys.argv[2]), sys.argv[3]), default=str))
