"""C13 native side: MIA against an independent histogram/entropy computation, and edge refusals."""
import sys, json, random, math
import numpy as np

def mi_ref(x, y, edges, classes):
    B = len(edges) - 1; cnt = np.zeros((B, len(classes)))
    for xv, yv in zip(x, y):
        if yv not in classes: continue
        if xv < edges[0] or xv > edges[-1]: continue
        b = B - 1 if xv == edges[-1] else int(np.searchsorted(edges, xv, side='right') - 1)
        cnt[b, classes.index(yv)] += 1
    n = cnt.sum()
    if n == 0: return 0.0
    pb = cnt.sum(1) / n; pc = cnt.sum(0) / n
    hb = -sum(p * math.log(p) for p in pb if p > 0)
    hbv = 0.0
    for c in range(len(classes)):
        if pc[c] > 0: hbv += pc[c] * -sum((cnt[b, c] / cnt[:, c].sum()) * math.log(cnt[b, c] / cnt[:, c].sum()) for b in range(B) if cnt[b, c] > 0)
    return hb - hbv

def case(rnd):
    import scared
    n = rnd.choice([10, 40, 200]); B = rnd.choice([2, 3, 5, 8]); lo = rnd.choice([-10.0, 0.0, 3.5]); w = rnd.choice([0.5, 1.0, 2.0, 7.0])
    edges = np.array([lo + k * w for k in range(B + 1)])
    tdt = rnd.choice(['int16', 'float32', 'float64'])
    X = np.array([[rnd.choice([lo - w * 0.5, lo - 3 * w, lo, lo + B * w, lo + B * w + 0.25 * w] + [lo + rnd.random() * B * w for _ in range(12)]) for _ in range(2)] for _ in range(n)])
    if tdt == 'int16': X = np.round(X)
    X = X.astype(tdt); classes = rnd.choice([[0, 1], [0, 1, 2, 3], [5, 2, 9]])
    Y = np.array([[rnd.choice(classes + [77])] for _ in range(n)], dtype='uint8')
    d = scared.MIADistinguisher(bins_number=B, bin_edges=edges, partitions=classes); pos = 0
    while pos < n: k = rnd.randint(1, n - pos); d.update(X[pos:pos + k], Y[pos:pos + k]); pos += k
    r = d.compute()
    for s in range(2):
        e = mi_ref(X[:, s].astype('float64'), Y[:, 0].tolist(), edges, classes)
        if not abs(r[0, s] - e) <= 1e-9 + 1e-9 * abs(e): return 'MI[%d] is %r, reference %r (edges %s, %s)' % (s, r[0, s], e, edges.tolist(), tdt)
        if r[0, s] < -1e-9: return 'negative MI %r' % r[0, s]
    return None

def independent_case():
    import scared
    X = np.array([[0.5], [0.5], [1.5], [1.5]] * 5); Y = np.array([[0], [1], [0], [1]] * 5, dtype='uint8')
    d = scared.MIADistinguisher(bins_number=2, bin_edges=[0.0, 1.0, 2.0], partitions=[0, 1]); d.update(X, Y)
    return None if abs(d.compute()[0, 0]) < 1e-12 else 'independent bins and classes give MI %r' % d.compute()[0, 0]

EDGE_LISTS = [([0, 1, 2, 3], True), ([0, 0.5, 1.0, 1.5, 2.0], True), (list(np.linspace(-3, 8, 12)), True), ([0, 1, 3, 4], False), ([0, 3, 4, 4.5], False), ([0, 1, 2, 4], False), ([0, 2, 3, 5], False),
              ([1, 2, 3, 5], False), ([0, 4, 7, 9, 10], False), ([100000, 100001, 100001.5, 100003], False), ([30000, 30000.5, 30000.75, 30001.5], False), ([1000, 1000.01, 1000.02, 1000.035], False), ([3, 2, 1], False), ([0, 0, 1], False)]
def edges_case(edges, ok):
    import scared
    try: scared.MIADistinguisher(bins_number=len(edges) - 1, bin_edges=list(edges)); acc = True
    except ValueError: acc = False
    return None if acc == ok else 'edge list %s is %s' % (list(edges), 'accepted' if acc else 'refused')

def replay(c):
    rnd = random.Random(21)
    try:
        if c.get('kind') == 'edges':
            lists = EDGE_LISTS + ([(c['edges'], False)] if c.get('edges') and len(c['edges']) > 2 and len(set(np.round(np.diff(c['edges']), 9))) > 1 else [])
            for e, ok in lists:
                r = edges_case(e, ok)
                if r: return dict(reproduced=True, detail=r)
            return dict(reproduced=False)
        r = independent_case()
        if r: return dict(reproduced=True, detail=r)
        for t in range(150):
            r = case(rnd)
            if r: return dict(reproduced=True, detail=r)
        return dict(reproduced=False)
    except Exception as e: return dict(reproduced=True, detail='raises %r' % (e,))

def bounded(seed, tier):
    rnd = random.Random(seed); fails = []; ev = 0
    for t in range(60 if tier == 'quick' else 600):
        ev += 1
        try: r = case(rnd)
        except Exception as e: r = 'raises %r' % (e,)
        if r: fails.append(dict(kind='mi', detail=r))
    ev += 1; r = independent_case()
    if r: fails.append(dict(kind='mi', detail=r))
    for e, ok in EDGE_LISTS:
        ev += 1; r = edges_case(e, ok)
        if r: fails.append(dict(kind='edges', edges=list(map(float, e)), detail=r))
    return dict(evaluations=ev, failures=len(fails), failing=fails[:5], bound='random traces with samples on / inside / outside the edges, integer and float traces, several bin counts and widths, class sets with foreign values, random batch splits; 14 edge lists (uniform, widening, narrowing, compensating, large-valued)')

if __name__ == '__main__':
    cmd = sys.argv[1]
    if cmd == 'replay': print(json.dumps(replay(json.loads(sys.stdin.read())), default=str))
    elif cmd == 'bounded': print(json.dumps(bounded(int(sys.argv[2]), sys.argv[3]), default=str))
