"""C14 -- templates are class means with pooled covariance; matching is Mahalanobis.

  build     _TemplateBuildDistinguisherMixin._compute (real source) on ghost class moments (counts n_c, sums, sums of outer products; 2 and 3
            declared classes, 2 samples): templates[c] == sum_c / n_c for every class with n_c >= 1 (also a class seen exactly once);
            pooled_covariance == (1/K) sum over declared classes of (exxi_c - n_c mu_c mu_c^T)/(n_c - 1) for n_c >= 2, classes with fewer than
            two traces contributing the zero matrix; pooled_covariance_inv is the pseudo-inverse of THAT matrix (uninterpreted); accumulators untouched
  matching  _initialize refuses when the templates are not built or the trace length differs; _update adds, per candidate g,
            sum_i d_i^T Pinv d_i / S with d_i = trace_i - template(g) (n symbolic; C01 shares the obligation); _compute == 10 - _scores / n
  build()   BaseTemplateAttack.build copies partitions, templates, pooled covariance and inverse of the build analysis and sets is_build
  template selection for TemplateDPA (by hypothesis VALUE) is property C12.
"""
import sys, os, argparse, json, itertools
sys.path.insert(0, os.path.dirname(os.path.dirname(os.path.abspath(__file__))))
import z3
import numpy as _rnp
from pyvc import core, symnp, solve, loader as L, harness as H, report as R, parallel as P
from pyvc.core import SInt, SFloat, zi
from props import dist_common as DCm, kernels as KN, c01 as C1
from props.dist_common import moment_tensor, real_of

TM = KN.TM; ATM = 'scared.analysis.template'
def native(case): return R.replay_native('props.c14_native', case)
def fv(x): return core.to_float(x).v
def fin(x):
    f = core.to_float(x).finite(); return z3.BoolVal(f) if isinstance(f, bool) else core.zb(f)

def build_compute(u, rep, K, precision, timeout):
    fn = TM + '::_TemplateBuildDistinguisherMixin._compute'; S = 2
    def body():
        d = type('TB', (u.part.PartitionedDistinguisherBase, u.tpl._TemplateBuildDistinguisherMixin), {})(partitions=list(range(20, 20 + K)), precision=precision)
        d.processed_traces = core.sym_int('n', 1); d._origin_shape = (d.processed_traces, 1); d._trace_length = S; d._data_words = 1
        d._exi = moment_tensor('EXI', (K, S), precision); d._exxi = moment_tensor('EXXI', (K, S, S), precision); d._counters = moment_tensor('CNT', (K,), precision)
        ufs = (d._exi.uf, d._exxi.uf, d._counters.uf)
        # counts are integers >= 0: case split 0 / 1 / >= 2 per class by assumption of integrality
        for c in range(K):
            cn = ufs[2](z3.IntVal(c)); k = core.sym_int('cnt%d' % c, 0); core.assume(cn == z3.ToReal(k.z))
        sn = {k_: (v.st, v.st.version) for k_, v in d.__dict__.items() if isinstance(v, symnp.ndarray)}
        res = d.compute()
        frame = all(isinstance(d.__dict__.get(k_), symnp.ndarray) and d.__dict__[k_].st is st and st.version == ver for k_, (st, ver) in sn.items())
        return d, res, ufs, frame
    for p, outc, exc in core.explore(body, max_paths=2000):
        tag = '%d classes,%s' % (K, precision)
        if exc is not None:
            rep.obligation('post[template build %s]' % tag, fn, 'post', dict(result='sat', backend='exec', secs=0), sample=repr(exc)); rep.violation('post[template build %s]' % tag, fn, 'raises %r' % (exc,), dict(kind='build'), None, *native(dict(kind='build'))); continue
        d, res, (exi, exxi, cnt), frame = outc
        req = []
        for c in range(K):
            n_c = cnt(z3.IntVal(c))
            for s in range(S):
                req.append(z3.Implies(n_c == 0, exi(z3.IntVal(c), z3.IntVal(s)) == 0))
                for s2 in range(S):
                    req.append(z3.Implies(n_c == 0, exxi(z3.IntVal(c), z3.IntVal(s), z3.IntVal(s2)) == 0))
                    req.append(z3.Implies(n_c == 1, exxi(z3.IntVal(c), z3.IntVal(s), z3.IntVal(s2)) == exi(z3.IntVal(c), z3.IntVal(s)) * exi(z3.IntVal(c), z3.IntVal(s2))))
        goals_t = []; 
        for c in range(K):
            n_c = cnt(z3.IntVal(c))
            for s in range(S): goals_t.append(z3.And(fin(res.at(c, s)), z3.Implies(n_c >= 1, fv(res.at(c, s)) * n_c == exi(z3.IntVal(c), z3.IntVal(s)))))
        r_ = solve.discharge(p.pc + req, z3.And(*goals_t), timeout_ms=timeout, nra=True)
        nm = 'post[template build %s: templates[c] == class mean for every class with at least one trace]' % tag
        rep.obligation(nm, fn, 'post', r_)
        if r_['result'] == 'sat': rep.violation(nm, fn, 'a template is not the mean of its class', dict(kind='build', what='mean'), str(r_.get('model'))[:400], *native(dict(kind='build', what='mean')))
        goals_c = []
        pc_ = d.pooled_covariance
        for s in range(S):
            for s2 in range(S):
                tot = z3.RealVal(0)
                for c in range(K):
                    n_c = cnt(z3.IntVal(c)); mu = lambda ss: exi(z3.IntVal(c), z3.IntVal(ss)) / z3.If(n_c >= 1, n_c, z3.RealVal(1))
                    contrib = z3.If(n_c >= 2, (exxi(z3.IntVal(c), z3.IntVal(s), z3.IntVal(s2)) - n_c * mu(s) * mu(s2)) / z3.If(n_c >= 2, n_c - 1, z3.RealVal(1)), z3.RealVal(0))
                    tot = tot + contrib
                goals_c.append(z3.And(fin(pc_.at(s, s2)), fv(pc_.at(s, s2)) == tot / K))
        r_ = solve.discharge(p.pc + req, z3.And(*goals_c), timeout_ms=timeout, nra=True)
        nm = 'post[template build %s: pooled covariance == average over the declared classes of the unbiased within-class covariance]' % tag
        rep.obligation(nm, fn, 'post', r_, sample='classes with fewer than two traces contribute the zero matrix; division by the number of DECLARED classes')
        if r_['result'] == 'sat': rep.violation(nm, fn, 'pooled covariance differs from the definition', dict(kind='build', what='cov'), str(r_.get('model'))[:400], *native(dict(kind='build', what='cov')))
        ok = getattr(d.pooled_covariance_inv, 'pinv_of', None) is d.pooled_covariance
        rep.obligation('post[template build %s: pooled_covariance_inv is the pseudo-inverse of the pooled covariance]' % tag, fn, 'post', dict(result='unsat' if ok else 'sat', backend='exec', secs=0))
        if not ok: rep.violation('post[template build %s: pooled_covariance_inv is the pseudo-inverse of the pooled covariance]' % tag, fn, 'inverse not taken of the final pooled covariance', dict(kind='build', what='pinv'), None, *native(dict(kind='build', what='pinv')))
        rep.obligation('frame[template build %s: compute leaves _exi/_exxi/_counters untouched]' % tag, fn, 'frame', dict(result='unsat' if frame else 'sat', backend='frame-scan', secs=0))
        if not frame: rep.violation('frame[template build %s: compute leaves _exi/_exxi/_counters untouched]' % tag, fn, 'compute() writes an accumulator', dict(kind='build', what='frame'), None, *native(dict(kind='build', what='frame')))

def matching(u, rep, timeout):
    fn = TM + '::_BaseTemplateAttackDistinguisherMixin._initialize'
    def mk(built, S=2):
        o = type('TMx', (u.tpl.TemplateAttackDistinguisherMixin,), {})(partitions=[0, 1], precision='float32'); u.base._initialize_distinguisher(o, 'float32', 0)
        o.is_build = built; o.templates = H.sym_reals('TPL', (2, 2), 'float32'); o.pooled_covariance = H.sym_reals('PC', (2, 2), 'float64'); o.pooled_covariance_inv = H.sym_reals('PCI', (2, 2), 'float64'); return o
    for name, built, S in (('matching before build is refused', False, 2), ('a different trace length is refused', True, 3)):
        def body():
            o = mk(built); n = core.sym_int('n', 1)
            o.update(H.sym_reals('X', (n, S), 'float32'), H.sym_bytes('H', (n, 2), 'uint8', bits=1)); return o
        for p, outc, exc in core.explore(body):
            ok = exc is not None and type(exc).__name__ == 'DistinguisherError' and 'memory' not in str(exc)
            if exc is not None and 'memory' in str(exc): continue
            rep.obligation('raises[%s]' % name, fn, 'raises', dict(result='unsat' if ok else 'sat', backend='exec', secs=0), sample=repr(exc))
            if not ok: rep.violation('raises[%s]' % name, fn, '%s: outcome %r' % (name, exc), dict(kind='refuse', name=name), None, *native(dict(kind='refuse')))
    def body2():
        o = mk(True); n = core.sym_int('n', 1); o.processed_traces = n; o._origin_shape = (n, 2); o._scores = moment_tensor('SC', (2,), 'float32')
        return o, n, o.compute()
    for p, (o, n, res), exc in core.explore(body2):
        g = z3.Int('g!'); goal = z3.And(fin(res.at(SInt(g))), fv(res.at(SInt(g))) == 10 - o._scores.uf(g) / z3.ToReal(n.z))
        r_ = solve.discharge(p.pc + [g >= 0, g < 2], goal, timeout_ms=timeout)
        rep.obligation('post[matching _compute == 10 - accumulated distance / number of traces]', TM + '::_BaseTemplateAttackDistinguisherMixin._compute', 'post', r_)
        if r_['result'] == 'sat': rep.violation('post[matching _compute == 10 - accumulated distance / number of traces]', TM + '::_BaseTemplateAttackDistinguisherMixin._compute', 'score formula differs', dict(kind='match'), str(r_['model'])[:300], *native(dict(kind='match')))

def build_method(u, rep):
    fn = ATM + '::BaseTemplateAttack.build'
    amod = u.ld.load(ATM); rep.function(fn, u.ld.fn_hash.get(fn))
    class FakeBuild:
        def __init__(self): self.partitions = object(); self.results = object(); self.pooled_covariance = object(); self.pooled_covariance_inv = object(); self.ran = []
        def run(self, c): self.ran.append(c)
    def body():
        o = object.__new__(amod.BaseTemplateAttack); fb = FakeBuild(); o._build_analysis = fb; o.container_building = 'CONT'; o.is_build = False
        o.build(); return o, fb
    for p, (o, fb), exc in core.explore(body):
        ok = fb.ran == ['CONT'] and o.partitions is fb.partitions and o.templates is fb.results and o.pooled_covariance is fb.pooled_covariance and o.pooled_covariance_inv is fb.pooled_covariance_inv and o.is_build is True
        rep.obligation('post[build(): runs the build analysis on the building container and copies its profile, is_build set]', fn, 'post', dict(result='unsat' if ok else 'sat', backend='exec', secs=0))
        if not ok: rep.violation('post[build(): runs the build analysis on the building container and copies its profile, is_build set]', fn, 'profile not copied faithfully', dict(kind='buildmethod'), None, *native(dict(kind='match')))

def main():
    ap = argparse.ArgumentParser(); ap.add_argument('--tier', default=os.environ.get('VERIF_TIER', 'quick')); ap.add_argument('--replay')
    a = ap.parse_args(); seed = int(os.environ.get('VERIF_SEED', '0'))
    if a.replay:
        rp, o = native(json.load(open(a.replay))['case']); print(o); sys.exit(1 if rp else 0)
    rep = R.Report('C14', a.tier, seed); timeout = solve.TIMEOUT_MS[a.tier]
    R.prefetch_native('props.c14_native', ['bounded', str(seed), a.tier])      # the stand-in runs while the obligations are discharged
    u = DCm.Dist()
    for k in ('_TemplateBuildDistinguisherMixin._compute', '_TemplateBuildDistinguisherMixin._check', '_BaseTemplateAttackDistinguisherMixin._initialize', '_BaseTemplateAttackDistinguisherMixin._update', '_BaseTemplateAttackDistinguisherMixin._compute',
              'TemplateAttackDistinguisherMixin.get_template_index', 'TemplateAttackDistinguisherMixin._get_dimension', 'TemplateDPADistinguisherMixin._get_dimension'): rep.function(TM + '::' + k, u.sha(TM + '::' + k))
    units = [('build', 2, 'float64'), ('build', 2, 'float32'), ('build', 3, 'float64'), ('match',), ('bm',), ('tm', 'static', 'float64'), ('tm', 'static', 'float32'), ('tdpa', [3, 1, 2, 0]), ('tdpa', [0, 1, 2, 3]), ('kinv', 'uint8', 'float32'), ('kinv', 'int8', 'float64'), ('kinv', 'int16', 'float32'), ('kinv', 'float32', 'float64'), ('k2', 'uint8', 'float32'), ('k2', 'int16', 'float64')]      # kinv / k2: the build accumulators are the class moments (kernels shared with C01 / C11); tdpa: matching picks the template of the class whose VALUE is the hypothesis (contract shared with C12)
    def work(sub, kind, *args):
        if kind == 'build': build_compute(u, sub, args[0], args[1], timeout)
        elif kind == 'match': matching(u, sub, timeout)
        elif kind == 'bm': build_method(u, sub)
        elif kind == 'tm': C1.template_matching_update(u, sub, args[0], args[1], timeout)
        elif kind == 'kinv':
            from props import kernel_inv as KI
            KI.report(sub, KI.template_core1(u, args[0], args[1]), 'template build kernel 1 loop invariants, all extents symbolic, %s->%s' % args, TM + '::_TemplateBuildDistinguisherMixin._accumulate_core_1', timeout, (1, 1), native, dict(kind='build'))
        elif kind == 'k2':
            from props import kernels as KN_
            KN_.report_kernel(sub, KN_.template_kernel(u, 2, 2, 2, 2, args[0], args[1]), 'template build kernel 2, 2 traces x 2 samples x 2 classes, %s->%s' % args, TM + '::_TemplateBuildDistinguisherMixin._accumulate_core_2', timeout, native, dict(kind='build'))
        elif kind == 'tdpa':
            from props import c12 as C12_
            C12_.template_dpa_index(u, sub, args[0], timeout)
    P.run_units(rep, work, units)
    rc, o, so, se = R.run_native('props.c14_native', ['bounded', str(seed), a.tier], timeout=2400)
    if o is None: rep.errors.append('native stand-in failed: %s %s' % (so[-400:], se[-900:]))
    else:
        rep.bounded.append(dict(function='template build and TemplateAttack / TemplateDPAAttack matching vs direct class means, pooled unbiased covariance and Mahalanobis distances (numpy pinv)', bound=o['bound'], evaluations=o['evaluations'], distinct=o['evaluations'], exhaustive=False, failures=o['failures']))
        for f in o['failing'][:3]: rep.violation('bounded[native,%s]' % f.get('kind'), TM + '::_TemplateBuildDistinguisherMixin._compute', f.get('detail', 'differs'), f, None, True, f)
    rep.assume('A1', 'A4', 'A5', 'A6', 'T-pyvc')
    rep.trust('numpy.linalg.pinv: uninterpreted (the property only needs "the pseudo-inverse of the pooled covariance")', 'class moments: n_c == 0 => sums zero, n_c == 1 => the outer-product sum is the outer product of the single trace (facts about sums)')
    rep.not_decided.append('template build proved for 2 and 3 declared classes and 2 samples per trace (bounded in these extents), every 0 / 1 / >= 2 count pattern; matching for a symbolic number of traces with 2 samples')
    sys.exit(rep.finish('./check C14 --tier %s' % a.tier))

if __name__ == '__main__':
    main()
