"""C03 -- CPA and DPA results are Pearson correlation and difference of class means.

Contracts over scared/distinguishers/cpa.py, dpa.py and base.py (real source):
  _update (CPA, DPA)      additivity: every accumulator' == accumulator + the batch moment, batch size n SYMBOLIC (unbounded), for every
                          data dtype of the grid (integer data is squared in ITS dtype only if the code does so: wrap-around is modelled)
  CPA / alternative CPA _compute   requires the accumulators to be moments of some real data (variances >= 0, Cauchy-Schwarz);
                          ensures result[w,s] == cov/(sigma_x sigma_y) when both variances are > 0, and is NaN -- not finite, not infinite --
                          when either is 0; S symbolic (W symbolic for the alternative formulation, case-split for the standard one)
  DPA _compute            ensures result[w,s] == mean(X | bit 1) - mean(X | bit 0) when both classes are non-empty, NaN otherwise
  compute() layout        result reshaped to (word dims..., samples) for data of rank 2..4: result[w1..wk, s] is the statistic of data[:, w1..wk]
"""
import sys, os, argparse, json, itertools
sys.path.insert(0, os.path.dirname(os.path.dirname(os.path.abspath(__file__))))
import z3
import numpy as _rnp
from pyvc import core, symnp, solve, loader as L, harness as H, report as R, parallel as P, sums
from pyvc.core import SInt, SBV, SFloat, zi
from props import dist_common as DCm
from props.dist_common import moment_tensor

CPA = 'scared.distinguishers.cpa'; DPA = 'scared.distinguishers.dpa'; BASE = 'scared.distinguishers.base'
def native(case): return R.replay_native('props.c03_native', case)

def pearson_spec(n, mx, mxx, my, myy, mxy, dt):
    """definition: cov(X,Y) / (sigma_X sigma_Y) over the n processed traces (population moments)"""
    nn = z3.ToReal(n)
    ex, ey = mx / nn, my / nn
    cov = mxy / nn - ex * ey
    vx, vy = mxx / nn - ex * ex, myy / nn - ey * ey
    return vx, vy, cov

def cpa_compute(u, rep, alt, W, precision, timeout):
    name = 'CPAAlternativeDistinguisher' if alt else 'CPADistinguisher'
    fn = CPA + ('::CPAAlternativeDistinguisherMixin._compute' if alt else '::CPADistinguisherMixin._compute')
    def body():
        d = getattr(u.d, name)(precision=precision)
        n = core.sym_int('n', 2); S = core.sym_int('S', 1)
        Wd = core.sym_int('W', 1) if W is None else W
        d.processed_traces = n; d._origin_shape = (n, Wd)
        d.ex = moment_tensor('Mx', (S,), precision); d.ex2 = moment_tensor('Mxx', (S,), precision)
        d.ey = moment_tensor('My', (Wd,), precision); d.ey2 = moment_tensor('Myy', (Wd,), precision); d.exy = moment_tensor('Mxy', (Wd, S), precision)
        snap = {k: (v, v.st.version) for k, v in d.__dict__.items() if isinstance(v, symnp.ndarray)}
        core.SQRT_ARGS.clear()
        res = d.compute()
        frame_ok = all(d.__dict__.get(k) is v and v.st.version == ver for k, (v, ver) in snap.items())
        return d, n, S, Wd, res, frame_ok
    for p, outc, exc in core.explore(body):
        tag = '%s,%s,W=%s' % ('alt' if alt else 'std', precision, 'symbolic' if W is None else W)
        if exc is not None:
            rep.obligation('post[CPA %s]' % tag, fn, 'post', dict(result='sat', backend='exec', secs=0), sample=repr(exc))
            rep.violation('post[CPA %s]' % tag, fn, 'raises %r' % (exc,), dict(kind='cpa', alt=alt, precision=precision), None, *native(dict(kind='cpa', alt=alt, precision=precision))); continue
        d, n, S, Wd, res, frame_ok = outc
        ok_shape = isinstance(res, symnp.ndarray) and res.ndim == 2 and H.structurally_equal([res.shape[1]], [S]) and res.dtype == _rnp.dtype(precision)
        rep.obligation('post[CPA %s: shape (words, samples), dtype precision]' % tag, fn, 'post', dict(result='unsat' if ok_shape else 'sat', backend='exec', secs=0))
        rep.obligation('frame[CPA %s: compute leaves the accumulators untouched]' % tag, fn, 'frame', dict(result='unsat' if frame_ok else 'sat', backend='frame-scan', secs=0))
        if not frame_ok: rep.violation('frame[CPA %s: compute leaves the accumulators untouched]' % tag, fn, 'compute() writes an accumulator', dict(kind='cpa', alt=alt, precision=precision), None, *native(dict(kind='cpa', alt=alt, precision=precision)))
        if not ok_shape:
            rep.violation('post[CPA %s: shape (words, samples), dtype precision]' % tag, fn, 'shape %s dtype %s' % (getattr(res, 'shape', None), getattr(res, 'dtype', None)), dict(kind='cpa', alt=alt, precision=precision), None, *native(dict(kind='cpa', alt=alt, precision=precision))); continue
        s = z3.Int('s!'); cons = [s >= 0, s < S.z]
        ws = range(W) if W is not None else [None]
        for w in ws:
            if w is None: wz = z3.Int('w!'); cons_w = [wz >= 0, wz < Wd.z]; wi = SInt(wz)
            else: wz = z3.IntVal(w); cons_w = []; wi = w
            mx, mxx = d.ex.uf(s), d.ex2.uf(s); my, myy, mxy = d.ey.uf(wz), d.ey2.uf(wz), d.exy.uf(wz, s)
            vx, vy, _cov = pearson_spec(n.z, mx, mxx, my, myy, mxy, precision)
            nn = z3.ToReal(n.z)
            requires = [vx >= 0, vy >= 0, (mxy / nn - (mx / nn) * (my / nn)) * (mxy / nn - (mx / nn) * (my / nn)) <= vx * vy]       # realisable moments (Cauchy-Schwarz)
            got = res.at(wi, SInt(s))
            defined = z3.And(vx > 0, vy > 0)
            # rho == cov/(sigma_x sigma_y)  <=>  rho^2 vx vy == cov^2  and  rho has the sign of cov   (sigma = +sqrt(variance) > 0)
            cov = mxy / nn - (mx / nn) * (my / nn); gf = core.to_float(got)
            fin = core.zb(gf.finite()) if not isinstance(gf.finite(), bool) else z3.BoolVal(gf.finite())
            g1a = z3.Implies(defined, fin)
            g1b = z3.Implies(z3.And(defined, fin), gf.v * gf.v * vx * vy == cov * cov)
            g1c = z3.Implies(z3.And(defined, fin), gf.v * cov >= 0)
            g2 = z3.Implies(z3.Not(defined), core.zb(core.isnan(got)) if not isinstance(core.isnan(got), bool) else z3.BoolVal(core.isnan(got)))
            ax = core.sqrt_axioms()
            for nm, g in (('is finite when both variances are positive', g1a), ('rho^2 var_x var_y == cov^2 (Pearson, squared form)', g1b), ('has the sign of the covariance (Pearson)', g1c), ('is NaN (neither finite nor infinite) when a variance is zero', g2)):
                r_ = solve.discharge(p.pc + cons + cons_w + requires, g, extra=ax, timeout_ms=timeout, nra=True)
                rep.obligation('post[CPA %s, word %s: %s]' % (tag, 'generic' if w is None else w, nm), fn, 'post', r_, sample='forall n >= 2, all realisable moments, all samples: result[w,s] ' + nm)
                if r_['result'] == 'sat':
                    case = dict(kind='cpa', alt=alt, precision=precision, clause=nm)
                    rep.violation('post[CPA %s, word %s: %s]' % (tag, 'generic' if w is None else w, nm), fn, 'result ' + nm + ' fails', case, str(r_['model'])[:700], *native(case))

def dpa_compute(u, rep, precision, timeout):
    fn = DPA + '::DPADistinguisherMixin._compute'
    def body():
        d = u.d.DPADistinguisher(precision=precision)
        n = core.sym_int('n', 2); S = core.sym_int('S', 1); Wd = core.sym_int('W', 1)
        core.assume(n.z < 2 ** 31)
        d.processed_traces = n; d._origin_shape = (n, Wd)
        d.accumulator_traces = moment_tensor('T', (S,), precision); d.accumulator_ones = moment_tensor('A1', (Wd, S), precision)
        c1 = z3.Function('C1', z3.IntSort(), z3.IntSort())
        d.processed_ones = symnp.ndarray.fresh((Wd,), lambda i: SBV(z3.Int2BV(c1(zi(i[0])), 32), 'uint32', c1(zi(i[0]))), 'uint32'); d.processed_ones.uf = c1
        snap = {k: (v, v.st.version) for k, v in d.__dict__.items() if isinstance(v, symnp.ndarray)}
        res = d.compute()
        return d, n, S, Wd, res, all(d.__dict__.get(k) is v and v.st.version == ver for k, (v, ver) in snap.items())
    for p, outc, exc in core.explore(body):
        if exc is not None:
            rep.obligation('post[DPA %s]' % precision, fn, 'post', dict(result='sat', backend='exec', secs=0), sample=repr(exc))
            rep.violation('post[DPA %s]' % precision, fn, 'raises %r' % (exc,), dict(kind='dpa', precision=precision), None, *native(dict(kind='dpa', precision=precision))); continue
        d, n, S, Wd, res, frame_ok = outc
        w_ = z3.Int('w!'); c1_ = d.processed_ones.uf(w_)
        for ob in p.obligations[:4]:
            rep.obligation('side[DPA %s: %s]' % (precision, ob['name']), fn, ob['kind'], solve.discharge(ob['pc'] + [c1_ >= 0, c1_ <= n.z], ob['goal'], timeout_ms=timeout))
        rep.obligation('frame[DPA %s: compute leaves the accumulators untouched]' % precision, fn, 'frame', dict(result='unsat' if frame_ok else 'sat', backend='frame-scan', secs=0))
        s = z3.Int('s!'); w = z3.Int('w!'); cons = [s >= 0, s < S.z, w >= 0, w < Wd.z]
        c1 = d.processed_ones.uf(w); a1 = d.accumulator_ones.uf(w, s); t = d.accumulator_traces.uf(s)
        requires = [c1 >= 0, c1 <= n.z, z3.Implies(c1 == 0, a1 == 0), z3.Implies(c1 == n.z, a1 == t)]           # counts and sums of the same data
        got = res.at(SInt(w), SInt(s))
        both = z3.And(c1 > 0, c1 < n.z)
        exp = a1 / z3.ToReal(c1) - (t - a1) / z3.ToReal(n.z - c1)
        isn = core.isnan(got); isn = core.zb(isn) if not isinstance(isn, bool) else z3.BoolVal(isn)
        fin = core.zb(core.to_float(got).finite()) if not isinstance(core.to_float(got).finite(), bool) else z3.BoolVal(core.to_float(got).finite())
        for nm, g in (('== mean(bit 1) - mean(bit 0) when both classes are non-empty', z3.Implies(both, z3.And(fin, core.to_float(got).v == exp))), ('is NaN when a class is empty', z3.Implies(z3.Not(both), isn))):
            r_ = solve.discharge(p.pc + cons + requires, g, timeout_ms=timeout)
            rep.obligation('post[DPA %s: %s]' % (precision, nm), fn, 'post', r_, sample='forall n, all class counts 0..n, all words and samples')
            if r_['result'] == 'sat':
                case = dict(kind='dpa', precision=precision, clause=nm); rep.violation('post[DPA %s: %s]' % (precision, nm), fn, nm + ' fails', case, str(r_['model'])[:600], *native(case))

def update_additivity(u, rep, kind, ddtype, tdtype, precision, timeout):
    """_update adds exactly the batch moments (n symbolic); integer dtypes keep their wrap-around semantics"""
    fn = (CPA + '::CPADistinguisherMixin._update') if kind == 'CPA' else (DPA + '::DPADistinguisherMixin._update')
    def body():
        d = (u.d.CPADistinguisher if kind == 'CPA' else u.d.DPADistinguisher)(precision=precision)
        n = core.sym_int('n', 1); S = core.sym_int('S', 1); Wd = core.sym_int('W', 1)
        if kind == 'CPA':
            d.ex = moment_tensor('Mx', (S,), precision); d.ex2 = moment_tensor('Mxx', (S,), precision)
            d.ey = moment_tensor('My', (Wd,), precision); d.ey2 = moment_tensor('Myy', (Wd,), precision); d.exy = moment_tensor('Mxy', (Wd, S), precision)
        else:
            d.accumulator_traces = moment_tensor('T', (S,), precision); d.accumulator_ones = moment_tensor('A1', (Wd, S), precision)
            c1 = z3.Function('C1', z3.IntSort(), z3.IntSort()); d.processed_ones = symnp.ndarray.fresh((Wd,), lambda i: SBV(z3.Int2BV(c1(zi(i[0])), 32), 'uint32', c1(zi(i[0]))), 'uint32'); d.processed_ones.uf = c1
        old = {k: (v, v.snapshot()) for k, v in d.__dict__.items() if isinstance(v, symnp.ndarray)}
        traces = H.sym_reals('X', (n, S), tdtype) if _rnp.dtype(tdtype).kind == 'f' else H.sym_ints('X', (n, S), tdtype)
        data = H.sym_reals('Y', (n, Wd), ddtype) if _rnp.dtype(ddtype).kind == 'f' else (H.sym_ints('Y', (n, Wd), ddtype) if kind == 'CPA' else H.sym_bytes('Y', (n, Wd), ddtype, bits=1))
        core.NARROW_FLOWS.clear()
        d._update(traces, data)
        d._narrow = list(core.NARROW_FLOWS)
        return d, n, S, Wd, traces, data, old
    tag = '%s,data %s,traces %s,%s' % (kind, ddtype, tdtype, precision)
    for p, outc, exc in core.explore(body):
        if exc is not None:
            rep.obligation('post[_update additive: %s]' % tag, fn, 'post', dict(result='sat', backend='exec', secs=0), sample=repr(exc))
            rep.violation('post[_update additive: %s]' % tag, fn, 'raises %r' % (exc,), dict(kind='update', dist=kind, ddtype=ddtype, tdtype=tdtype, precision=precision), None, *native(dict(kind='update', dist=kind, ddtype=ddtype, tdtype=tdtype, precision=precision))); continue
        d, n, S, Wd, X, Y, old = outc
        s = z3.Int('s!'); w = z3.Int('w!'); cons = [s >= 0, s < S.z, w >= 0, w < Wd.z]
        for a_ in ('ex', 'ex2', 'ey', 'ey2', 'exy', 'accumulator_traces', 'accumulator_ones'):
            if hasattr(d, a_): getattr(d, a_).at(*[SInt(w) if k_ == 0 and getattr(d, a_).ndim == 2 else SInt(s) if getattr(d, a_).shape[k_] is S or (getattr(d, a_).ndim == 1 and a_ in ('ex', 'ex2', 'accumulator_traces')) else SInt(w) for k_ in range(getattr(d, a_).ndim)])       # force evaluation so that precision taint is recorded
        flows = list(core.NARROW_FLOWS) + d._narrow
        okf = not flows
        rep.obligation('dtype[_update %s: no inexact operation in a float type narrower than the accumulator]' % tag, fn, 'dtype-flow', dict(result='unsat' if okf else 'sat', backend='taint-scan', secs=0))
        if not okf: rep.violation('dtype[_update %s: no inexact operation in a float type narrower than the accumulator]' % tag, fn, 'arithmetic in float%d flows into a float%d accumulator' % flows[0], dict(kind='update', dist=kind, ddtype=ddtype, tdtype=tdtype, precision=precision, flows=flows[:2]), 'precision taint', *native(dict(kind='taint', dist=kind, ddtype=ddtype, tdtype=tdtype, precision=precision)))
        x = lambda i: DCm.real_of(X.at(i, SInt(s))); y = lambda i: DCm.real_of(Y.at(i, SInt(w)))
        bs = DCm.batch_sum
        if kind == 'CPA':
            specs = [('ex', (SInt(s),), bs(lambda i: SFloat(x(i)), n)), ('ex2', (SInt(s),), bs(lambda i: SFloat(x(i) * x(i)), n)), ('ey', (SInt(w),), bs(lambda i: SFloat(y(i)), n)),
                     ('ey2', (SInt(w),), bs(lambda i: SFloat(y(i) * y(i)), n)), ('exy', (SInt(w), SInt(s)), bs(lambda i: SFloat(y(i) * x(i)), n))]
        else:
            specs = [('accumulator_traces', (SInt(s),), bs(lambda i: SFloat(x(i)), n)), ('accumulator_ones', (SInt(w), SInt(s)), bs(lambda i: SFloat(y(i) * x(i)), n))]
        for attr, idx, moment in specs:
            new = getattr(d, attr); o_t, o_f = old[attr]
            same_obj = new is o_t or (isinstance(new, symnp.ndarray) and new.st is o_t.st)
            got = core.to_float(new.at(*idx)); before = core.to_float(o_f(tuple(idx)))
            goal = z3.And(z3.BoolVal(bool(same_obj) and not got.special), got.v == before.v + moment)
            r_ = solve.discharge(p.pc + cons, goal, timeout_ms=timeout)
            nm = 'post[_update additive: %s: %s\' == %s + batch moment]' % (tag, attr, attr)
            if r_['result'] != 'unsat':
                # abstract refutation: re-ask with explicit sums for small batch sizes to get a concrete failing batch, or class it as too coarse
                concrete = None
                for nn in (1, 2):
                    r2 = _concrete_additivity(u, kind, ddtype, tdtype, precision, attr, nn, timeout)
                    if r2 is not None: concrete = (nn, r2); break
                if concrete is None: r_ = dict(result='unknown', backend=r_.get('backend'), secs=r_.get('secs', 0), note='abstract sums differ but no concrete batch of 1 or 2 traces separates them (abstraction too coarse)')
                else: r_ = dict(result='sat', backend='z3', secs=r_.get('secs', 0), model=None); r_['concrete'] = concrete
            rep.obligation(nm, fn, 'post', r_, sample='forall n >= 1 (symbolic), all batches: accumulator grows by exactly the batch moment')
            if r_['result'] == 'sat':
                nn, vals = r_['concrete']; case = dict(kind='update', dist=kind, ddtype=ddtype, tdtype=tdtype, precision=precision, attr=attr, n=nn, values=vals)
                rep.violation(nm, fn, '%s is not increased by the batch moment (batch of %d: %s)' % (attr, nn, vals), case, 'explicit-sum instance n=%d' % nn, *native(case))
        if kind == 'DPA':
            newc = d.processed_ones; c_old = old['processed_ones'][1]
            cnt = bs(lambda i: SFloat(y(i)), n)
            nv = newc.at(SInt(w)); c0 = d.processed_ones.uf(w) if False else old['processed_ones'][1]((SInt(w),)).ival
            goal = z3.BoolVal(False) if nv.ival is None else (z3.ToReal(nv.ival) == z3.ToReal(c0) + cnt)
            r_ = solve.discharge(p.pc + cons, goal, extra=core.integral_axioms(), timeout_ms=timeout)
            rep.obligation('post[_update additive: %s: processed_ones counts the ones (exact while below 2^32)]' % tag, fn, 'post', r_)
            if r_['result'] == 'sat': rep.violation('post[_update additive: %s: processed_ones counts the ones (exact while below 2^32)]' % tag, fn, 'count of ones not increased by the number of ones of the batch', dict(kind='update', dist='DPA', ddtype=ddtype, tdtype=tdtype, precision=precision, attr='processed_ones'), str(r_.get('model'))[:300], *native(dict(kind='dpa', precision=precision)))

def _concrete_additivity(u, kind, ddtype, tdtype, precision, attr, nn, timeout):
    """explicit sums for a batch of nn traces, one sample, one word: returns a failing batch or None"""
    res = {}
    def body():
        d = (u.d.CPADistinguisher if kind == 'CPA' else u.d.DPADistinguisher)(precision=precision)
        if kind == 'CPA':
            for a_, sh in (('ex', (1,)), ('ex2', (1,)), ('ey', (1,)), ('ey2', (1,)), ('exy', (1, 1))): setattr(d, a_, symnp.zeros(sh, dtype=precision))
        else:
            d.accumulator_traces = symnp.zeros((1,), dtype=precision); d.accumulator_ones = symnp.zeros((1, 1), dtype=precision); d.processed_ones = symnp.zeros((1,), dtype='uint32')
        X = H.sym_reals('X', (nn, 1), tdtype) if _rnp.dtype(tdtype).kind == 'f' else H.sym_ints('X', (nn, 1), tdtype)
        Y = H.sym_reals('Y', (nn, 1), ddtype) if _rnp.dtype(ddtype).kind == 'f' else (H.sym_ints('Y', (nn, 1), ddtype) if kind == 'CPA' else H.sym_bytes('Y', (nn, 1), ddtype, bits=1))
        d._update(X, Y); return d, X, Y
    for p, outc, exc in core.explore(body):
        if exc is not None: continue
        d, X, Y = outc
        x = [DCm.real_of(X.at(i, 0)) for i in range(nn)]; y = [DCm.real_of(Y.at(i, 0)) for i in range(nn)]
        exp = {'ex': sum(x), 'ex2': sum(a * a for a in x), 'ey': sum(y), 'ey2': sum(b * b for b in y), 'exy': sum(a * b for a, b in zip(x, y)), 'accumulator_traces': sum(x), 'accumulator_ones': sum(a * b for a, b in zip(x, y))}[attr]
        new = getattr(d, attr); got = core.to_float(new.at(*([0] * new.ndim)))
        r_ = solve.discharge(p.pc, got.v == exp, timeout_ms=timeout)
        if r_['result'] == 'sat':
            m = r_['model']
            return dict(traces=[str(solve.mval(m, H._term(X.at(i, 0)))) for i in range(nn)], data=[str(solve.mval(m, H._term(Y.at(i, 0)))) for i in range(nn)])
    return None

def layout(u, rep, word_dims, timeout):
    """compute() reshapes (W, S) to word_dims + (S,): entry [w1..wk, s] is the statistic of flattened word index"""
    fn = BASE + '::DistinguisherMixin.compute'
    def body():
        d = u.d.CPAAlternativeDistinguisher(precision='float32')
        n = core.sym_int('n', 2); S = core.sym_int('S', 1); Wn = 1
        for x in word_dims: Wn *= x
        d.processed_traces = n; d._origin_shape = (n,) + tuple(word_dims)
        d.ex = moment_tensor('Mx', (S,), 'float32'); d.ex2 = moment_tensor('Mxx', (S,), 'float32'); d.ey = moment_tensor('My', (Wn,), 'float32'); d.ey2 = moment_tensor('Myy', (Wn,), 'float32'); d.exy = moment_tensor('Mxy', (Wn, S), 'float32')
        flat = d._compute(); out = d.compute()
        return S, flat, out
    for p, outc, exc in core.explore(body):
        nm = 'post[layout: data word dims %s -> result %s + (samples,)]' % (word_dims, word_dims)
        if exc is not None:
            rep.obligation(nm, fn, 'post', dict(result='sat', backend='exec', secs=0), sample=repr(exc)); rep.violation(nm, fn, 'raises %r' % (exc,), dict(kind='layout', dims=list(word_dims)), None, *native(dict(kind='layout', dims=list(word_dims)))); continue
        S, flat, out = outc
        ok = out.ndim == len(word_dims) + 1 and all(a == b for a, b in zip(out.shape[:-1], word_dims)) and H.structurally_equal([out.shape[-1]], [S])
        s = z3.Int('s!'); got = []; exp = []
        if ok:
            for k, idx in enumerate(itertools.product(*[range(x) for x in word_dims])):
                got.append(out.at(*(idx + (SInt(s),)))); exp.append(flat.at(k, SInt(s)))
        r_ = (dict(result='unsat', backend='structural', secs=0) if H.structurally_equal([core.to_float(g) for g in got], [core.to_float(e) for e in exp], simp=True) else solve.discharge(p.pc + [s >= 0, s < S.z], H.eq_all(got, exp), extra=core.sqrt_axioms(), timeout_ms=timeout)) if ok else dict(result='sat', backend='exec', secs=0)
        rep.obligation(nm, fn, 'post', r_)
        if r_['result'] == 'sat': rep.violation(nm, fn, 'result layout differs from (word dims..., samples)', dict(kind='layout', dims=list(word_dims)), None, *native(dict(kind='layout', dims=list(word_dims))))

def update_reshape(u, rep, word_dims, timeout, forder=False):
    """update() flattens the word dimensions of data row-major (by LOGICAL index) before _update -- also when the caller's array is stored
    in Fortran order (forder: numpy.asfortranarray of the data; the memory layout of an argument is not part of the property)"""
    fn = BASE + '::DistinguisherMixin.update'
    seen = {}
    def body():
        d = u.d.CPADistinguisher(precision='float32')
        n = core.sym_int('n', 1)
        X = H.sym_reals('X', (n, 3), 'float32'); Y = H.sym_ints('Y', (n,) + tuple(word_dims), 'uint8')
        if forder: Y = symnp.asfortranarray(Y)
        def stub(body_, self, traces, data): seen['data'] = data; seen['traces'] = traces
        L.set_task(stubs={CPA + '::CPADistinguisherMixin._update': stub, CPA + '::CPADistinguisherMixin._initialize': (lambda b, self, traces, data: None)})
        d.update(X, Y); L.set_task()
        return n, Y, seen['data'], d
    for p, outc, exc in core.explore(body):
        nm = 'post[update flattens word dims %s row-major%s]' % (word_dims, ', Fortran-ordered data' if forder else '')
        if exc is not None:
            if 'memory' in str(exc): continue
            rep.obligation(nm, fn, 'post', dict(result='sat', backend='exec', secs=0), sample=repr(exc)); continue
        n, Y, data, d = outc
        i = z3.Int('i!'); got = []; exp = []
        for k, idx in enumerate(itertools.product(*[range(x) for x in word_dims])):
            got.append(data.at(SInt(i), k)); exp.append(Y.at(*((SInt(i),) + idx)))
        ok = data.ndim == 2 and d._origin_shape[1:] == tuple(word_dims)
        r_ = (dict(result='unsat', backend='structural', secs=0) if H.structurally_equal(got, exp, simp=True) else solve.discharge(p.pc + [i >= 0, i < n.z], H.eq_all(got, exp), timeout_ms=timeout)) if ok else dict(result='sat', backend='exec', secs=0)
        rep.obligation(nm, fn, 'post', r_)
        if r_['result'] == 'sat': rep.violation(nm, fn, 'flattening differs', dict(kind='layout', dims=list(word_dims)), None, *native(dict(kind='layout', dims=list(word_dims))))

def main():
    ap = argparse.ArgumentParser(); ap.add_argument('--tier', default=os.environ.get('VERIF_TIER', 'quick')); ap.add_argument('--replay')
    a = ap.parse_args(); seed = int(os.environ.get('VERIF_SEED', '0'))
    if a.replay:
        rp, o = native(json.load(open(a.replay))['case']); print(o); sys.exit(1 if rp else 0)
    rep = R.Report('C03', a.tier, seed); timeout = solve.TIMEOUT_MS[a.tier]
    R.prefetch_native('props.c03_native', ['bounded', str(seed), a.tier])      # the stand-in runs while the obligations are discharged
    u = DCm.Dist()
    for k in (CPA + '::CPADistinguisherMixin._initialize', CPA + '::CPADistinguisherMixin._update', CPA + '::CPADistinguisherMixin._compute', CPA + '::CPAAlternativeDistinguisherMixin._compute',
              DPA + '::DPADistinguisherMixin._initialize', DPA + '::DPADistinguisherMixin._update', DPA + '::DPADistinguisherMixin._compute', BASE + '::DistinguisherMixin.update', BASE + '::DistinguisherMixin.compute'):
        rep.function(k, u.sha(k))
    units = []
    for prec in ('float32', 'float64'):
        units += [('cpa', True, None, prec), ('cpa', False, 1, prec), ('cpa', False, 2, prec), ('dpa', prec)]
    ddts = ['uint8', 'int8', 'uint16', 'int32', 'uint32', 'float64'] if a.tier == 'quick' else ['uint8', 'int8', 'uint16', 'int16', 'uint32', 'int32', 'uint64', 'int64', 'float32', 'float64']
    tdts = ['float32', 'uint8', 'int16'] if a.tier == 'quick' else ['float32', 'float64', 'uint8', 'int8', 'int16', 'uint16', 'int32']
    for ddt in ddts: units.append(('upd', 'CPA', ddt, 'float32', 'float64'))
    for tdt in tdts: units.append(('upd', 'CPA', 'uint8', tdt, 'float32'))
    for ddt in ('uint8', 'uint32'): units.append(('upd', 'DPA', ddt, 'float32', 'float32'))
    for tdt in ('uint8', 'int16', 'float16'): units.append(('upd', 'DPA', 'uint8', tdt, 'float64'))
    units += [('upd', 'DPA', 'uint8', 'float16', 'float32'), ('upd', 'CPA', 'uint8', 'float16', 'float32')]
    for dims in ((3,), (2, 3), (2, 2, 2)): units += [('lay', dims), ('resh', dims)]
    for dims in ((2, 3), (2, 2, 2)): units += [('resh', dims, True)]
    def work(sub, kind, *args):
        if kind == 'cpa': cpa_compute(u, sub, args[0], args[1], args[2], timeout)
        elif kind == 'dpa': dpa_compute(u, sub, args[0], timeout)
        elif kind == 'upd': update_additivity(u, sub, args[0], args[1], args[2], args[3], timeout)
        elif kind == 'lay': layout(u, sub, args[0], timeout)
        elif kind == 'resh': update_reshape(u, sub, args[0], timeout, *args[1:])
    P.run_units(rep, work, units)
    rc, o, so, se = R.run_native('props.c03_native', ['bounded', str(seed), a.tier], timeout=1500)
    if o is None: rep.errors.append('native stand-in failed: %s %s' % (so[-400:], se[-900:]))
    else:
        rep.bounded.append(dict(function='CPA / alternative CPA / DPA distinguishers end to end (update + compute) vs exact rational Pearson / class means under /venv/bin/python', bound=o['bound'], evaluations=o['evaluations'], distinct=o['evaluations'], exhaustive=False, failures=o['failures']))
        for f in o['failing'][:3]: rep.violation('bounded[native,%s]' % f.get('dist'), CPA + '::CPADistinguisherMixin._compute', f.get('detail', 'differs'), f, None, True, f)
    rep.assume('A1', 'A4', 'A5', 'A6', 'T-pyvc')
    rep.trust('moments of real data satisfy variance >= 0 and Cauchy-Schwarz (precondition of _compute; a mathematical fact about sums, not re-proved)',
              'sqrt is characterised by sqrt(a) >= 0 and sqrt(a)^2 == a for a >= 0')
    rep.not_decided.append('"never infinite" under float32 rounding of large sums is outside the real-arithmetic model (A1); the isinf->NaN mapping of both formulations is what the NaN obligations check')
    rep.not_decided.append('standard CPA _compute iterates over the words in Python: proved for 1 and 2 words (each with symbolic samples); the alternative formulation is proved for a symbolic number of words')
    sys.exit(rep.finish('./check C03 --tier %s' % a.tier))

if __name__ == '__main__':
    main()
