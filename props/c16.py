"""C16 -- a rejected update leaves a distinguisher exactly as it was.

Exceptional postcondition of DistinguisherMixin.update composed with the real _initialize/_check/_update of every
distinguisher: on EVERY path of the real code that ends in an exception, the object's state equals its state at entry:
same attribute set (attribute presence matters: _origin_shape), same attribute values (identity for objects, value for
numbers) and no write to any array storage reachable from it.  The raising paths are not listed by hand: the engine
enumerates them (type checks, first-dimension mismatch, trace-length / word-count mismatch, value-range refusals of
_initialize, word-count refusal of _check, the memory check against a havoc amount of free memory, look-up table
refusals), cover obligations make sure each named cause is reached.  Histories: the refused call is the very first one,
or follows an accepted batch.  Array extents are small and concrete (values symbolic): bounded in the extents.
"""
import sys, os, argparse, json, itertools
sys.path.insert(0, os.path.dirname(os.path.dirname(os.path.abspath(__file__))))
import z3
import numpy as _rnp
from pyvc import core, symnp, solve, loader as L, harness as H, report as R, parallel as P
from pyvc.core import SInt, SBV, SFloat, zi

DB = 'scared.distinguishers.base'
def native(case): return R.replay_native('props.c16_native', case)

class Under:
    def __init__(self):
        self.ld = L.Loader(); self.d = self.ld.load('scared.distinguishers')
        self.tpl = self.ld.load('scared.distinguishers.template'); self.part = self.ld.load('scared.distinguishers.partitioned')
        self.base = self.ld.load(DB)
    def make(self, kind, precision='float32'):
        d = self.d
        if kind == 'CPA': return d.CPADistinguisher(precision=precision)
        if kind == 'CPAAlt': return d.CPAAlternativeDistinguisher(precision=precision)
        if kind == 'DPA': return d.DPADistinguisher(precision=precision)
        if kind in ('ANOVA', 'NICV', 'SNR'): return getattr(d, kind + 'Distinguisher')(partitions=None, precision=precision)
        if kind == 'SNRp': return d.SNRDistinguisher(partitions=[0, 1, 2, 3], precision=precision)
        if kind == 'MIA': return d.MIADistinguisher(bins_number=4, bin_edges=[0.0, 1.0, 2.0, 3.0, 4.0], partitions=[0, 1, 2, 3])
        if kind == 'MIAauto': return d.MIADistinguisher(bins_number=4, partitions=None)
        if kind == 'TemplateBuild':
            cls = type('TB', (self.part.PartitionedDistinguisherBase, self.tpl._TemplateBuildDistinguisherMixin), {})
            return cls(partitions=None, precision=precision)
        if kind in ('TemplateMatch', 'TemplateMatchUnbuilt', 'TemplateDPAMatch'):
            cls = type('TM', ((self.tpl.TemplateDPADistinguisherMixin if kind == 'TemplateDPAMatch' else self.tpl.TemplateAttackDistinguisherMixin),), {})
            o = cls(partitions=[0, 1], precision=precision)
            self.base._initialize_distinguisher(o, precision, 0)
            o.is_build = kind != 'TemplateMatchUnbuilt'
            o.templates = H.sym_reals('TPL', (2, 2), precision); o.pooled_covariance = H.sym_reals('PC', (2, 2), 'float64'); o.pooled_covariance_inv = H.sym_reals('PCI', (2, 2), 'float64')
            return o
        raise KeyError(kind)

KINDS = ['CPA', 'CPAAlt', 'DPA', 'ANOVA', 'SNRp', 'MIA', 'MIAauto', 'TemplateBuild', 'TemplateMatch', 'TemplateMatchUnbuilt', 'TemplateDPAMatch']

def snapshot(o):
    snap = {}
    for k, v in o.__dict__.items():
        if isinstance(v, symnp.ndarray): snap[k] = ('arr', v, v.st, v.st.version, tuple(map(str, v.shape)))
        elif isinstance(v, list): snap[k] = ('list', v, list(v))
        else: snap[k] = ('val', v)
    return snap
def state_diff(snap, o):
    """names of the attributes that differ from the snapshot (presence, identity/value, array content)"""
    diff = []
    for k in set(snap) | set(o.__dict__):
        if k not in snap: diff.append('+' + k); continue
        if k not in o.__dict__: diff.append('-' + k); continue
        s = snap[k]; v = o.__dict__[k]
        if s[0] == 'arr':
            if v is not s[1] and not (isinstance(v, symnp.ndarray) and v.st is s[2] and tuple(map(str, v.shape)) == s[4]): diff.append(k + ' (rebound)')
            elif s[2].version != s[3]: diff.append(k + ' (written)')
        elif s[0] == 'list':
            if v is not s[1] or list(v) != s[2]: diff.append(k)
        else:
            same = v is s[1]
            if not same:
                try:
                    if isinstance(v, (int, float, str, bool)) and isinstance(s[1], (int, float, str, bool)): same = (v == s[1]) and type(v) is type(s[1])
                    elif isinstance(v, (SInt, int)) and isinstance(s[1], (SInt, int)): same = z3.simplify(zi(v) - zi(s[1])).eq(z3.IntVal(0))
                    elif isinstance(v, _rnp.dtype) and isinstance(s[1], _rnp.dtype): same = v == s[1]
                except Exception: same = False
            if not same: diff.append(k)
    return diff

def mk_batch(tag, n, S, W, tdtype, ddtype, binary=False, dvals=None):
    traces = H.sym_reals('T' + tag, (n, S), tdtype) if _rnp.dtype(tdtype).kind == 'f' else H.sym_ints('T' + tag, (n, S), tdtype)
    if _rnp.dtype(ddtype).kind == 'f': data = H.sym_reals('D' + tag, (n, W), ddtype)
    else:
        data = H.sym_bytes('D' + tag, (n, W), ddtype, bits=(1 if binary else 2))       # small symbolic values keep path counts low
    return traces, data

def scenario(u, rep, kind, history, shape_case, timeout):
    """history: 'first' (the call under test is the very first) or 'after' (one accepted batch before).
    shape_case: (dn, dS, dW, data dtype, special) deltas of the call under test relative to the accepted shape (2 traces, 2 samples, W words)"""
    dn, dS, dW, ddt, special = shape_case
    W0 = 1 if kind in ('TemplateBuild', 'MIA', 'MIAauto') else 2
    N0, S0 = (1, 1) if kind in ('MIA', 'MIAauto') else (2, 2)      # the MIA kernel forks three ways per sample: keep its extents minimal
    fn = DB + '::DistinguisherMixin.update'
    label = '%s,%s,rows%+d,len%+d,words%+d,%s%s' % (kind, history, dn, dS, dW, ddt, ',' + special if special else '')
    def body():
        o = u.make(kind)
        binary = kind == 'DPA'
        accepted = 0
        if history == 'after':
            t0, d0 = mk_batch('0', N0, S0, W0, 'float32', 'uint8', binary)
            o.update(t0, d0); accepted = N0
        snap = snapshot(o)
        if special == 'list-traces': t1, d1 = [[1.0, 2.0][:S0]], mk_batch('1', 1, S0, W0, 'float32', ddt, binary)[1]
        elif special == 'list-data': t1, d1 = mk_batch('1', 1, S0, W0, 'float32', ddt, binary)[0], [[1]]
        else:
            if S0 + dS < 1: raise core.Abort()
            t1, d1 = mk_batch('1', N0, S0 + dS, W0 + dW, 'float32', ddt, binary and special != 'big-values')
            if dn: d1 = mk_batch('1b', N0 + dn, S0 + dS, W0 + dW, 'float32', ddt, binary)[1]
            if special == 'big-values': d1 = symnp.ndarray.fresh(d1.shape, lambda i: core.bvval(300 if d1.dtype.itemsize > 1 else 77, d1.dtype), d1.dtype)
        try:
            o.update(t1, d1)
        except Exception as e:
            return ('raised', type(e).__name__, str(e)[:80], state_diff(snap, o), accepted, o)
        return ('accepted', None, None, [], accepted, o)
    try:
        paths = core.explore(body, max_paths=600)
    except core.Undecided as e:
        rep.obligation('update[%s]' % label, fn, 'raises', dict(result='unknown', backend='exec', secs=0, note=str(e))); return
    nraise = 0
    for p, outc, exc in paths:
        if exc is not None:
            # an exception during the ACCEPTED history batch: not the call under test
            rep.notes.append('history batch itself raised on a path of %s: %r' % (label, exc)) if len(rep.notes) < 30 else None
            continue
        status, en, msg, diff, accepted, o = outc
        if status != 'raised': continue
        nraise += 1
        ok = not diff
        name = 'raises[%s: %s] => state unchanged' % (label, en)
        rep.obligation(name, fn, 'raises', dict(result='unsat' if ok else 'sat', backend='state-scan', secs=0), sample='on the path raising %s(%s): attributes, counters and array storages equal their entry state' % (en, msg))
        if not ok:
            case = dict(kind='reject', dist=kind, history=history, dn=dn, dS=dS, dW=dW, ddtype=ddt, special=special, changed=diff, exception=en)
            rep.violation(name, fn, 'a call refused with %s changed %s' % (en, diff), case, 'state comparison on the raising path', *native(case))
    return nraise

SHAPE_CASES = [(1, 0, 0, 'uint8', None), (0, 1, 0, 'uint8', None), (0, 0, 1, 'uint8', None), (0, 0, 0, 'int64', None), (0, 0, 0, 'float64', None),
               (0, 0, 0, 'uint8', 'list-traces'), (0, 0, 0, 'uint8', 'list-data'), (0, 0, 0, 'uint16', 'big-values'), (0, 0, 0, 'uint8', None), (0, -1, 0, 'uint8', None)]

def main():
    ap = argparse.ArgumentParser(); ap.add_argument('--tier', default=os.environ.get('VERIF_TIER', 'quick')); ap.add_argument('--replay')
    a = ap.parse_args(); seed = int(os.environ.get('VERIF_SEED', '0'))
    if a.replay:
        rp, o = native(json.load(open(a.replay))['case']); print(o); sys.exit(1 if rp else 0)
    rep = R.Report('C16', a.tier, seed); timeout = solve.TIMEOUT_MS[a.tier]
    R.prefetch_native('props.c16_native', ['bounded', str(seed), a.tier])      # the stand-in runs while the obligations are discharged
    u = Under()
    for m, names in ((DB, ['DistinguisherMixin.update', 'DistinguisherMixin._check', 'DistinguisherMixin._memory_usage_coefficient', '_initialize_distinguisher']),
                     ('scared.distinguishers.cpa', ['CPADistinguisherMixin._initialize', 'CPADistinguisherMixin._update']),
                     ('scared.distinguishers.dpa', ['DPADistinguisherMixin._initialize', 'DPADistinguisherMixin._update']),
                     ('scared.distinguishers.partitioned', ['_PartitionnedDistinguisherBaseMixin._initialize', '_PartitionnedDistinguisherBaseMixin._update', '_PartitionnedDistinguisherBaseMixin._memory_usage_coefficient', '_build_lut', '_define_lut_func',
                                                            'PartitionedDistinguisherMixin._initialize_accumulators', 'PartitionedDistinguisherMixin._accumulate', '_set_partitions']),
                     ('scared.distinguishers.mia', ['MIADistinguisherMixin._initialize_accumulators', 'MIADistinguisherMixin._accumulate', 'MIADistinguisherMixin._memory_usage_coefficient']),
                     ('scared.distinguishers.template', ['_TemplateBuildDistinguisherMixin._initialize_accumulators', '_TemplateBuildDistinguisherMixin._check', '_TemplateBuildDistinguisherMixin._accumulate',
                                                         '_BaseTemplateAttackDistinguisherMixin._initialize', '_BaseTemplateAttackDistinguisherMixin._update'])):
        for n in names: rep.function(m + '::' + n, u.ld.fn_hash.get(m + '::' + n))
    units = [(k, h, sc) for k in KINDS for h in ('first', 'after') for sc in SHAPE_CASES if not (k == 'TemplateMatchUnbuilt' and h == 'after')]
    counts = {}
    def work(sub, kind, hist, sc):
        n = scenario(u, sub, kind, hist, sc, timeout)
        sub.notes.append('raising paths %s/%s/%s: %s' % (kind, hist, sc, n))
    P.run_units(rep, work, units)
    # covers: the named rejection causes were reached
    causes = {'TypeError': 0, 'ValueError': 0, 'DistinguisherError': 0}
    for o in rep.obls:
        for c in causes:
            if ': ' + c + ']' in o['name']: causes[c] += 1
    for c, n in causes.items(): rep.cover('some path is refused with %s' % c, n > 0)
    rep.cover('a first call refused after _initialize ran (memory check / word-count check) is reached', any('first' in o['name'] and 'DistinguisherError' in o['name'] for o in rep.obls))
    rc, o, so, se = R.run_native('props.c16_native', ['bounded', str(seed), a.tier], timeout=3600)
    if o is None: rep.errors.append('native stand-in failed: %s %s' % (so[-400:], se[-900:]))
    else:
        rep.bounded.append(dict(function='real distinguishers: histories of accepted batches with rejected ones inserted; results compared with the accepted-only history', bound=o['bound'], evaluations=o['evaluations'], distinct=o['evaluations'], exhaustive=False, failures=o['failures']))
        for f in o['failing'][:3]: rep.violation('bounded[native,%s]' % f.get('dist'), DB + '::DistinguisherMixin.update', f.get('detail', 'rejected batch influenced later results'), f, None, True, f)
    rep.assume('A1', 'A2', 'A4', 'A6', 'T-pyvc')
    rep.trust('psutil.virtual_memory().available is an arbitrary non-negative amount (havoc): the memory refusal is explored for every value')
    rep.not_decided.append('array extents are concrete and small (2 traces x 2 samples x 1-3 words, values symbolic): the exceptional postcondition is proved for these extents; rejection logic does not depend on the extents but that is not mechanised')
    rep.not_decided.append('exceptions arising inside numba kernels after accumulation has started (MemoryError and the like) are not rejections in the sense of the property')
    sys.exit(rep.finish('./check C16 --tier %s' % a.tier))

if __name__ == '__main__':
    main()
