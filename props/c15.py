"""C15 -- leakage models and discriminants compute their definitions on every value.

Contracts over scared/models.py and scared/discriminants.py (real source, re-read every run):
  _HW_LUT                     table: entry x == popcount(x), 256 entries
  _fhw8/_fhw16/_fhw32/_fhw64  ensures result == popcount(x) for EVERY x of the width (loop-free full-domain BV proof)
  HammingWeight._compute      ensures result[.., i, ..] == sum_{j<k} popcount(data[.., i*k+j, ..]) along axis, other dims preserved
                              (other dims symbolic; the grouped axis is case-split over lengths: bounded in that length)
  Monobit._compute            ensures result == bit b of the value (two's complement), all integer dtypes, b in 0..8
  Value._compute              ensures result is data
  Model.__call__              shape/ type refusals
  nanmax maxabs opposite_min nansum abssum: ensures result == reduction of exactly the requested axis, NaN ignored
"""
import sys, os, argparse, json, itertools
sys.path.insert(0, os.path.dirname(os.path.dirname(os.path.abspath(__file__))))
import z3
import numpy as _rnp
from pyvc import core, symnp, solve, loader as L, harness as H, report as R, parallel as P
from pyvc.core import SInt, SBV, SFloat, zi

MOD = 'scared.models'; DMOD = 'scared.discriminants'

def popcount_term(z, out_bits=32):
    w = z.size(); acc = None
    for i in range(w):
        b = z3.ZeroExt(out_bits - 1, z3.Extract(i, i, z)); acc = b if acc is None else acc + b
    return acc

class Under:
    def __init__(self):
        self.ld = L.Loader(); self.mod = self.ld.load(MOD); self.dmod = self.ld.load(DMOD)
        lit = self.ld.module_literal(MOD, '_HW_LUT')
        self.lut_diffs = [(i, lit[i] if i < len(lit) else None, bin(i).count('1')) for i in range(256) if i >= len(lit) or lit[i] != bin(i).count('1')]
        self.lut_storage = id(self.mod._HW_LUT.st)
        self.other = z3.Function('tbl_HW_LUT', z3.BitVecSort(8), z3.BitVecSort(32))
        symnp.TABLE_HOOK[0] = self.hook
        self.pending = []
    def hook(self, arr, st, idx):
        if id(st) != self.lut_storage or len(idx) != 1: return None
        x = idx[0]
        if not isinstance(x, SBV): return None
        z = x.z; w = z.size()
        if w > 8:
            hi = z3.simplify(z3.Extract(w - 1, 8, z))
            if not (z3.is_bv_value(hi) and hi.as_long() == 0): self.pending.append(hi == 0)     # index-in-range side condition
            z = z3.simplify(z3.Extract(7, 0, z))
        return SBV(popcount_term(z, 32) if not self.lut_diffs else self.other(z), 'uint32')

def native(case): return R.replay_native('props.c15_native', case)

def hw_scalar(u, rep, bits, timeout):
    f = getattr(u.mod, '_fhw%d' % bits).__wrapped__
    def body():
        x = SBV(z3.BitVec('x', bits), 'uint%d' % bits); u.pending = []
        return x, f(x)
    for p, (x, out), exc in core.explore(body):
        out = core.cast(out, 'uint32')
        goal = out.z == popcount_term(x.z, 32)
        res = solve.discharge(p.pc, goal, timeout_ms=timeout)
        rep.obligation('post[_fhw%d == popcount, all 2^%d values]' % (bits, bits), MOD + '::_fhw%d' % bits, 'post', res, sample='forall x: uint%d. _fhw%d(x) == popcount(x)' % (bits, bits))
        if res['result'] == 'sat':
            v = solve.mval(res['model'], x.z); case = dict(kind='hw', bits=bits, value=v); rp, o = native(case)
            rep.violation('post[_fhw%d == popcount, all 2^%d values]' % (bits, bits), MOD + '::_fhw%d' % bits, 'HammingWeight(%#x) wrong' % v, case, str(res['model'])[:300], rp, o)
        for side in u.pending[:1]:
            rep.obligation('index[_fhw%d table index < 256]' % bits, MOD + '::_fhw%d' % bits, 'index-in-range', solve.discharge(p.pc, side, timeout_ms=timeout))

def hw_grouping(u, rep, dtype, rank, axis, k, length, timeout):
    """HammingWeight(nb_words=k)(data, axis): grouped sums along `axis` (length concrete), other extents symbolic"""
    bits = 8 * _rnp.dtype(dtype).itemsize
    def body():
        dims = []
        for ax in range(rank):
            dims.append(length if ax == axis else core.sym_int('D%d' % ax, 1))
        data = H.sym_ints('X', tuple(dims), dtype)
        model = u.mod.HammingWeight(nb_words=k, expected_dtype=dtype); u.pending = []
        return data, model(data, axis=axis if axis != rank - 1 else -1)
    oname = 'post[HammingWeight,%s,rank%d,axis%d,k%d,len%d]' % (dtype, rank, axis, k, length)
    case = dict(kind='hw_group', dtype=dtype, rank=rank, axis=axis, k=k, length=length, heavy=(k * bits >= 256))
    for p, outc, exc in core.explore(body):
        if length < k:
            ok = isinstance(exc, ValueError)
            rep.obligation(oname, MOD + '::HammingWeight._compute', 'raises', dict(result='unsat' if ok else 'sat', backend='exec', secs=0), sample=repr(exc))
            if not ok: rep.violation(oname, MOD + '::HammingWeight._compute', 'axis shorter than nb_words accepted', case, None, *native(case))
            continue
        if exc is not None:
            rep.obligation(oname, MOD + '::HammingWeight._compute', 'post', dict(result='sat', backend='exec', secs=0), sample=repr(exc))
            rep.violation(oname, MOD + '::HammingWeight._compute', 'raises %r' % (exc,), case, None, *native(case)); continue
        data, out = outc
        groups = length // k
        ok_shape = out.ndim == rank and out.shape[axis] == groups and all(H.structurally_equal([out.shape[a]], [data.shape[a]]) for a in range(rank) if a != axis)
        if not ok_shape:
            rep.obligation(oname + ':shape', MOD + '::HammingWeight._compute', 'post', dict(result='sat', backend='exec', secs=0))
            rep.violation(oname + ':shape', MOD + '::HammingWeight._compute', 'result shape %s for data %s' % (out.shape, data.shape), case, None, *native(case)); continue
        idx = []; cons = []
        for ax in range(rank):
            if ax == axis: idx.append(None)
            else:
                v = z3.Int('g%d' % ax); idx.append(SInt(v)); cons += [v >= 0, v < zi(data.shape[ax])]
        goals = []
        for g in range(groups):
            gi = list(idx); gi[axis] = g
            got = core.cast(out.at(*gi), 'uint32')
            acc = None
            for j in range(k):
                di = list(idx); di[axis] = g * k + j
                t = popcount_term(data.at(*di).z, 32); acc = t if acc is None else acc + t
            goals.append(got.z == acc)
        res = solve.discharge(p.pc + cons, z3.And(*goals) if goals else z3.BoolVal(True), timeout_ms=timeout)
        rep.obligation(oname, MOD + '::HammingWeight._compute', 'post', res, sample='result[.., g, ..] == sum_{j<k} popcount(data[.., g*k+j, ..]); other extents symbolic')
        if res['result'] == 'sat': rep.violation(oname, MOD + '::HammingWeight._compute', 'grouped Hamming weight differs', case, str(res['model'])[:500], *native(case))

def hw_grouping_inv(u, rep, dtype, rank, axis, k, timeout):
    """HammingWeight(nb_words=k) with the grouped axis of SYMBOLIC length: loop invariant of the grouping loop --
    after i groups, result[.., g, ..] == sum_{j<k} popcount(data[.., g*k+j, ..]) for g < i and 0 for g >= i (every extent symbolic)"""
    from pyvc import loops
    fn = MOD + '::HammingWeight._compute'; bits = 8 * _rnp.dtype(dtype).itemsize
    oname = 'HammingWeight,%s,rank%d,axis%d,k%d, symbolic length' % (dtype, rank, axis, k)
    case = dict(kind='hw_group', dtype=dtype, rank=rank, axis=axis, k=k, length=3 * k + 1)
    def body():
        dims = [core.sym_int('D%d' % ax, k if ax == axis else 1) for ax in range(rank)]
        data = H.sym_ints('X', tuple(dims), dtype)
        model = u.mod.HammingWeight(nb_words=k, expected_dtype=dtype); u.pending = []
        st = {}
        def expected(J, upto):      # J: storage index of `result` (same axis order as data, grouped axis holds the group number)
            g = zi(J[axis]); acc = None
            for j in range(k):
                di = [SInt(zi(x)) for x in J]; di[axis] = SInt(g * k + j)
                t = popcount_term(data.at(*di).z, 32); acc = t if acc is None else acc + t
            return z3.If(g < upto, acc, z3.BitVecVal(0, 32))
        gidx = [z3.Int('gi%d!' % ax) for ax in range(rank)]
        def cur():
            res = st['result']                                   # view with axes 0 and `axis` swapped
            vi = list(gidx); vi[0], vi[axis] = vi[axis], vi[0]
            return core.cast(res.at(*[SInt(x) for x in vi]), 'uint32').z
        def grange(groups): return [z3.And(x >= 0, x < (zi(groups) if ax == axis else zi(dims[ax]))) for ax, x in enumerate(gidx)]
        def establish():
            import inspect
            fr = [f for f in inspect.stack() if f.function == '_compute' and 'final_w_dimension' in f.frame.f_locals]
            st['result'] = fr[0].frame.f_locals['result']; st['groups'] = fr[0].frame.f_locals['final_w_dimension']
            loops.oblige('grouping loop: invariant on entry (result all zero) [%s]' % oname, 'invariant-init', z3.Implies(z3.And(*grange(st['groups'])), cur() == expected(gidx, z3.IntVal(0))))
        def havoc(i):
            iz = zi(i); res = st['result']
            res.st.set(lambda J: SBV(expected(J, iz), 'uint32'))
        def preserve(i):
            loops.oblige('grouping loop: invariant preserved (group i holds the sum of its k Hamming weights, other groups untouched) [%s]' % oname, 'invariant-step', z3.Implies(z3.And(*grange(st['groups'])), cur() == expected(gidx, zi(i) + 1)))
        lc = loops.LoopCut('hwg', lambda it: st['groups'] if 'groups' in st else L.shim_len(it), lambda it, i: i, establish, havoc, preserve)
        # the count is read after establish() has located the frame: LoopCut calls count first, so locate it there too
        def count(it):
            import inspect
            fr = [f for f in inspect.stack() if f.function == '_compute' and 'final_w_dimension' in f.frame.f_locals]
            return fr[0].frame.f_locals['final_w_dimension']
        lc.count = count
        L.set_task(loops={fn + '#0': lc})
        try: out = model(data, axis=axis if axis != rank - 1 else -1)
        finally: L.set_task(loops={})
        groups = st.get('groups')
        ok_shape = out.ndim == rank and all(H.structurally_equal([out.shape[a]], [data.shape[a]]) for a in range(rank) if a != axis)
        loops.oblige('post: shape -- grouped axis has length // k entries, other dimensions preserved [%s]' % oname, 'post', z3.And(z3.BoolVal(bool(ok_shape)), zi(out.shape[axis]) == zi(dims[axis]) / k))
        got = core.cast(out.at(*[SInt(x) for x in gidx]), 'uint32').z
        loops.oblige('post: result[.., g, ..] == sum_{j<k} popcount(data[.., g*k+j, ..]) for every group, trailing remainder dropped [%s]' % oname, 'post', z3.Implies(z3.And(*grange(zi(dims[axis]) / k)), got == expected(gidx, zi(dims[axis]) / k)))
        return lc.entered
    for p, outc, exc in core.explore(body):
        if exc is not None:
            rep.obligation('loop-invariant proof[%s]' % oname, fn, 'post', dict(result='sat', backend='exec', secs=0), sample=repr(exc)); rep.violation('loop-invariant proof[%s]' % oname, fn, 'raises %r' % (exc,), case, None, *native(case)); continue
        if outc != 1: rep.errors.append('grouping loop contract entered %s times [%s]' % (outc, oname))
        for ob in p.obligations:
            res = solve.discharge(ob['pc'], ob['goal'], timeout_ms=timeout)
            rep.obligation(ob['name'], fn, ob['kind'], res, sample='every extent symbolic, generic index')
            if res['result'] == 'sat': rep.violation(ob['name'], fn, ob['name'], case, str(res['model'])[:400], *native(case))

def monobit(u, rep, dtype, bit, timeout):
    def body():
        N = core.sym_int('N', 1); W = core.sym_int('W', 1)
        data = H.sym_ints('X', (N, W), dtype)
        return data, u.mod.Monobit(bit)(data)
    oname = 'post[Monobit(%d),%s]' % (bit, dtype); case = dict(kind='monobit', dtype=dtype, bit=bit)
    for p, outc, exc in core.explore(body):
        if exc is not None:
            rep.obligation(oname, MOD + '::Monobit._compute', 'post', dict(result='sat', backend='exec', secs=0), sample=repr(exc))
            rep.violation(oname, MOD + '::Monobit._compute', 'raises %r' % (exc,), case, None, *native(case)); continue
        data, out = outc
        idx, cons = H.generic_index(data.shape)
        x = data.at(*idx).z; w = x.size(); signed = _rnp.dtype(dtype).kind == 'i'
        pos = bit if bit < w else (w - 1 if signed else None)          # two's complement sign extension beyond the width
        expect = (z3.Extract(pos, pos, x) == 1) if pos is not None else z3.BoolVal(False)
        got = out.at(*idx)
        ok_meta = out.dtype == _rnp.dtype('uint8') and len(out.shape) == 2
        res = solve.discharge(p.pc + cons, z3.And(z3.BoolVal(ok_meta), core.zi(got) == z3.If(expect, 1, 0)), timeout_ms=timeout)
        rep.obligation(oname, MOD + '::Monobit._compute', 'post', res, sample='Monobit(b)(x) == bit b of x, for all x of the dtype, shape preserved')
        if res['result'] == 'sat':
            v = solve.mval(res['model'], x) if res.get('model') is not None else 0
            c2 = dict(case, value=v); rep.violation(oname, MOD + '::Monobit._compute', 'bit %d of %#x wrong' % (bit, v), c2, str(res.get('model'))[:300], *native(c2))

def value_model(u, rep, timeout):
    def body():
        N = core.sym_int('N', 1); data = H.sym_ints('X', (N, 3), 'uint8'); return data, u.mod.Value()(data)
    for p, (data, out), exc in core.explore(body):
        ok = out is data or (out.st is data.st and out.shape == data.shape)
        rep.obligation('post[Value returns its data]', MOD + '::Value._compute', 'post', dict(result='unsat' if ok else 'sat', backend='exec', secs=0))
        if not ok: rep.violation('post[Value returns its data]', MOD + '::Value._compute', 'Value does not return the data unchanged', dict(kind='value'), None, *native(dict(kind='value')))

def model_refusals(u, rep):
    cases = [('list input', lambda: u.mod.Value()([1, 2]), TypeError),
             ('HammingWeight on signed', lambda: u.mod.HammingWeight()(H.sym_ints('X', (2, 2), 'int8')), ValueError),
             ('HammingWeight dtype mismatch', lambda: u.mod.HammingWeight()(H.sym_ints('X', (2, 2), 'uint16')), ValueError),
             ('Monobit(9)', lambda: u.mod.Monobit(9), ValueError), ('HammingWeight(nb_words=0)', lambda: u.mod.HammingWeight(nb_words=0), ValueError)]
    for name, fn, et in cases:
        for p, outc, exc in core.explore(fn):
            ok = isinstance(exc, et)
            rep.obligation('raises[%s]' % name, MOD + '::Model.__call__', 'raises', dict(result='unsat' if ok else 'sat', backend='exec', secs=0), sample=repr(exc))
            if not ok: rep.violation('raises[%s]' % name, MOD + '::Model.__call__', 'not refused (%r)' % (exc,), dict(kind='refuse', name=name), None, None)

# ---- discriminants: independent fold over the element list with explicit NaN handling
def spec_reduce(name, elems):
    elems = [core.to_float(e) for e in elems]
    if name in ('maxabs', 'abssum'): elems = [abs(e) for e in elems]
    if name == 'opposite_min': elems = [-e for e in elems]
    if name in ('nansum', 'abssum'):
        acc = core.to_float(0.0, elems[0].dtype)
        for e in elems: acc = core.Ite(core.isnan(e), acc, acc + e)
        return acc
    acc = None                                  # running maximum over the non-NaN entries; NaN if there is none
    for e in elems:
        if acc is None: acc = e; continue
        take_e = core.Or(core.isnan(acc), core.And(core.Not(core.isnan(e)), e >= acc))
        acc = core.Ite(take_e, e, acc)
    return acc

def sym_floats_with_nan(name, shape, dtype):
    nd = len(shape)
    fv = z3.Function(name, *([z3.IntSort()] * nd + [z3.RealSort()])); fn = z3.Function(name + '_nan', *([z3.IntSort()] * nd + [z3.BoolSort()]))
    return symnp.ndarray.fresh(shape, lambda i: SFloat(fv(*[zi(k) for k in i]), dtype, nan=fn(*[zi(k) for k in i])), dtype, name=name)

def discriminant(u, rep, name, rank, axis, length, dtype, timeout):
    def body():
        dims = [length if ax == axis else core.sym_int('D%d' % ax, 1) for ax in range(rank)]
        data = sym_floats_with_nan('X', tuple(dims), dtype)
        f = getattr(u.dmod, name)
        return data, (f(data, axis=axis) if axis != rank - 1 else f(data))
    oname = 'post[%s,rank%d,axis%d,len%d,%s]' % (name, rank, axis, length, dtype); case = dict(kind='disc', name=name, rank=rank, axis=axis, length=length, dtype=dtype)
    for p, outc, exc in core.explore(body):
        if exc is not None:
            rep.obligation(oname, DMOD + '::' + name, 'post', dict(result='sat', backend='exec', secs=0), sample=repr(exc))
            rep.violation(oname, DMOD + '::' + name, 'raises %r' % (exc,), case, None, *native(case)); continue
        data, out = outc
        if rank == 1:
            got = out if not isinstance(out, symnp.ndarray) else out.item(); idx = []; cons = []
        else:
            if not isinstance(out, symnp.ndarray) or out.ndim != rank - 1:
                rep.obligation(oname + ':shape', DMOD + '::' + name, 'post', dict(result='sat', backend='exec', secs=0)); rep.violation(oname + ':shape', DMOD + '::' + name, 'wrong rank', case, None, *native(case)); continue
            oshape = [d for a, d in enumerate(data.shape) if a != axis]
            idx, cons = H.generic_index(oshape); got = out.at(*idx)
        elems = []
        for j in range(length):
            di = list(idx); di.insert(axis, j); elems.append(data.at(*di))
        exp = spec_reduce(name, elems)
        res = solve.discharge(p.pc + cons, core.scalar_eq(got, exp), timeout_ms=timeout)
        rep.obligation(oname, DMOD + '::' + name, 'post', res, sample='%s(data, axis)[i] == fold over exactly that axis, NaN ignored' % name)
        if res['result'] == 'sat':
            m = res['model']; vals = []
            for e in elems:
                isn = solve.mval(m, core.zb(core.isnan(e))) if not isinstance(core.isnan(e), bool) else core.isnan(e)
                vals.append(None if isn else float(solve.mval(m, e.v)))
            c2 = dict(case, values=vals); rep.violation(oname, DMOD + '::' + name, 'reduction differs on %s' % vals, c2, str(m)[:400], *native(c2))

def disc_refusals(u, rep):
    for name, fn in (('non-array', lambda: u.dmod.nanmax([1.0, 2.0])),):
        for p, outc, exc in core.explore(fn):
            ok = isinstance(exc, TypeError)
            rep.obligation('raises[discriminant %s]' % name, DMOD + '::discriminant', 'raises', dict(result='unsat' if ok else 'sat', backend='exec', secs=0), sample=repr(exc))

def canary(u, rep, timeout):
    def body():
        x = SBV(z3.BitVec('x', 16), 'uint16'); return x, u.mod._fhw16.__wrapped__(x)
    for p, (x, out), exc in core.explore(body):
        res = solve.discharge(p.pc, core.cast(out, 'uint32').z == popcount_term(z3.Extract(7, 0, x.z), 32), timeout_ms=timeout)
        rep.canary('_fhw16 == popcount of the low byte only', res['result'] == 'sat')

def main():
    ap = argparse.ArgumentParser(); ap.add_argument('--tier', default=os.environ.get('VERIF_TIER', 'quick')); ap.add_argument('--replay')
    a = ap.parse_args(); seed = int(os.environ.get('VERIF_SEED', '0'))
    if a.replay:
        rp, o = native(json.load(open(a.replay))['case']); print(o); sys.exit(1 if rp else 0)
    rep = R.Report('C15', a.tier, seed); timeout = solve.TIMEOUT_MS[a.tier]
    R.prefetch_native('props.c15_native', ['bounded', str(seed), a.tier])      # the stand-in runs while the obligations are discharged
    u = Under()
    for k in ('_fhw8', '_fhw16', '_fhw32', '_fhw64', 'Model.__call__', 'Value._compute', 'Monobit.__init__', 'Monobit._compute', 'HammingWeight.__init__', 'HammingWeight._compute'):
        rep.function(MOD + '::' + k, u.ld.fn_hash.get(MOD + '::' + k))
    for k in ('discriminant', 'discriminant.disc', 'nanmax', 'maxabs', 'opposite_min', 'nansum', 'abssum'): rep.function(DMOD + '::' + k, u.ld.fn_hash.get(DMOD + '::' + k))
    ok = not u.lut_diffs
    rep.obligation('table[_HW_LUT]', MOD + '::_HW_LUT', 'table', dict(result='unsat' if ok else 'sat', backend='table-eval', secs=0), sample='_HW_LUT[x] == popcount(x), 256 entries')
    if not ok:
        d = u.lut_diffs[0]; case = dict(kind='hw', bits=8, value=d[0]); rep.violation('table[_HW_LUT]', MOD + '::_HW_LUT', 'entry %s is %s, popcount is %s' % d, case, 'table evaluation', *native(case))
    units = [('hw', b) for b in (8, 16, 32, 64)]
    lens = [1, 2, 3, 4, 5] if a.tier == 'quick' else list(range(1, 10))
    for dt in ('uint8', 'uint16', 'uint32', 'uint64'):
        for rank in (1, 2, 3):
            for axis in range(rank):
                for k in ((1, 2, 3) if a.tier == 'quick' else (1, 2, 3, 4, 5)):
                    for ln in lens:
                        if a.tier == 'quick' and dt not in ('uint8', 'uint32') and (rank, ln) not in ((2, 4), (3, 5)): continue
                        units.append(('grp', dt, rank, axis, k, ln))
    # large groups: 32 bytes can weigh 256 -- the group sum must not be accumulated in the width of one word's weight (seeded c15_e)
    units += [('grp', 'uint8', 1, 0, 32, 32), ('grp', 'uint8', 2, 1, 32, 64), ('grp', 'uint16', 1, 0, 16, 16)]
    for dt, rank, axis, k in (('uint8', 1, 0, 2), ('uint8', 2, 0, 2), ('uint8', 2, 1, 2), ('uint8', 3, 1, 2), ('uint8', 3, 2, 2)) + ((('uint16', 3, 1, 2), ('uint8', 1, 0, 4), ('uint8', 2, 1, 3), ('uint32', 2, 1, 2), ('uint64', 3, 2, 2), ('uint8', 3, 0, 5), ('uint16', 2, 0, 3)) if a.tier != 'quick' else ()):      # quick: uint8, k = 2 (z3 decides at once); wider words / larger k need cvc5 (tens of seconds each)
        units.append(('grpinv', dt, rank, axis, k))
    for dt in ('uint8', 'int8', 'uint16', 'int16', 'uint32', 'int32', 'uint64', 'int64'):
        for b in range(9): units.append(('mono', dt, b))
    for name in ('nanmax', 'maxabs', 'opposite_min', 'nansum', 'abssum'):
        for rank in (2, 3):        # 1-D data is refused by the wrapper (the reducer returns a scalar, not an array)
            for axis in range(rank):
                for ln in ((1, 2, 3) if a.tier == 'quick' else (1, 2, 3, 4, 5)):
                    for dt in (('float64', 'float32') if (a.tier != 'quick' or ln == 2) else ('float64',)): units.append(('disc', name, rank, axis, ln, dt))
    for name in ('nanmax', 'nansum'): units.append(('disc', name, 2, 1, 2, 'float16'))
    def work(sub, kind, *args):
        if kind == 'hw': hw_scalar(u, sub, args[0], timeout)
        elif kind == 'grp': hw_grouping(u, sub, *args, timeout)
        elif kind == 'grpinv': hw_grouping_inv(u, sub, *args, timeout)
        elif kind == 'mono': monobit(u, sub, args[0], args[1], timeout)
        elif kind == 'disc': discriminant(u, sub, *args, timeout)
    groups = [tuple(units[i:i + 8]) for i in range(0, len(units), 8)]
    def wg(sub, *g):
        for x in g: work(sub, *x)
    P.run_units(rep, wg, groups)
    value_model(u, rep, timeout); model_refusals(u, rep); disc_refusals(u, rep); canary(u, rep, timeout)
    rc, o, so, se = R.run_native('props.c15_native', ['bounded', str(seed), a.tier], timeout=1500)
    if o is None: rep.errors.append('native stand-in failed: %s %s' % (so[-400:], se[-800:]))
    else:
        rep.bounded.append(dict(function='models.HammingWeight/Monobit/Value and discriminants under /venv/bin/python (numba vectorize, real numpy reducers)', bound=o['bound'], evaluations=o['evaluations'], distinct=o['evaluations'], exhaustive=o.get('exhaustive', False), failures=o['failures']))
        for f in o['failing'][:3]: rep.violation('bounded[native,%s]' % f.get('kind'), f.get('function', MOD), 'real code differs from the definition', f, None, True, f)
    rep.assume('A1', 'A2', 'A4', 'A6', 'T-pyvc')
    rep.trust('numba.vectorize applies the scalar function element-wise with the declared signature (A3)', 'numpy nanmax/nansum/abs/negation: modelled in pyvc/symnp.py, cross-checked natively by the bounded stand-in')
    rep.not_decided.append('HammingWeight grouping is proved with the other extents symbolic but the grouped axis case-split over lengths %s (its loop has that many iterations): bounded in that length' % lens)
    rep.not_decided.append('discriminants: the reduced axis is case-split over small lengths; other extents symbolic')
    sys.exit(rep.finish('./check C15 --tier %s' % a.tier))

if __name__ == '__main__':
    main()
