"""C14 native side: template build and matching against direct computations."""
import sys, json, random
import numpy as np

def build_case(rnd):
    import scared
    from scared.distinguishers import template, partitioned
    S = rnd.choice([1, 2, 4]); classes = rnd.choice([[0, 1, 2], [5, 1, 9, 3], list(range(9))]); n = rnd.choice([6, 20, 60])
    present = classes if rnd.random() < 0.5 else classes[:-2] or classes[:1]
    Y = np.array([[rnd.choice(present + [200])] for _ in range(n)], dtype='uint8')
    if rnd.random() < 0.5 and len(present) > 1:      # make one class appear exactly once
        Y[Y[:, 0] == present[0]] = present[1]; Y[0, 0] = present[0]
    xdt = rnd.choice(['int16', 'float32', 'float64', 'uint8', 'int8']); lim = {'int16': 300, 'uint8': 255, 'int8': 127}.get(xdt, 20)      # integer storage types up to their range: products must not wrap
    X = np.array([[rnd.randint(0 if xdt == 'uint8' else -lim, lim) for _ in range(S)] for _ in range(n)], dtype=xdt)
    d = type('TB', (partitioned.PartitionedDistinguisherBase, template._TemplateBuildDistinguisherMixin), {})(partitions=classes, precision='float64'); pos = 0
    while pos < n: k = rnd.randint(1, n - pos); d.update(X[pos:pos + k], Y[pos:pos + k]); pos += k
    t = d.compute(); Xf = X.astype('float64'); cov = np.zeros((S, S))
    for i, c in enumerate(classes):
        rows = Xf[Y[:, 0] == c]
        if len(rows) >= 1 and not np.allclose(t[i], rows.mean(0)): return 'template of class %d (%d traces) is %s, mean is %s' % (c, len(rows), t[i].tolist(), rows.mean(0).tolist())
        if len(rows) >= 2: cov += np.atleast_2d(np.cov(rows.T, ddof=1))
    cov /= len(classes)
    if not np.allclose(d.pooled_covariance, cov, atol=1e-9): return 'pooled covariance differs from the average unbiased within-class covariance over the %d declared classes' % len(classes)
    if not np.allclose(d.pooled_covariance_inv, np.linalg.pinv(cov), atol=1e-7): return 'inverse is not the pseudo-inverse of the pooled covariance'
    return None

def match_case(rnd, dpa):
    import scared, estraces
    N = rnd.choice([37, 50, 80]); nb = 150
    def mk(n, seed):
        rng = np.random.default_rng(seed); pt = rng.integers(0, 4, (n, 1)).astype('uint8'); key = np.full((n, 1), 2, dtype='uint8')
        return (pt ^ key) * np.array([1.0, 2.0, 0.5]) + rng.normal(0, 0.4, (n, 3)), pt, key
    sb, pb, kb = mk(nb, rnd.randrange(999)); sm, pm, km = mk(N, rnd.randrange(999))
    cb = scared.Container(estraces.read_ths_from_ram(samples=sb, plaintext=pb, key=kb)); cm = scared.Container(estraces.read_ths_from_ram(samples=sm, plaintext=pm, key=km))
    @scared.reverse_selection_function
    def rsf(plaintext, key): return np.bitwise_xor(plaintext, key)
    @scared.attack_selection_function(guesses=range(4), words=0)
    def sf(plaintext, guesses):
        out = np.empty((plaintext.shape[0], len(guesses), 1), dtype='uint8')
        for i, g in enumerate(guesses): out[:, i, :] = plaintext ^ g
        return out
    scared.set_batch_size(rnd.choice([10, 7, 1000]))
    try:
        kw = dict(container_building=cb, reverse_selection_function=rsf, model=scared.Value(), partitions=[0, 1, 2, 3], precision='float64', convergence_step=rnd.choice([None, 8]))
        a = scared.TemplateDPAAttack(selection_function=sf, **kw) if dpa else scared.TemplateAttack(**kw)
        try:
            a.run(cm); return 'matching before build is not refused'
        except scared.DistinguisherError: pass
        a = scared.TemplateDPAAttack(selection_function=sf, **kw) if dpa else scared.TemplateAttack(**kw)
        a.build(); a.run(cm)
    finally: scared.set_batch_size(None)
    T = a.templates; P = a.pooled_covariance_inv; exp = []
    for g in range(4):
        tot = 0.0
        for i in range(N):
            tpl = T[int(pm[i, 0] ^ g)] if dpa else T[g]; dlt = sm[i] - tpl; tot += dlt @ P @ dlt
        exp.append(10 - tot / (N * 3))
    if not np.allclose(a.scores, exp, rtol=1e-7): return 'scores %s differ from 10 - mean squared Mahalanobis distance %s' % (a.scores.tolist(), exp)
    return None

def replay(c):
    rnd = random.Random(17)
    try:
        if c.get('kind') in ('build',):
            for t in range(80):
                r = build_case(rnd)
                if r: return dict(reproduced=True, detail=r)
            return dict(reproduced=False)
        for t in range(6):
            for dpa in (False, True):
                r = match_case(rnd, dpa)
                if r: return dict(reproduced=True, detail=r)
        return dict(reproduced=False)
    except Exception as e: return dict(reproduced=True, detail='raises %r' % (e,))

def bounded(seed, tier):
    rnd = random.Random(seed); fails = []; ev = 0
    for t in range(60 if tier == 'quick' else 600):
        ev += 1
        try: r = build_case(rnd)
        except Exception as e: r = 'raises %r' % (e,)
        if r: fails.append(dict(kind='build', detail=r))
    for t in range(3 if tier == 'quick' else 20):
        for dpa in (False, True):
            ev += 1
            try: r = match_case(rnd, dpa)
            except Exception as e: r = 'raises %r' % (e,)
            if r: fails.append(dict(kind='match', detail=r))
    return dict(evaluations=ev, failures=len(fails), failing=fails[:5], bound='random building sets (classes empty, seen once, undeclared values; trace lengths 1-4; random batch splits) and matching sets whose size is not a multiple of the batch size, with and without convergence steps')

if __name__ == '__main__':
    cmd = sys.argv[1]
    if cmd == 'replay': print(json.dumps(replay(json.loads(sys.stdin.read())), default=str))
    elif cmd == 'bounded': print(json.dumps(bounded(int(sys.argv[2]), sys.argv[3]), default=str))
