"""C06 -- DES/TDES encrypt/decrypt and every intermediate stop point conform to FIPS 46-3.

Contracts over the real source of scared/des/base.py (re-read on every run):
  tables      SBOXES (8x64, direct 6-bit index == row/column form of the standard), PC1, PC2,
              ROUND_KEY_BITS_INDEXES == PC-2 o shifts o PC-1
  primitives  initial_permutation final_permutation expansive_permutation permutation_p inv_permutation_p sboxes
              add_round_key: ensures result bits == the FIPS table applied to the argument bits, every row, N symbolic;
              frame (arguments not written); lemmas FP o IP = id, IP o FP = id, P^-1 o P = id, P o P^-1 = id
  composition encrypt decrypt _ParametricCipher.*: primitives and key_schedule are modular calls; ensures the returned
              words == fips46.tdes(...) at (at_des, at_round, after_step) for every key kind, mode and broadcasting shape
"""
import sys, os, argparse, json, time, random
sys.path.insert(0, os.path.dirname(os.path.dirname(os.path.abspath(__file__))))
import z3
import numpy as _rnp
from pyvc import core, symnp, solve, loader as L, harness as H, report as R, parallel as P
from pyvc.core import SInt, SBV, zi
from specs import fips46 as D
from props import des_common as DC
from props.des_common import SymBits, bits_of, word_of, words_of
from props.c05 import bytes_stub

MOD = 'scared.des.base'
# name -> (input row width, significant bits per input word, spec on bits -> (kind, bits))
def _perm(table, kind): return lambda bits: (kind, D.permute(bits, table))
PRIMS = {
    'initial_permutation': (8, 8, _perm(D.IP, 'LR64')),
    'final_permutation': (8, 8, _perm(D.FP, 'LR64')),
    'expansive_permutation': (4, 8, _perm(D.E, 'E48')),
    'permutation_p': (8, 4, _perm(D.P, 'P32')),
    'inv_permutation_p': (4, 8, _perm(D.PINV, 'S32')),
    'sboxes': (8, 6, lambda bits: ('S32', sum([SymBits.sbox(w, bits[6 * w:6 * w + 6]) for w in range(8)], []))),
}
LEMMAS = [('initial_permutation', 'final_permutation', 8, 8), ('final_permutation', 'initial_permutation', 8, 8),
          ('permutation_p', 'inv_permutation_p', 8, 4), ('inv_permutation_p', 'permutation_p', 4, 8)]

def row_bits(elems, sig): return sum([bits_of(e, sig) for e in elems], [])

def replay(case):
    rp_, o = R.replay_native('props.c06_native', case)
    return bool(o and o.get('reproduced')), o

def check_tables(des, rep):
    for name in ('SBOXES', 'PC1', 'PC2', 'ROUND_KEY_BITS_INDEXES'):
        ok = des.table_ok[name]
        rep.obligation('table[%s]' % name, MOD + '::' + name, 'table', dict(result='unsat' if ok else 'sat', backend='table-eval', secs=0), sample='%s literal == FIPS 46-3 derived table' % name)
        if not ok:
            d = des.table_diffs[name][0]; case = dict(kind='table', table=name, index=list(d[0]) if isinstance(d[0], tuple) else d[0], got=d[1], expected=d[2])
            rp, o = replay(case)
            rep.violation('table[%s]' % name, MOD + '::' + name, 'entry %s is %s, the standard gives %s' % d, case, 'table evaluation', rp, o)

def prim_obligations(des, rep, name, dtype, lead_kind, timeout):
    width, sig, spec = PRIMS[name]
    def body():
        if lead_kind == 'N': N = core.sym_int('N', 1); shape = (N, width)
        else: shape = (width,)
        st = H.sym_bytes('X', shape, dtype, bits=sig)
        L.set_task(stubs={'scared._utils::_is_bytes_array': bytes_stub}); des.pending = []
        pre = symnp.ndarray.fresh(st.shape, st.snapshot(), st.dtype)
        out = des.fn(name)(st)
        return st, pre, out
    oname = 'post[%s,%s,%s]' % (name, dtype, lead_kind)
    for p, outc, exc in core.explore(body):
        if exc is not None:
            rep.obligation(oname, MOD + '::' + name, 'post', dict(result='sat', backend='exec', secs=0), sample=repr(exc))
            case = dict(kind='prim', fn=name, dtype=dtype, state=[[1] * width]); rp, o = replay(case)
            rep.violation(oname, MOD + '::' + name, 'raises %r on a valid argument' % (exc,), case, None, rp, o); continue
        st, pre, out = outc
        if lead_kind == 'N': idx, cons = H.generic_index(st.shape[:1]); lead = tuple(idx)
        else: lead, cons = (), []
        kind, ebits = spec(row_bits(H.row_elems(pre, lead), sig))
        exp = words_of(kind, ebits)
        ok_shape = out.ndim == len(lead) + 1 and isinstance(out.shape[-1], int) and out.shape[-1] == len(exp) and out.dtype.kind in 'iu'
        if ok_shape:
            got = [word_of(bits_of(g, 8)) for g in H.row_elems(out, lead)]
            if H.structurally_equal(got, exp): res = dict(result='unsat', backend='structural', secs=0)
            else: res = solve.discharge(p.pc + cons, H.eq_all(got, exp), timeout_ms=timeout)
        else: res = dict(result='sat', backend='exec', secs=0, model=None)
        rep.obligation(oname, MOD + '::' + name, 'post', res, sample='forall rows: %s(x) == FIPS 46-3 table applied to the bits of x' % name)
        if res['result'] == 'sat':
            m = res.get('model')
            row = [solve.mval(m, H._term(e)) & ((1 << sig) - 1) for e in H.row_elems(pre, lead)] if m is not None else [1] * width
            case = dict(kind='prim', fn=name, dtype=dtype, state=[row] if lead_kind == 'N' else row); rp, o = replay(case)
            rep.violation(oname, MOD + '::' + name, 'result differs from the standard table', case, str(m)[:1500], rp, o)
        fr = H.untouched(st)
        rep.obligation('frame[%s,%s,%s]' % (name, dtype, lead_kind), MOD + '::' + name, 'frame', dict(result='unsat' if fr else 'sat', backend='frame-scan', secs=0))
        if not fr:
            case = dict(kind='frame', fn=name, dtype=dtype, state=[[(37 * j + 11) % (1 << sig) for j in range(width)]]); rp, o = replay(case)
            rep.violation('frame[%s,%s,%s]' % (name, dtype, lead_kind), MOD + '::' + name, 'argument array is modified', case, None, rp, o)
        for k, side in enumerate(des.pending[:1]):
            r2 = solve.discharge(p.pc + cons, side, timeout_ms=timeout)
            rep.obligation('index[%s,%s,%s]' % (name, dtype, lead_kind), MOD + '::' + name, 'index-in-range', r2)

def lemma_obligations(des, rep, timeout):
    for f, g, width, sig in LEMMAS:
        def body():
            N = core.sym_int('N', 1); st = H.sym_bytes('X', (N, width), 'uint8', bits=sig)
            L.set_task(stubs={'scared._utils::_is_bytes_array': bytes_stub})
            return st, des.fn(g)(des.fn(f)(st))
        for p, outc, exc in core.explore(body):
            if exc is not None:
                rep.obligation('lemma[%s(%s(x))==x]' % (g, f), MOD + '::' + g, 'lemma', dict(result='unknown', backend='exec', secs=0, note=repr(exc))); continue
            st, out = outc; idx, cons = H.generic_index(st.shape[:1])
            got = [word_of(bits_of(g_, 8)) for g_ in H.row_elems(out, idx)]; exp = [word_of(bits_of(e_, 8)) for e_ in H.row_elems(st, idx)]
            if H.structurally_equal(got, exp): res = dict(result='unsat', backend='structural', secs=0)
            else: res = solve.discharge(p.pc + cons, H.eq_all(got, exp), timeout_ms=timeout)
            rep.obligation('lemma[%s(%s(x))==x]' % (g, f), MOD + '::' + g, 'lemma', res)
            if res['result'] == 'sat':
                m = res['model']; row = [solve.mval(m, H._term(e)) & ((1 << sig) - 1) for e in H.row_elems(st, idx)]
                case = dict(kind='inverse', f=f, g=g, state=[row]); rp, o = replay(case)
                rep.violation('lemma[%s(%s(x))==x]' % (g, f), MOD + '::' + g, 'inverse pair does not cancel', case, str(m)[:1000], rp, o)

# ----------------------------------------------------------------------------- composition
def prim_stub(name):
    width, sig, spec = PRIMS[name]
    def stub(body, state):
        assert state.shape[-1] == width, (name, state.shape)
        f = state.snapshot(); rows = {}
        nout = {'LR64': 8, 'E48': 8, 'S32': 8, 'P32': 4}
        probe_kind = spec([0] * (width * sig))[0] if name != 'sboxes' else 'S32'
        def fn(i):
            lead = tuple(i[:-1]); k = symnp._key(lead)
            if k not in rows:
                kind, bits = spec(row_bits([f(lead + (j,)) for j in range(width)], sig)); rows[k] = (words_of(kind, bits), lead)
            return rows[k][0][i[-1]]
        return symnp.ndarray.fresh(tuple(state.shape[:-1]) + (nout[probe_kind],), fn, 'uint8')
    return stub
def ark_stub(body, state, keys):
    shape = symnp.broadcast_shapes(state.shape, keys.shape)
    fs, fk = state.snapshot(), keys.snapshot(); isx, ikx = symnp._bcast_index(state.shape, shape), symnp._bcast_index(keys.shape, shape)
    def fn(i):
        a, b = fs(isx(i)), fk(ikx(i))
        return word_of([SymBits.xor(x, y) for x, y in zip(bits_of(a, 8), bits_of(b, 8))])
    return symnp.ndarray.fresh(shape, fn, 'uint8')
RK_UF = z3.Function('DesRoundKeyWord', z3.IntSort(), z3.IntSort(), z3.IntSort(), z3.IntSort(), z3.BitVecSort(6))   # (which 8-byte key, key row, round, word)
def key_schedule_stub_for(slot_of):
    def stub(body, key, interrupt_after_round=15):
        # key is a slice keys_to_use[:, 8*s:8*s+8]; identify the slot from the view offset
        s = slot_of(key)
        n = key.shape[0] if key.ndim == 2 else None
        def fn(i):
            row, rnd, w = (i[0], i[1], i[2]) if n is not None else (0, i[0], i[1])
            return SBV(z3.ZeroExt(2, RK_UF(z3.IntVal(s), zi(row), zi(rnd), zi(w))), 'uint8')
        shape = ((n, 16, 8) if n is not None else (16, 8))
        return symnp.ndarray.fresh(shape, fn, 'uint8')
    return stub
def _slot_of(key):
    d = key.vd[-1]
    start = d[2] if d[0] == 'ax' else 0
    assert isinstance(start, int) and start % 8 == 0
    return start // 8

def comp_stubs():
    st = {MOD + '::' + n: prim_stub(n) for n in PRIMS}
    st[MOD + '::add_round_key'] = ark_stub
    st[MOD + '::key_schedule'] = key_schedule_stub_for(_slot_of)
    st['scared._utils::_is_bytes_array'] = bytes_stub
    return st

def spec_round_keys(kl, krow, key_tensor):
    """round keys (lists of 48 bit terms) per 8-byte key slot, as the composition sees them"""
    out = []
    if kl in (8, 16, 24):
        for s in range(kl // 8):
            out.append([sum([bits_of(SBV(z3.ZeroExt(2, RK_UF(z3.IntVal(s), zi(krow), z3.IntVal(r), z3.IntVal(w))), 'uint8'), 6) for w in range(8)], []) for r in range(16)])
    else:
        for s in range(kl // 128):
            out.append([sum([bits_of(key_tensor(128 * s + 8 * r + w), 6) for w in range(8)], []) for r in range(16)])
    return out

def composition(des, rep, mode, kl, shape_kind, stops, timeout, dtype='uint8'):
    nkeys = {8: 1, 16: 2, 24: 3, 128: 1, 256: 2, 384: 3}[kl]
    for (at_des, at_round, after_step) in stops:
        def body():
            N = core.sym_int('N', 1)
            st = H.sym_bytes('X', (N, 8) if shape_kind[0] == 'N' else (8,), dtype)
            key = H.sym_bytes('K', (N, kl) if shape_kind[2] == 'N' else (kl,), dtype, bits=8 if kl <= 24 else 6)
            L.set_task(stubs=comp_stubs()); des.pending = []
            out = des.fn(mode)(st, key, at_round=at_round, after_step=after_step, at_des=at_des)
            return N, st, key, out
        oname = 'post[%s,k%d,%s,des%s,r%s,s%s]' % (mode, kl, shape_kind, at_des, at_round, after_step)
        case0 = dict(kind='cipher', mode=mode, kl=kl, shape=shape_kind, at_des=at_des, at_round=at_round, after_step=after_step, dtype=dtype)
        for p, outc, exc in core.explore(body):
            if exc is not None:
                rep.obligation(oname, MOD + '::_ParametricCipher.parametric_cipher', 'post', dict(result='sat', backend='exec', secs=0), sample=repr(exc))
                rp, o = replay(case0)
                rep.violation(oname, MOD + '::_ParametricCipher.parametric_cipher', 'raises %r inside the documented range' % (exc,), case0, None, rp, o); continue
            N, st, key, out = outc
            many = shape_kind != '1-1'
            n_is_one = solve.satisfiable(list(p.pc) + [N.z != 1]) == 'unsat'
            exp_nd = 1 if (not many or n_is_one) else 2
            r = z3.Int('r!row'); cons = [r >= 0, r < N.z] if exp_nd == 2 else []
            row = SInt(r) if exp_nd == 2 else 0
            srow = row if shape_kind[0] == 'N' else None
            krow = row if shape_kind[2] == 'N' else 0
            block = row_bits([st.at(srow, j) if srow is not None else st.at(j) for j in range(8)], 8)
            keyt = (lambda j: key.at(krow, j)) if shape_kind[2] == 'N' else (lambda j: key.at(j))
            rks = spec_round_keys(kl, krow if shape_kind[2] == 'N' else 0, keyt)
            kind, ebits = D.tdes(block, D.passes_for(rks, mode), at_des, 15 if at_round is None else at_round, after_step, SymBits)
            exp = words_of(kind, ebits)
            if out.ndim != exp_nd or out.shape[-1] != len(exp):
                rep.obligation(oname + ':shape', MOD + '::_ParametricCipher.parametric_cipher', 'post', dict(result='sat', backend='exec', secs=0))
                rp, o = replay(case0)
                rep.violation(oname + ':shape', MOD + '::_ParametricCipher.parametric_cipher', 'result shape %s, documented %d dims x %d words' % (out.shape, exp_nd, len(exp)), case0, None, rp, o); continue
            got = [out.at(row, j) if exp_nd == 2 else out.at(j) for j in range(len(exp))]
            t0 = time.time()
            got = [word_of(bits_of(g, 8)) for g in got]            # canonical bit form (extract pushed through xor/concat)
            if H.structurally_equal(got, exp): res = dict(result='unsat', backend='structural', secs=time.time() - t0)
            else: res = solve.discharge(list(p.pc) + cons, H.eq_all(got, exp), timeout_ms=timeout)
            rep.obligation(oname, MOD + '::_ParametricCipher.parametric_cipher', 'post', res,
                           sample='%s(x,k,at_des=%s,at_round=%s,after_step=%s) == fips46.tdes(...) words, all blocks/keys' % (mode, at_des, at_round, after_step))
            if res['result'] == 'sat':
                rp, o = replay(case0)
                rep.violation(oname, MOD + '::_ParametricCipher.parametric_cipher', 'operation sequence differs from FIPS 46-3 at this stop point', case0, str(res.get('model'))[:1500], rp, o)
            if not H.untouched(st, key):
                rep.obligation('frame[%s,k%d,%s]' % (mode, kl, shape_kind), MOD + '::_ParametricCipher.parametric_cipher', 'frame', dict(result='sat', backend='frame-scan', secs=0))
                c2 = dict(case0); c2['kind'] = 'cipher-frame'; rp, o = replay(c2)
                rep.violation('frame[%s,k%d,%s]' % (mode, kl, shape_kind), MOD + '::_ParametricCipher.parametric_cipher', 'caller array modified', c2, None, rp, o)
            elif at_round is None:
                rep.obligation('frame[%s,k%d,%s]' % (mode, kl, shape_kind), MOD + '::_ParametricCipher.parametric_cipher', 'frame', dict(result='unsat', backend='frame-scan', secs=0))

def history(des, rep, timeout):
    """calls do not influence each other: after stop points that force extra steps into the round lists, a full encryption is still standard"""
    def body():
        st = H.sym_bytes('X', (8,), 'uint8'); key = H.sym_bytes('K', (8,), 'uint8')
        L.set_task(stubs=comp_stubs())
        for (r_, s_) in ((0, 7), (0, 8), (15, 6), (3, 7), (15, 7), (15, 8)):
            des.fn('encrypt')(st, key, at_round=r_, after_step=s_)
        return st, key, des.fn('encrypt')(st, key), des.fn('decrypt')(st, key, at_round=2, after_step=9)
    for p, outc, exc in core.explore(body):
        if exc is not None:
            rep.obligation('history[encrypt after stops 7/8/6]', MOD + '::_ParametricCipher._prepare_rounds', 'post', dict(result='sat', backend='exec', secs=0), sample=repr(exc))
            rep.violation('history[encrypt after stops 7/8/6]', MOD + '::_ParametricCipher._prepare_rounds', 'raises %r' % (exc,), dict(kind='history'), None, *replay(dict(kind='history'))); continue
        st, key, out, out2 = outc
        block = row_bits([st.at(j) for j in range(8)], 8); rks = spec_round_keys(8, 0, None)
        for nm, o_, (mode, ar) in (('full encrypt', out, ('encrypt', 15)), ('decrypt stop (2,9)', out2, ('decrypt', 2))):
            kind, eb = D.tdes(block, D.passes_for(rks, mode), 0, ar, 9, SymBits); exp = words_of(kind, eb)
            got = [o_.at(j) for j in range(8)]
            res = dict(result='unsat', backend='structural', secs=0) if H.structurally_equal(got, exp) else solve.discharge(p.pc, H.eq_all(got, exp), timeout_ms=timeout)
            rep.obligation('history[%s after stops 7/8/6]' % nm, MOD + '::_ParametricCipher._prepare_rounds', 'post', res, sample='class-level round lists are not mutated by earlier calls')
            if res['result'] == 'sat':
                rp, o = replay(dict(kind='history'))
                rep.violation('history[%s after stops 7/8/6]' % nm, MOD + '::_ParametricCipher._prepare_rounds', 'a later call returns a non-standard value after earlier stop-point calls', dict(kind='history'), str(res.get('model'))[:800], rp, o)

def history_inplace(des, rep, timeout):
    """calls do not influence each other (2): the SAME array object passed again after its contents were replaced in place gives the result of
    the NEW contents, and the array returned by the first call still holds the first result (no state kept between calls, no shared buffer)"""
    fnk = MOD + '::_ParametricCipher.parametric_cipher'
    for mode, stop in (('encrypt', {}), ('decrypt', {}), ('encrypt', dict(at_round=0, after_step=0)), ('encrypt', dict(at_round=3, after_step=4))):
        tag = '%s%s' % (mode, ',r%s,s%s' % (stop['at_round'], stop['after_step']) if stop else '')
        def body():
            st = H.sym_bytes('X', (8,), 'uint8'); X2 = H.sym_bytes('X2', (8,), 'uint8'); key = H.sym_bytes('K', (8,), 'uint8')
            L.set_task(stubs=comp_stubs())
            out1 = des.fn(mode)(st, key, **stop)
            before = [out1.at(j) for j in range(out1.shape[-1])]
            st[:] = X2                                              # the caller refills its buffer
            out2 = des.fn(mode)(st, key, **stop)
            after = [out1.at(j) for j in range(out1.shape[-1])]
            return st, key, out2, before, after, out1.st is out2.st
        for p, outc, exc in core.explore(body):
            oname = 'history[%s: same array object, contents replaced in place between two calls]' % tag; case = dict(kind='history_inplace')
            if exc is not None:
                rep.obligation(oname, fnk, 'post', dict(result='sat', backend='exec', secs=0), sample=repr(exc))
                rep.violation(oname, fnk, 'raises %r' % (exc,), case, None, *replay(case)); continue
            st, key, out2, before, after, shared = outc
            block = row_bits([st.at(j) for j in range(8)], 8); rks = spec_round_keys(8, 0, None)
            kind, eb = D.tdes(block, D.passes_for(rks, mode), 0, stop.get('at_round', 15), stop.get('after_step', 9), SymBits); exp = words_of(kind, eb)
            ok = out2.ndim == 1 and out2.shape[-1] == len(exp)
            got = [word_of(bits_of(out2.at(j), 8)) for j in range(len(exp))] if ok else []
            res = dict(result='sat', backend='exec', secs=0) if not ok else (dict(result='unsat', backend='structural', secs=0) if H.structurally_equal(got, exp) else solve.discharge(p.pc, H.eq_all(got, exp), timeout_ms=timeout))
            rep.obligation(oname, fnk, 'post', res, sample='second call == fips46 of the new contents')
            if res['result'] == 'sat': rep.violation(oname, fnk, 'the second call does not return the value of the new contents of the array', case, str(res.get('model'))[:600], *replay(case))
            res2 = dict(result='sat', backend='frame-scan', secs=0) if shared else (dict(result='unsat', backend='structural', secs=0) if H.structurally_equal(before, after, simp=True) else solve.discharge(p.pc, H.eq_all(before, after), timeout_ms=timeout))
            rep.obligation('history[%s: the array returned by the first call is not overwritten by the second]' % tag, fnk, 'frame', res2)
            if res2['result'] == 'sat': rep.violation('history[%s: first result overwritten]' % tag, fnk, 'the result of an earlier call aliases a buffer that later calls write', case, None, *replay(case))

def refusals(des, rep):
    for kw in (dict(at_round=16), dict(at_round=-1), dict(after_step=10), dict(after_step=-1), dict(at_des=1), dict(at_des=3, _kl=16)):
        kl = kw.pop('_kl', 8)
        def body():
            st = H.sym_bytes('X', (8,), 'uint8'); key = H.sym_bytes('K', (kl,), 'uint8'); L.set_task(stubs=comp_stubs())
            return des.fn('encrypt')(st, key, **kw)
        for p, outc, exc in core.explore(body):
            ok = isinstance(exc, (ValueError, TypeError))
            rep.obligation('raises[%s]' % kw, MOD + '::_ParametricCipher.parametric_cipher', 'raises', dict(result='unsat' if ok else 'sat', backend='exec', secs=0), sample=repr(exc))
            if not ok: rep.violation('raises[%s]' % kw, MOD + '::_ParametricCipher.parametric_cipher', 'out-of-range argument accepted (%r)' % (exc,), dict(kind='refuse', kw=kw, kl=kl), None, None)

def canaries(des, rep, timeout):
    def body():
        N = core.sym_int('N', 1); st = H.sym_bytes('X', (N, 8), 'uint8'); L.set_task(stubs={'scared._utils::_is_bytes_array': bytes_stub})
        return st, des.fn('initial_permutation')(st)
    for p, (st, out), exc in core.explore(body):
        idx, cons = H.generic_index(st.shape[:1])
        exp = words_of('LR64', D.permute(row_bits(H.row_elems(st, idx), 8), D.FP))
        res = solve.discharge(p.pc + cons, H.eq_all(H.row_elems(out, idx), exp), timeout_ms=timeout)
        rep.canary('initial_permutation == FP table', res['result'] == 'sat')

def stop_list(kl, tier, shape_kind):
    ndes = {8: 1, 128: 1}.get(kl, 3)
    rounds = list(range(16)) if tier == 'thorough' else [0, 1, 15]
    steps = list(range(10))
    if tier != 'thorough' and shape_kind != 'N-N': steps = [0, 5, 9]; rounds = [0, 15]
    out = []
    for d in range(ndes):
        for r in rounds:
            for s in steps: out.append((d, r, s))
    out.append((None, None, 9))
    return out

def main():
    ap = argparse.ArgumentParser(); ap.add_argument('--tier', default=os.environ.get('VERIF_TIER', 'quick')); ap.add_argument('--replay')
    a = ap.parse_args(); seed = int(os.environ.get('VERIF_SEED', '0'))
    if a.replay:
        rp, o = replay(json.load(open(a.replay))['case']); print(o); sys.exit(1 if rp else 0)
    rep = R.Report('C06', a.tier, seed); timeout = solve.TIMEOUT_MS[a.tier]
    errs = D.self_check()
    if errs: rep.errors.append('fips46 self-check: %s' % errs)
    des = DC.DesUnderProof()
    for n in list(PRIMS) + ['add_round_key', 'encrypt', 'decrypt', '_ParametricCipher.parametric_cipher', '_ParametricCipher._parametric_cipher_step', '_ParametricCipher._prepare_keys',
                            '_ParametricCipher._prepare_des_iterations', '_ParametricCipher._prepare_rounds', '_ParametricCipher._set_at_round', '_ParametricCipher._set_after_step',
                            '_ParametricCipher._set_at_des', '_ParametricCipher._set_mode', '_is_bytes_of_len']:
        rep.function(MOD + '::' + n, des.sha(n))
    check_tables(des, rep)
    dtypes = ['uint8', 'uint16'] if a.tier == 'quick' else ['uint8', 'uint16', 'uint32', 'uint64']      # primitives: byte arrays (unsigned); signed dtypes are refused by numpy's same_kind rule in IP/FP/E/P
    units = [('prim', n, dt, lk) for n in PRIMS for dt in dtypes for lk in ('N', '1')] + [('lemma',), ('history',), ('history2',)]
    for mode in ('encrypt', 'decrypt'):
        for kl in (8, 16, 24, 128, 256, 384):
            for sk in ('N-N', '1-1', 'N-1', '1-N'):
                stops = stop_list(kl, a.tier, sk)
                stops.sort(key=lambda s: -((s[0] or 0) * 16 + (15 if s[1] is None else s[1])))
                chunk = 3 if kl in (8, 128) else 1
                for k in range(0, len(stops), chunk): units.append(('comp', mode, kl, sk, stops[k:k + chunk], 'uint8'))
            units.append(('comp', mode, kl, 'N-N', [(None, None, 9), (0, 0, 5)], 'int64'))
    def work(sub, kind, *args):
        if kind == 'prim': prim_obligations(des, sub, args[0], args[1], args[2], timeout)
        elif kind == 'lemma': lemma_obligations(des, sub, timeout)
        elif kind == 'history': history(des, sub, timeout)
        elif kind == 'history2': history_inplace(des, sub, timeout)
        elif kind == 'comp': composition(des, sub, args[0], args[1], args[2], args[3], timeout, args[4])
    P.run_units(rep, work, units)
    refusals(des, rep); canaries(des, rep, timeout)
    n = 40 if a.tier == 'quick' else 500
    rc, o, so, se = R.run_native('props.c06_native', ['bounded', str(n), str(seed)], timeout=1500)
    if o is None: rep.errors.append('native stand-in failed: %s %s' % (so[-500:], se[-800:]))
    else:
        rep.bounded.append(dict(function='scared.des.base encrypt/decrypt/primitives vs specs.fips46 under /venv/bin/python', bound='%d random (key kind, mode, stop point, shape, dtype) cases' % n, evaluations=o['evaluations'], distinct=o['evaluations'], exhaustive=False, failures=o['failures']))
        for f in o['failing'][:3]: rep.violation('bounded[native-vs-spec]', MOD + '::encrypt', 'real code differs from FIPS 46-3 on a sampled input', f, None, True, f)
    rep.assume('A4', 'A6', 'T-pyvc', 'T-spec')
    rep.trust('scared._utils._is_bytes_array replaced by its contract (inputs byte-valued by construction)',
              'des.key_schedule: modular call (uninterpreted round-key words) in the composition obligations; its conformance is property C10')
    if a.tier == 'quick': rep.notes.append('direct calls of IP/FP/E/P with signed integer dtypes raise UFuncTypeError (refused, not wrong); the property quantifies over byte blocks, so primitives are proved for unsigned dtypes and the full cipher for any integer dtype')
    if a.tier == 'quick': rep.not_decided.append('quick tier: composition proved at rounds 0, 1, 15 (all steps, all passes, paired shape) and rounds 0, 15 x steps 0, 5, 9 for the other three shapes; the thorough tier covers every round')
    sys.exit(rep.finish('./check C06 --tier %s' % a.tier))

if __name__ == '__main__':
    main()
