"""C09 -- t-test equals the Welch statistic whatever the batching and thread timing.

  Welch formula   TTestThreadAccumulator.compute + TTestAnalysis._compute (real source): for ghost moments of two real data sets (sums, sums of
                  squares, counts n1, n2 >= 1, S symbolic): result[s]^2 (var1/n1 + var2/n2) == (mean1 - mean2)^2 with the sign of mean1 - mean2
                  (population variances), i.e. (mean1 - mean2)/sqrt(var1/n1 + var2/n2), whenever the denominator is positive
  accumulation    update(): sum' == sum + batch sum, sum_squared' == sum_squared + batch sum of squares (kernel contract, shared with C01),
                  processed_traces' == processed_traces + rows; first call creates zero accumulators; repeated runs continue the same sums
  run()           TTestAnalysis.run over real Container objects (estraces behind its contract) with threads replaced by the sequential
                  schedule: both accumulators are fed every row of their own container exactly once (batch size symbolic via slices, trace
                  counts concrete), the frame/preprocess chain is applied, and a failure raised anywhere inside one accumulator's loop
                  (havoc: which batch, which container) is re-raised to the caller before any result is produced
  non-interference  the write footprint of an accumulator is its own attributes: the two accumulators are distinct objects and share nothing
                  writable (AST scan), so under the threading contract (start runs run() once, join waits) every interleaving gives the
                  sequential result.  Interleavings themselves are NOT explored by this family.
"""
import sys, os, argparse, json, ast, types, textwrap
sys.path.insert(0, os.path.dirname(os.path.dirname(os.path.abspath(__file__))))
import z3
import numpy as _rnp
from pyvc import core, symnp, solve, loader as L, harness as H, report as R, parallel as P
from pyvc.core import SInt, SFloat, zi
from props import dist_common as DCm, kernels as KN
from props.dist_common import moment_tensor, real_of

TT = 'scared.ttest'
def native(case): return R.replay_native('props.c09_native', case)

def threading_stub():
    """trusted threading contract, sequential schedule: start() runs run() exactly once, join() returns after run() ended"""
    m = types.ModuleType('threading')
    class Thread:
        _initialized = False; _tstate_lock = None; _alive = False
        def __init__(self, daemon=None, **kw): self._initialized = True; self._started = False; self._alive = False; self._tstate_lock = None; self.daemon = daemon
        def start(self):
            self._started = True; self._alive = True
            try: self.run()
            except BaseException: pass          # an exception escaping run() ends the thread; it never reaches the thread that called start()
            finally: self._alive = False
        def run(self): pass
        def join(self, timeout=None): return None
        def is_alive(self): return self._alive
    m.Thread = Thread
    return m

class Under:
    def __init__(self):
        from pyvc import sums; sums.install()
        self.ld = L.Loader(); self.ld.stubs['threading'] = threading_stub()
        self.tt = self.ld.load(TT); self.cont = self.ld.load('scared.container'); self.E = self.ld.extra['estraces']

def welch(u, rep, precision, timeout):
    fn = TT + '::TTestAnalysis._compute'
    def body():
        an = u.tt.TTestAnalysis(precision=precision); S = core.sym_int('S', 1); accs = []
        for k in (1, 2):
            a = u.tt.TTestThreadAccumulator(precision=an.precision); a.processed_traces = core.sym_int('n%d' % k, 1)
            a.sum = moment_tensor('SUM%d' % k, (S,), precision); a.sum_squared = moment_tensor('SQ%d' % k, (S,), precision); accs.append(a)
        an.accumulators = accs
        snaps = [(a.sum.st, a.sum.st.version, a.sum_squared.st, a.sum_squared.st.version) for a in accs]
        core.SQRT_ARGS.clear()
        for a in accs: a.compute()
        an._compute()
        frame = all(a.sum.st is s0 and s0.version == v0 and a.sum_squared.st is s1 and s1.version == v1 for a, (s0, v0, s1, v1) in zip(accs, snaps))
        return an, accs, S, frame
    for p, outc, exc in core.explore(body):
        if exc is not None:
            rep.obligation('post[Welch %s]' % precision, fn, 'post', dict(result='sat', backend='exec', secs=0), sample=repr(exc)); rep.violation('post[Welch %s]' % precision, fn, 'raises %r' % (exc,), dict(kind='welch'), None, *native(dict(kind='welch'))); continue
        an, accs, S, frame = outc
        s = z3.Int('s!'); cons = [s >= 0, s < S.z]
        n1, n2 = z3.ToReal(accs[0].processed_traces.z), z3.ToReal(accs[1].processed_traces.z)
        m1, m2 = accs[0].sum.uf(s) / n1, accs[1].sum.uf(s) / n2
        v1, v2 = accs[0].sum_squared.uf(s) / n1 - m1 * m1, accs[1].sum_squared.uf(s) / n2 - m2 * m2
        den = v1 / n1 + v2 / n2
        req = [v1 >= 0, v2 >= 0]
        got = core.to_float(an.result.at(SInt(s)))
        fin = core.zb(got.finite()) if not isinstance(got.finite(), bool) else z3.BoolVal(got.finite())
        ax = core.sqrt_axioms(pairs=False)
        for nm, g in (('is finite when the pooled variance term is positive', z3.Implies(den > 0, fin)), ('t^2 (var1/n1 + var2/n2) == (mean1 - mean2)^2', z3.Implies(z3.And(den > 0, fin), got.v * got.v * den == (m1 - m2) * (m1 - m2))),
                      ('t has the sign of mean1 - mean2', z3.Implies(z3.And(den > 0, fin), got.v * (m1 - m2) >= 0))):
            r_ = solve.discharge(p.pc + cons + req, g, extra=ax, timeout_ms=timeout, nra=True)
            rep.obligation('post[Welch %s: %s]' % (precision, nm), fn, 'post', r_, sample='forall moments of two data sets, all n1, n2 >= 1, all samples (population variances)')
            if r_['result'] == 'sat': rep.violation('post[Welch %s: %s]' % (precision, nm), fn, nm + ' fails', dict(kind='welch', precision=precision), str(r_.get('model'))[:500], *native(dict(kind='welch', precision=precision)))
        rep.obligation('frame[Welch %s: compute leaves sum / sum_squared untouched]' % precision, TT + '::TTestThreadAccumulator.compute', 'frame', dict(result='unsat' if frame else 'sat', backend='frame-scan', secs=0))
        if not frame: rep.violation('frame[Welch %s: compute leaves sum / sum_squared untouched]' % precision, TT + '::TTestThreadAccumulator.compute', 'compute() writes the accumulators', dict(kind='welch'), None, *native(dict(kind='welch')))

def update_contract(u, rep, timeout):
    fn = TT + '::TTestThreadAccumulator.update'
    def body():
        a = u.tt.TTestThreadAccumulator(precision=_rnp.dtype('float64')); P0 = core.sym_int('P0', 0); a.processed_traces = P0
        first = bool(core.sym_int('first', 0, 1) == 1)
        S = 2
        if not first: a.sum = moment_tensor('SUM', (S,), 'float64'); a.sum_squared = moment_tensor('SQ', (S,), 'float64')
        old = (a.sum.snapshot(), a.sum_squared.snapshot()) if not first else None
        X = H.sym_reals('X', (3, S), 'float32')
        a.update(X)
        return a, P0, X, old, first
    for p, outc, exc in core.explore(body):
        if exc is not None:
            rep.obligation('post[update]', fn, 'post', dict(result='sat', backend='exec', secs=0), sample=repr(exc)); rep.violation('post[update]', fn, 'raises %r' % (exc,), dict(kind='update'), None, *native(dict(kind='update'))); continue
        a, P0, X, old, first = outc; goals = [zi(a.processed_traces) == P0.z + 3]
        for s in range(2):
            bs = sum(real_of(X.at(t, s)) for t in range(3)); bq = sum(real_of(X.at(t, s)) * real_of(X.at(t, s)) for t in range(3))
            o1 = real_of(old[0]((s,))) if old else z3.RealVal(0); o2 = real_of(old[1]((s,))) if old else z3.RealVal(0)
            goals += [real_of(a.sum.at(s)) == o1 + bs, real_of(a.sum_squared.at(s)) == o2 + bq]
        r_ = solve.discharge(p.pc, z3.And(*goals), timeout_ms=timeout)
        nm = 'post[update (%s): sums grow by the batch sums, processed_traces by the number of rows]' % ('first call, accumulators created at zero' if first else 'later call')
        rep.obligation(nm, fn, 'post', r_)
        if r_['result'] == 'sat': rep.violation(nm, fn, 'update does not add the batch', dict(kind='update'), str(r_['model'])[:300], *native(dict(kind='update')))
    for bad in ([[1.0, 2.0]],):
        for p, outc, exc in core.explore(lambda: u.tt.TTestThreadAccumulator(precision=_rnp.dtype('float64')).update(bad)):
            ok = isinstance(exc, TypeError)
            rep.obligation('raises[update refuses a non-array]', fn, 'raises', dict(result='unsat' if ok else 'sat', backend='exec', secs=0), sample=repr(exc))

class Boom(Exception): pass
def run_contract(u, rep, fail_at, timeout):
    """TTestAnalysis.run on two containers (3 and 2 traces, batch size 2); fail_at = None or (container index, batch index) where a preprocess raises"""
    fn = TT + '::TTestAnalysis.run'
    def body():
        calls = {'n': [0, 0]}
        def mk_pp(ci):
            def pp(traces):
                k = calls['n'][ci]; calls['n'][ci] += 1
                if fail_at is not None and fail_at == (ci, k): raise Boom('injected failure in container %d batch %d' % (ci, k))
                f = traces.snapshot(); return symnp.ndarray.fresh(traces.shape, lambda i: SFloat(real_of(f(i)) * 2 + 1, 'float64'), 'float64')
            return pp
        ths = [u.E.TraceHeaderSet('A', 3, 6, 'float32', {}), u.E.TraceHeaderSet('B', 2, 6, 'float32', {})]
        u.cont.Container._BATCH_SIZE = 2
        tc = u.tt.TTestContainer.__new__(u.tt.TTestContainer)
        tc.containers = [u.cont.Container(ths[i], frame=slice(1, 3), preprocesses=[mk_pp(i)]) for i in range(2)]
        an = u.tt.TTestAnalysis(precision='float64')
        an.run(tc)
        return an, ths
    for p, outc, exc in core.explore(body):
        tag = 'no failure' if fail_at is None else 'failure in set %d, batch %d' % (fail_at[0] + 1, fail_at[1])
        if fail_at is not None:
            ok = isinstance(exc, Boom)
            rep.obligation('raises[run: %s is re-raised to the caller instead of yielding a result]' % tag, fn, 'raises', dict(result='unsat' if ok else 'sat', backend='exec', secs=0), sample=repr(exc))
            if not ok: rep.violation('raises[run: %s is re-raised to the caller instead of yielding a result]' % tag, fn, 'the failure is lost (outcome: %r)' % (exc if exc is not None else 'a result'), dict(kind='failure', at=list(fail_at)), None, *native(dict(kind='failure', at=list(fail_at))))
            continue
        if exc is not None:
            rep.obligation('post[run: %s]' % tag, fn, 'post', dict(result='sat', backend='exec', secs=0), sample=repr(exc)); rep.violation('post[run: %s]' % tag, fn, 'raises %r' % (exc,), dict(kind='run'), None, *native(dict(kind='run'))); continue
        an, ths = outc; goals = []
        for k, (a, t, n) in enumerate(zip(an.accumulators, ths, (3, 2))):
            goals.append(zi(a.processed_traces) == n)
            for c in range(2):
                rows = [t.S(z3.IntVal(r), z3.IntVal(1 + c)) * 2 + 1 for r in range(n)]
                goals += [real_of(a.sum.at(c)) == sum(rows), real_of(a.sum_squared.at(c)) == sum(x * x for x in rows)]
        r_ = solve.discharge(p.pc, z3.And(*goals), timeout_ms=timeout)
        nm = 'post[run: each accumulator holds the sums of ALL rows of its own set (frame, then preprocess), tail batch included]'
        rep.obligation(nm, fn, 'post', r_)
        if r_['result'] == 'sat': rep.violation(nm, fn, 'an accumulator does not hold the sums of its whole set', dict(kind='run'), str(r_['model'])[:300], *native(dict(kind='run')))
        ok = hasattr(an, 'result') and an.accumulators[0] is not an.accumulators[1]
        rep.obligation('post[run: result produced from two distinct accumulators]', fn, 'post', dict(result='unsat' if ok else 'sat', backend='exec', secs=0))
    u.cont.Container._BATCH_SIZE = list(u.cont._ORIGINAL_BATCH_SIZES)

def footprint(u, rep):
    """write footprint of TTestThreadAccumulator methods: only attributes of self (and arrays it allocated)"""
    src = u.ld.sources[TT][1]; tree = ast.parse(src); bad = []
    for cls in tree.body:
        if isinstance(cls, ast.ClassDef) and cls.name == 'TTestThreadAccumulator':
            for f in cls.body:
                if not isinstance(f, ast.FunctionDef): continue
                for node in ast.walk(f):
                    tg = node.targets if isinstance(node, ast.Assign) else ([node.target] if isinstance(node, (ast.AugAssign, ast.AnnAssign)) else [])
                    for t in tg:
                        base = t
                        while isinstance(base, (ast.Subscript, ast.Attribute)): base = base.value
                        if isinstance(t, ast.Name): continue
                        params = {a.arg for a in f.args.args}
                        if isinstance(base, ast.Name) and (base.id == 'self' or (f.name == '_update_core' and base.id in ('self_sum', 'self_sum_squared', 'tmp'))): continue
                        bad.append('%s: %s' % (f.name, ast.unparse(t)))
                    if isinstance(node, ast.Global): bad.append('%s: global' % f.name)
    ok = not bad
    rep.obligation('frame[TTestThreadAccumulator writes only its own attributes and the arrays passed to its kernel]', TT + '::TTestThreadAccumulator', 'frame', dict(result='unsat' if ok else 'sat', backend='ast-scan', secs=0), sample=str(bad))
    if not ok: rep.violation('frame[TTestThreadAccumulator writes only its own attributes and the arrays passed to its kernel]', TT + '::TTestThreadAccumulator', 'write outside the accumulator: %s' % bad, dict(kind='footprint', stores=bad), 'AST scan', *native(dict(kind='timing')))

def main():
    ap = argparse.ArgumentParser(); ap.add_argument('--tier', default=os.environ.get('VERIF_TIER', 'quick')); ap.add_argument('--replay')
    a = ap.parse_args(); seed = int(os.environ.get('VERIF_SEED', '0'))
    if a.replay:
        rp, o = native(json.load(open(a.replay))['case']); print(o); sys.exit(1 if rp else 0)
    rep = R.Report('C09', a.tier, seed); timeout = solve.TIMEOUT_MS[a.tier]
    R.prefetch_native('props.c09_native', ['bounded', str(seed), a.tier])      # the stand-in runs while the obligations are discharged
    u = Under()
    for k in ('TTestContainer.__init__', 'TTestAnalysis.__init__', 'TTestAnalysis.run', 'TTestAnalysis._compute', 'TTestThreadAccumulator.__init__', 'TTestThreadAccumulator._initialize', 'TTestThreadAccumulator._update_core', 'TTestThreadAccumulator.update',
              'TTestThreadAccumulator.stop', 'TTestThreadAccumulator.run', 'TTestThreadAccumulator.start', 'TTestThreadAccumulator.join', 'TTestThreadAccumulator.compute'): rep.function(TT + '::' + k, u.ld.fn_hash.get(TT + '::' + k))
    for prec in ('float32', 'float64'): welch(u, rep, prec, timeout)
    update_contract(u, rep, timeout)
    for fa in (None, (0, 0), (0, 1), (1, 0)): run_contract(u, rep, fa, timeout)
    footprint(u, rep)
    du = DCm.Dist()
    for (n, S, td, pr) in ((2, 2, 'float32', 'float64'), (3, 1, 'int8', 'float32'), (2, 1, 'float64', 'float32')):
        KN.report_kernel(rep, KN.ttest_kernel(du, n, S, td, pr), 't-test kernel, %d traces x %d samples, %s->%s' % (n, S, td, pr), TT + '::TTestThreadAccumulator._update_core', timeout, native, dict(kind='update'))
    from props import kernel_inv as KI
    for td, pr in (('float32', 'float64'), ('int8', 'float32'), ('float64', 'float32')):      # the same kernel with EVERY extent symbolic (a batch of any number of traces)
        try: KI.report(rep, KI.ttest_core(du, td, pr), 't-test kernel loop invariant, traces and samples symbolic, %s->%s' % (td, pr), TT + '::TTestThreadAccumulator._update_core', timeout, (1,), native, dict(kind='update'))
        except core.Undecided as e: rep.undecided.append(dict(obligation='t-test kernel loop invariant, %s->%s' % (td, pr), reason='engine limit: %s' % e))
    rc, o, so, se = R.run_native('props.c09_native', ['bounded', str(seed), a.tier], timeout=2400)
    if o is None: rep.errors.append('native stand-in failed: %s %s' % (so[-400:], se[-900:]))
    else:
        rep.bounded.append(dict(function='TTestAnalysis.run with real threads on real containers: Welch reference, batch sizes, repeated runs, injected per-batch delays, injected failures', bound=o['bound'], evaluations=o['evaluations'], distinct=o['evaluations'], exhaustive=False, failures=o['failures']))
        for f in o['failing'][:3]: rep.violation('bounded[native,%s]' % f.get('kind'), TT + '::TTestAnalysis.run', f.get('detail', 'differs'), f, None, True, f)
    rep.assume('A1', 'A3', 'A4', 'A6', 'T-pyvc')
    rep.trust('threading: Thread.start eventually runs run() exactly once, join returns after run() ended; the proof uses the sequential schedule and the disjoint write footprints -- interleavings are not explored',
              'estraces / Container slicing: pyvc/estub.py and property C02', 'variances of real data are >= 0 (precondition of the Welch obligations)')
    rep.not_decided.append('thread interleavings and injected delays are exercised only by the native stand-in (real threads); this family has no schedule semantics')
    sys.exit(rep.finish('./check C09 --tier %s' % a.tier))

if __name__ == '__main__':
    main()
