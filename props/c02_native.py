"""C02 / C08 native side: real analyses on real in-RAM containers (estraces) under /venv/bin/python."""
import sys, json, random, itertools
import numpy as np

def mk_ths(n, width=12, seed=0, dtype='float64'):
    import estraces
    rng = np.random.default_rng(seed)
    samples = rng.normal(size=(n, width)).astype(dtype) * 3 + np.arange(width)
    pt = rng.integers(0, 256, (n, 4)).astype('uint8')
    return estraces.read_ths_from_ram(samples=samples, plaintext=pt), samples, pt

def sfun():
    import scared
    @scared.attack_selection_function(guesses=range(8), words=None)
    def sf(plaintext, guesses):
        out = np.empty((plaintext.shape[0], len(guesses), plaintext.shape[1]), dtype='uint8')
        for i, g in enumerate(guesses): out[:, i, :] = plaintext ^ np.uint8(g * 31 & 0xff)
        return out
    @scared.reverse_selection_function
    def rsf(plaintext): return plaintext
    return sf, rsf

def one_shot(kind, samples, data, precision):
    import scared
    d = {'CPA': scared.CPADistinguisher, 'DPA': scared.DPADistinguisher, 'ANOVA': lambda precision: scared.ANOVADistinguisher(partitions=range(9), precision=precision),
         'NICV': lambda precision: scared.NICVDistinguisher(partitions=range(9), precision=precision), 'SNR': lambda precision: scared.SNRDistinguisher(partitions=range(9), precision=precision),
         'MIA': lambda precision: scared.MIADistinguisher(bin_edges=np.linspace(-12, 24, 7), partitions=range(9), precision=precision)}[kind](precision=precision)
    d.update(samples, data); return d.compute()

def build(kind, attack, conv=None, precision='float64'):
    import scared
    sf, rsf = sfun()
    model = scared.Monobit(0) if kind == 'DPA' else scared.HammingWeight()
    kw = dict(precision=precision)
    if kind in ('ANOVA', 'NICV', 'SNR', 'MIA'): kw['partitions'] = range(9)
    if kind == 'MIA': kw['bin_edges'] = np.linspace(-12, 24, 7)
    if attack:
        cls = getattr(scared, kind + 'Attack'); return cls(selection_function=sf, model=model, discriminant=scared.maxabs, convergence_step=conv, **kw)
    return getattr(scared, kind + 'Reverse')(selection_function=rsf, model=model, **kw)

def run_case(kind, attack, ns, bsz, frame, pps, conv=None):
    """returns None if run()==one-shot on the concatenation (and scores == discriminant(results)), else a description"""
    import scared
    scared.set_batch_size(bsz)
    try:
        a = build(kind, attack, conv)
        all_s, all_pt = [], []
        for r, n in enumerate(ns):
            ths, s, pt = mk_ths(n, seed=100 + r)
            cont = scared.Container(ths, frame=frame, preprocesses=list(pps))
            a.run(cont)
            fs = s if frame is None else s[:, frame]
            for pp in pps: fs = pp(fs)
            all_s.append(fs); all_pt.append(pt)
        S = np.concatenate(all_s); PT = np.concatenate(all_pt)
        data = a.model(a.selection_function(plaintext=PT))
        ref = one_shot(kind, S, data, 'float64')
        if a.results.shape != ref.shape or not np.allclose(a.results, ref, rtol=1e-7, atol=1e-9, equal_nan=True): return 'results differ from the one-shot statistic'
        if attack and not np.array_equal(a.scores, a.discriminant(a.results), equal_nan=True): return 'scores != discriminant(results)'
        if a.processed_traces != sum(ns): return 'processed_traces %s != %s' % (a.processed_traces, sum(ns))
        return None
    finally:
        scared.set_batch_size(None)

def binning_case(bsz):
    """a distinguisher that bins the raw sample values (MIA) with an integer accumulator precision: the batches must reach it as the container delivers them"""
    import scared
    scared.set_batch_size(bsz)
    try:
        ths, s, pt = mk_ths(40, seed=7); sf, rsf = sfun()
        edges = np.linspace(-12, 24, 7)
        a = scared.MIAReverse(selection_function=rsf, model=scared.HammingWeight(), partitions=range(9), bin_edges=edges, precision='uint32')
        a.run(scared.Container(ths))
        d = scared.MIADistinguisher(bin_edges=edges, partitions=range(9), precision='uint32'); d.update(s, a.model(a.selection_function(plaintext=pt)))
        ref = d.compute()
        if a.results.shape != ref.shape or not np.allclose(a.results, ref, rtol=1e-9, atol=1e-12, equal_nan=True): return 'MIAReverse(precision=uint32) on float64 samples differs from the one-shot distinguisher on the same samples (max diff %r)' % float(np.nanmax(np.abs(a.results - ref)))
        return None
    finally:
        scared.set_batch_size(None)

def conv_case(kind, ns, bsz, step, precision='float64'):
    import scared
    scared.set_batch_size(bsz)
    try:
        a = build(kind, True, step, precision); plain = build(kind, True, None, precision)
        pts_all = []; S = []; PT = []
        for r, n in enumerate(ns):
            ths, s, pt = mk_ths(n, seed=200 + r)
            a.run(scared.Container(ths)); plain.run(scared.Container(ths)); S.append(s); PT.append(pt)
        S = np.concatenate(S); PT = np.concatenate(PT); total = sum(ns)
        if not np.allclose(a.results, plain.results, rtol=1e-8, atol=1e-10, equal_nan=True) or not np.allclose(a.scores, plain.scores, rtol=1e-8, atol=1e-10, equal_nan=True): return 'results/scores changed by convergence_step (beyond batch-split rounding)'
        ct = a.convergence_traces
        if ct is None or ct.shape[-1] < 1: return 'no convergence column'
        if not np.array_equal(ct[..., -1], a.scores, equal_nan=True): return 'last column != final scores (precision %s, scores %s, convergence traces %s)' % (precision, a.scores.dtype, ct.dtype)
        # each column must be the score of SOME prefix; recover the prefix sizes greedily and check monotonic / step
        pts = []
        for j in range(ct.shape[-1]):
            found = None
            for P in range((pts[-1] + 1) if pts else 1, total + 1):
                f = build(kind, True, None, precision); data = f.model(f.selection_function(plaintext=PT[:P])); f.update(S[:P], data); f.compute_results() if False else None
                res = f.compute(); sc = f.discriminant(res)
                if np.allclose(sc, ct[..., j], rtol=1e-9 if precision == 'float64' else 1e-4, atol=1e-12 if precision == 'float64' else 1e-6, equal_nan=True): found = P; break
            if found is None: return 'column %d is not the score of any later prefix' % j
            pts.append(found)
        if pts[-1] != total: return 'last point %d != %d' % (pts[-1], total)
        if any(y <= x for x, y in zip(pts, pts[1:])): return 'points %s not strictly increasing' % (pts,)
        # regular points are at least `step` after the previous regular point; the remainder column at the end of a run() is exempt
        ends = set(np.cumsum(ns).tolist()); prev = 0
        for q in pts:
            if q - prev >= step: prev = q
            elif q not in ends: return 'points %s: %d is closer than step %d to the previous regular point %d and is not a final remainder' % (pts, q, step, prev)
        return None
    finally:
        scared.set_batch_size(None)

def replay(case):
    import scared
    prop = case.get('prop'); k = case['kind']
    try:
        if k == 'slices':
            n, bs = int(case.get('n', 7)), int(case.get('bs', 3)); n = min(n, 5000)
            from scared.container import _TracesBatchIterable
            ths, s, pt = mk_ths(max(n, 0))
            it = _TracesBatchIterable(ths, bs, Ellipsis, []) if n > 0 else None
            rows = [len(b) for b in it] if it is not None else []
            ok = sum(rows) == n and all(0 < r <= bs for r in rows) and all(r == bs for r in rows[:-1])
            got = np.concatenate([b.samples for b in it]) if rows else np.zeros((0, 12))
            ok = ok and np.array_equal(got, s)
            return dict(reproduced=not ok, rows=rows)
        if k in ('run', 'wrapper', 'batch_table'):
            r = bounded(prop or 'C02', 1, 'quick', quick_only=True)
            return dict(reproduced=r['failures'] > 0, detail=r['failing'][:1])
        if k == 'conv_bs':
            a = build('CPA', True, int(case['step'])); r = a._compute_batch_size(int(case['base']))
            return dict(reproduced=not (1 <= r <= int(case['step'])), got=r)
    except Exception as e:
        return dict(reproduced=True, detail='raises %r' % (e,))
    return dict(reproduced=None)

def bounded(prop, seed, tier, quick_only=False):
    import scared
    rnd = random.Random(seed); fails = []; ev = 0
    if prop == 'C02':
        kinds = ['CPA', 'DPA', 'ANOVA', 'NICV', 'SNR', 'MIA']
        frames = [None, slice(2, 9), [5, 1, 9, 1], [2, 4, 3, 5], [0, 1, 1, 3], range(2, 9), range(5, -1, -1), range(9, 0, -3)]
        pps = [(), (scared.preprocesses.square,), (scared.preprocesses.square, scared.preprocesses.high_order.Difference(frame_1=slice(0, 3)))]
        Ns = list(range(1, 14)) if tier != 'quick' else [1, 2, 5, 7, 11, 13]
        for kind in kinds:
            for attack in (True, False):
                for N in Ns:
                    for bsz in ({1, 2, 3, 5, N, N + 1} if tier != 'quick' else {1, 3, N}):
                        fr = rnd.choice(frames); pp = rnd.choice(pps); ev += 1
                        ns = [N] if rnd.random() < 0.6 else [N, rnd.choice([1, 4, 6])]
                        try: r = run_case(kind, attack, ns, bsz, fr, pp, conv=(rnd.choice([None, None, 2, 7]) if attack else None))
                        except Exception as e: r = 'raises %r' % (e,)
                        if r: fails.append(dict(kind='run', function='scared.analysis.base::_BaseAnalysis.run', klass=kind + ('Attack' if attack else 'Reverse'), ns=ns, batch=bsz, frame=str(fr), npp=len(pp), detail=r))
        for b_ in (3, 40):
            ev += 1
            try: r = binning_case(b_)
            except Exception as e: r = 'raises %r' % (e,)
            if r: fails.append(dict(kind='run', function='scared.analysis.base::_BaseAnalysis.process', klass='MIAReverse', batch=b_, detail=r))
        # batch-size modes
        for spec_, trace_size, exp in ((7, 10, 7), (None, 10, 25000), (None, 1001, 5000), (None, 60000, 250), (None, 100001, 100), (None, 10**7, 100)):
            ev += 1; scared.set_batch_size(spec_)
            ths, _, _ = mk_ths(3); got = scared.Container(ths)._compute_batch_size(trace_size); scared.set_batch_size(None)
            if got != exp: fails.append(dict(kind='batch_table', function='scared.container::Container._compute_batch_size', spec=spec_, size=trace_size, got=got, expected=exp))
        scared.set_batch_size(0.5); ths, _, _ = mk_ths(3); got = scared.Container(ths).batch_size; scared.set_batch_size(None); ev += 1
        if not (isinstance(got, int) and got >= 10): fails.append(dict(kind='batch_float', function='scared.container::Container._compute_batch_size', got=got))
        return dict(evaluations=ev, failures=len(fails), failing=fails[:5], function='every analysis class x trace-set sizes x batch sizes x frames x preprocess chains, 1 or 2 run() calls, float64, vs one-shot distinguisher', bound='N in %s' % Ns)
    else:
        kinds = ['CPA', 'SNR'] if tier == 'quick' else ['CPA', 'DPA', 'SNR']
        grid = [(n, s, b) for n in ((3, 7, 12) if tier == 'quick' else (1, 2, 3, 5, 7, 12)) for s in ((1, 3, 5, 20) if tier == 'quick' else (1, 2, 3, 5, 7, 20)) for b in ((1, 3, 12) if tier == 'quick' else (1, 2, 5, 12))]      # thorough: 144 cases per attack (each case searches every prefix for every column)
        for kind in kinds:
            for (n, s, b) in grid:
                ns = [n] if (n + s) % 3 else [n, 4]; ev += 1
                try: r = conv_case(kind, ns, b, s)
                except Exception as e: r = 'raises %r' % (e,)
                if r: fails.append(dict(kind='run', function='scared.analysis.base::BaseAttack._batch_loop_compute', klass=kind + 'Attack', ns=ns, batch=b, step=s, detail=r))
                if quick_only and ev > 30: break
        # an attack whose scores are wider than its precision (DPA divides by integer counters: float64 scores under float32 precision)
        for (n, s_, b) in ((7, 3, 3), (12, 5, 1), (5, 20, 12)):
            ev += 1
            try: r = conv_case('DPA', [n], b, s_, 'float32')
            except Exception as e: r = 'raises %r' % (e,)
            if r: fails.append(dict(kind='run', function='scared.analysis.base::BaseAttack._compute_convergence_traces', klass='DPAAttack', ns=[n], batch=b, step=s_, detail=r))
        return dict(evaluations=ev, failures=len(fails), failing=fails[:5], function='convergence traces vs fresh attacks on prefixes, real CPA/SNR attacks', bound='(N, step, batch) grid %d cases, two consecutive runs for a third of them' % len(grid))

if __name__ == '__main__':
    cmd = sys.argv[1]
    if cmd == 'replay': print(json.dumps(replay(json.loads(sys.stdin.read())), default=str))
    elif cmd == 'bounded': print(json.dumps(bounded(sys.argv[2], int(sys.argv[3]), sys.argv[4]), default=str))
