"""C08 -- convergence traces are the attack scores on successive prefixes (driver shared with C02: props/c02.py)."""
import sys, os
sys.path.insert(0, os.path.dirname(os.path.dirname(os.path.abspath(__file__))))
from props import c02
if __name__ == '__main__':
    c02.main('C08')
