"""C12 native side: class identification by value on the real distinguishers and template attacks."""
import sys, json, random
import numpy as np

def dist(kind, parts, precision='float64'):
    import scared
    from scared.distinguishers import template, partitioned
    if kind == 'MIA': return scared.MIADistinguisher(bins_number=4, bin_edges=np.linspace(-40, 40, 5), partitions=parts, precision=precision)
    if kind == 'TB': return type('TB', (partitioned.PartitionedDistinguisherBase, template._TemplateBuildDistinguisherMixin), {})(partitions=parts, precision=precision)
    return getattr(scared, kind + 'Distinguisher')(partitions=parts, precision=precision)

def run(kind, parts, X, Y):
    # fed in three batches so that BOTH accumulation kernels see data (the first update always takes kernel 1, the second kernel 2 when there are <= 9 classes)
    d = dist(kind, parts); n = len(X); cuts = [0, max(1, n // 3), max(2, 2 * n // 3), n] if n >= 3 else [0, n]
    for a_, b_ in zip(cuts, cuts[1:]):
        if b_ > a_: d.update(X[a_:b_], Y[a_:b_])
    r = d.compute()
    return r, d

def perm_case(rnd, kind):
    vals = rnd.sample(range(0, 400 if kind != 'TB' else 30), 4); n = 40
    X = np.array([[rnd.randint(-30, 30) for _ in range(2)] for _ in range(n)], dtype='int16')
    W = 1 if kind == 'TB' else 2
    pool = vals + [vals[0] + 1000 if False else 999]          # 999 is a foreign value
    Y = np.array([[rnd.choice(pool) for _ in range(W)] for _ in range(n)], dtype='uint16')
    base, d0 = run(kind, vals, X, Y)
    perm = vals[:]; rnd.shuffle(perm)
    r1, d1 = run(kind, perm, X, Y)
    sup = vals + [777, 555]; r2, d2 = run(kind, sup, X, Y)
    keep = np.array([all(int(v) in vals for v in row) for row in Y])
    if kind == 'TB':
        order = [perm.index(v) for v in vals]
        if not np.allclose(r1[order], base, equal_nan=True): return 'permuting the class list does not just permute the templates'
        if not np.allclose(d1.pooled_covariance, d0.pooled_covariance): return 'permuting the class list changes the pooled covariance'
        r3, d3 = run(kind, vals, X[keep], Y[keep])
        if not np.allclose(r3, base, equal_nan=True): return 'traces with undeclared values influence the templates'
        return None
    if not np.allclose(r1, base, equal_nan=True, rtol=1e-9, atol=1e-12): return 'permuting the class list changes the result'
    if not np.allclose(r2, base, equal_nan=True, rtol=1e-9, atol=1e-12): return 'declaring extra unused values changes the result'
    # foreign values: dropping the rows whose value is undeclared in EVERY word == keeping them (per word the foreign rows are ignored)
    Yw = Y.copy()
    r3 = []
    for w in range(W):
        kw = np.array([int(v) in vals for v in Y[:, w]]); rr, _ = run(kind, vals, X[kw], Y[kw][:, [w]]); r3.append(rr[0])
    if not np.allclose(np.array(r3), base, equal_nan=True, rtol=1e-9, atol=1e-12): return 'traces with undeclared values influence the result'
    return None

def auto_case(mx, dt='uint8'):
    import scared
    X = np.random.default_rng(mx).normal(size=(6, 2)); Y = np.array([[0], [mx], [mx], [0], [mx // 2], [mx]], dtype=dt)
    d = scared.SNRDistinguisher(); d.update(X, Y)
    if not all(int(v) in d.partitions.tolist() for v in Y.ravel()): return 'first-batch maximum %d: class set %d..%d misses a present value' % (mx, d.partitions[0] if len(d.partitions) else -1, d.partitions[-1] if len(d.partitions) else -1)
    ref = scared.SNRDistinguisher(partitions=range(256)); ref.update(X, Y)
    if not np.allclose(d.compute(), ref.compute(), equal_nan=True): return 'automatic class set gives a different result than declaring 0..255 (max %d)' % mx
    return None

def template_attack_case(rnd, dpa):
    import scared, estraces
    N = 300; pt = np.array([[rnd.randrange(4)] for _ in range(N)], dtype='uint8'); key = np.full((N, 1), 2, dtype='uint8'); val = pt ^ key
    rng = np.random.default_rng(rnd.randrange(1000)); samples = (val * np.array([1.0, 2.0, 0.5]) + rng.normal(0, 0.3, (N, 3))).astype('float32')
    cont = scared.Container(estraces.read_ths_from_ram(samples=samples, plaintext=pt, key=key))
    @scared.reverse_selection_function
    def rsf(plaintext, key): return np.bitwise_xor(plaintext, key)
    @scared.attack_selection_function(guesses=range(4), words=0)
    def sf(plaintext, guesses):
        out = np.empty((plaintext.shape[0], len(guesses), 1), dtype='uint8')
        for i, g in enumerate(guesses): out[:, i, :] = plaintext ^ g
        return out
    res = []
    for parts in ([0, 1, 2, 3], [3, 1, 2, 0], [2, 0, 3, 1]):
        if dpa: a = scared.TemplateDPAAttack(container_building=cont, reverse_selection_function=rsf, selection_function=sf, model=scared.Value(), partitions=parts, precision='float64')
        else: a = scared.TemplateAttack(container_building=cont, reverse_selection_function=rsf, model=scared.Value(), partitions=parts, precision='float64')
        a.build(); a.run(cont); res.append((parts, a.scores.copy(), a.templates.copy()))
    p0, s0, t0 = res[0]
    for parts, sc, tp in res[1:]:
        order = [parts.index(v) for v in p0]
        if not np.allclose(tp[order], t0): return 'templates are not those of the declared values (order %s)' % parts
        if dpa and not np.allclose(sc, s0, rtol=1e-7): return 'template-DPA scores change with the order of the class list (%s)' % parts
        if not dpa and not np.allclose(sc[order], s0, rtol=1e-7): return 'static template scores are not just permuted (%s)' % parts
    return None

def replay(case):
    rnd = random.Random(9); k = case.get('kind')
    try:
        if k == 'auto':
            for mx in (0, 1, 8, 9, 10, 63, 64, 65, 255):
                r = auto_case(mx)
                if r: return dict(reproduced=True, detail=r)
            return dict(reproduced=False)
        if k == 'tdpa':
            r = template_attack_case(rnd, True); return dict(reproduced=bool(r), detail=r)
        if k == 'lut_history':
            import scared
            X = np.arange(20.).reshape(10, 2); Y = np.array([[i % 5] for i in range(10)], dtype='uint8')
            a = scared.SNRDistinguisher(partitions=[0, 1, 2, 3, 4]); a.update(X, Y); b = scared.SNRDistinguisher(partitions=[3, 0, 4, 2, 1]); b.update(X, Y)
            order = [[3, 0, 4, 2, 1].index(v) for v in [0, 1, 2, 3, 4]]
            return dict(reproduced=not np.allclose(b.counters[:, order], a.counters) or not np.allclose(b.sum[:, :, order], a.sum))
        if k == 'lut':
            from scared.distinguishers.partitioned import _define_lut_func
            parts = case['parts']; f = _define_lut_func(np.array(parts, dtype='int32')); dt = case.get('ddtype', 'uint16')
            vals = [v for v in ([case.get('value', 0)] + parts + [0, 1, 255, 256, 65535, 70000]) if np.iinfo(dt).min <= v <= np.iinfo(dt).max]
            got = f(np.array(vals, dtype=dt)).tolist(); exp = [parts.index(v) if v in parts else -1 for v in vals]
            return dict(reproduced=got != exp, got=got, expected=exp)
        for kind in ('SNR', 'ANOVA', 'NICV', 'MIA', 'TB'):
            for t in range(6):
                r = perm_case(rnd, kind)
                if r: return dict(reproduced=True, dist=kind, detail=r)
        return dict(reproduced=False)
    except Exception as e:
        return dict(reproduced=True, detail='raises %r' % (e,))

def bounded(seed, tier):
    rnd = random.Random(seed); fails = []; ev = 0
    for kind in ('SNR', 'ANOVA', 'NICV', 'MIA', 'TB'):
        for t in range(6 if tier == 'quick' else 60):
            ev += 1
            try: r = perm_case(rnd, kind)
            except Exception as e: r = 'raises %r' % (e,)
            if r: fails.append(dict(dist=kind, detail=r))
    for mx in (0, 1, 7, 8, 9, 10, 62, 63, 64, 65, 254, 255):
        ev += 1
        try: r = auto_case(mx)
        except Exception as e: r = 'raises %r' % (e,)
        if r: fails.append(dict(dist='auto', max=mx, detail=r))
    for dpa in (False, True):
        ev += 1
        try: r = template_attack_case(rnd, dpa)
        except Exception as e: r = 'raises %r' % (e,)
        if r: fails.append(dict(dist='TemplateDPAAttack' if dpa else 'TemplateAttack', detail=r))
    return dict(evaluations=ev, failures=len(fails), failing=fails[:5], bound='random class lists (values up to 400, permuted, supersets, foreign value 999), automatic sets with first-batch maxima 0,1,7..10,62..65,254,255, template attacks with 3 class orders')

if __name__ == '__main__':
    cmd = sys.argv[1]
    if cmd == 'replay': print(json.dumps(replay(json.loads(sys.stdin.read())), default=str))
    elif cmd == 'bounded': print(json.dumps(bounded(int(sys.argv[2]), sys.argv[3]), default=str))
