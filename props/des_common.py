"""shared by C06 / C07 / C10: scared.des.base under pyvc, table contracts, symbolic bit algebra."""
import z3
import numpy as _rnp
from pyvc import core, symnp, loader as L, harness as H
from pyvc.core import SBV, SInt, zi
from specs import fips46 as D

S_UF = [z3.Function('fips_S%d' % (w + 1), z3.BitVecSort(6), z3.BitVecSort(4)) for w in range(8)]
_ONE = z3.BitVecVal(1, 1); _ZERO = z3.BitVecVal(0, 1)

def zbit(b):
    if isinstance(b, int): return _ONE if b else _ZERO
    return b

class BitsSBV(SBV):
    """a uint8 scalar kept as its list of 8 bit terms (most significant first); the z3 Concat is built on demand.
    Keeps Extract/Concat chains out of the solver terms so that code side and spec side stay structurally identical."""
    __slots__ = ('bits', '_z')
    def __init__(self, bits):
        self.bits = list(bits); self._z = None; self.dtype = _rnp.dtype('uint8')
    @property
    def z(self):
        if self._z is None: self._z = z3.Concat(*[zbit(b) for b in self.bits])
        return self._z
    def __xor__(self, o):
        if isinstance(o, BitsSBV): return BitsSBV([SymBits.xor(a, b) for a, b in zip(self.bits, o.bits)])
        if isinstance(o, SBV) and o.dtype == self.dtype and z3.is_bv_value(o.z):
            return BitsSBV([SymBits.xor(a, b) for a, b in zip(self.bits, bits_of(o.z.as_long(), 8))])
        if isinstance(o, SBV) and o.dtype == self.dtype:
            return BitsSBV([SymBits.xor(a, b) for a, b in zip(self.bits, bits_of(o, 8))])
        return SBV.__xor__(self, o)
    __rxor__ = __xor__
    def __hash__(self): return id(self)

class SymBits:
    """symbolic bit algebra: a bit is a 1-bit z3 term (or a Python 0/1); S-boxes are the uninterpreted FIPS functions"""
    @staticmethod
    def xor(a, b):
        if isinstance(a, int) and isinstance(b, int): return a ^ b
        if isinstance(a, int): return b if a == 0 else ~b
        if isinstance(b, int): return a if b == 0 else ~a
        if a.get_id() == b.get_id(): return 0
        return (a ^ b) if a.get_id() < b.get_id() else (b ^ a)      # canonical operand order without a simplifier call
    @staticmethod
    def sbox(w, six):
        x = z3.Concat(*[zbit(b) for b in six])
        v = S_UF[w](x)
        return [z3.Extract(3 - i, 3 - i, v) for i in range(4)]

def bits_of(x, width=8):
    """bits (most significant first) of the low `width` bits of a byte-like scalar"""
    if isinstance(x, int): return [(x >> (width - 1 - i)) & 1 for i in range(width)]
    if isinstance(x, BitsSBV): return x.bits[8 - width:]
    z = x.z if isinstance(x, SBV) else x
    if z3.is_bv_value(z): return bits_of(z.as_long() & ((1 << width) - 1), width)
    return [z3.simplify(z3.Extract(width - 1 - i, width - 1 - i, z)) for i in range(width)]
def word_of(bits, total=8):
    """uint8 scalar whose low len(bits) bits are `bits` (most significant first)"""
    return BitsSBV([0] * (total - len(bits)) + list(bits))
def words_of(kind, bits):
    w = {'LR64': 8, 'E48': 6, 'S32': 4, 'P32': 8}[kind]
    return [word_of(bits[k:k + w]) for k in range(0, len(bits), w)]

RKBI_SPEC = None
def rkbi_spec():
    """ROUND_KEY_BITS_INDEXES as it follows from PC-1 / shifts / PC-2: [round][word][bit] -> 0-based index into the 64 key bits"""
    global RKBI_SPEC
    if RKBI_SPEC is None:
        ks = D.key_schedule_bits(list(range(1, 65)))          # propagate positions instead of bits
        RKBI_SPEC = [[[ks[r][6 * w + b] - 1 for b in range(6)] for w in range(8)] for r in range(16)]
    return RKBI_SPEC
def missing_spec():
    """the 8 key-bit positions (of the 56 used) that PC-2 drops at round r, as 0-based indices into the 64 key bits, ascending"""
    ks = D.key_schedule_bits(list(range(1, 65)))
    used = [b for b in range(1, 65) if b % 8]
    return [sorted(set(used) - set(ks[r])) for r in range(16)]

class DesUnderProof:
    MOD = 'scared.des.base'
    def __init__(self):
        self.ld = L.Loader(); self.mod = self.ld.load(self.MOD)
        self.table_ok = {}; self.table_diffs = {}
        lit = self.ld.module_literal(self.MOD, 'SBOXES')
        diffs = []
        for w in range(8):
            for x in range(64):
                got = lit[w][x] if w < len(lit) and x < len(lit[w]) else None
                if got != D.sbox_direct(w, x): diffs.append(((w, x), got, D.sbox_direct(w, x)))
        self.table_ok['SBOXES'] = not diffs; self.table_diffs['SBOXES'] = diffs
        for name, spec in (('PC1', D.PC1), ('PC2', D.PC2)):
            lit = list(self.ld.module_literal(self.MOD, name))
            d = [(i, lit[i] if i < len(lit) else None, spec[i]) for i in range(len(spec)) if i >= len(lit) or lit[i] != spec[i]]
            self.table_ok[name] = not d and len(lit) == len(spec); self.table_diffs[name] = d
        lit = self.ld.module_literal(self.MOD, 'ROUND_KEY_BITS_INDEXES'); spec = rkbi_spec(); d = []
        for r in range(16):
            for w in range(8):
                for b in range(6):
                    try: got = lit[r][w][b]
                    except Exception: got = None
                    if got != spec[r][w][b]: d.append(((r, w, b), got, spec[r][w][b]))
        self.table_ok['ROUND_KEY_BITS_INDEXES'] = not d; self.table_diffs['ROUND_KEY_BITS_INDEXES'] = d
        self.sbox_storage = id(self.mod.SBOXES.st)
        self.other_uf = [z3.Function('tbl_SBOXES%d' % w, z3.BitVecSort(6), z3.BitVecSort(4)) for w in range(8)]
        symnp.TABLE_HOOK[0] = self._hook
        self.pending = []          # index-in-range side conditions raised by symbolic S-box look-ups
    def _hook(self, arr, st, idx):
        if id(st) != self.sbox_storage or len(idx) != 2 or not isinstance(idx[0], int): return None
        w, x = idx
        if isinstance(x, SInt): return None
        z = x.z; width = z.size()
        hi = z3.simplify(z3.Extract(width - 1, 6, z))
        if not (z3.is_bv_value(hi) and hi.as_long() == 0):
            self.pending.append(hi == 0)
        six = z3.simplify(z3.Extract(5, 0, z))
        uf = S_UF[w] if self.table_ok['SBOXES'] else self.other_uf[w]
        return SBV(z3.ZeroExt(4, uf(six)), 'uint8')
    def fn(self, name): return getattr(self.mod, name)
    def sha(self, name): return self.ld.fn_hash.get(self.MOD + '::' + name)
