"""C05 -- AES encrypt/decrypt and every intermediate stop point conform to FIPS-197.

Contracts (sidecar; /repo untouched), all over the real source of scared/aes/base.py re-read on every run:
  tables      SBOX INV_SBOX XTIME_* RCON SHIFT_ROWS INV_SHIFT_ROWS   literal == FIPS definition, entry by entry
  primitives  sub_bytes inv_sub_bytes shift_rows inv_shift_rows mix_column inv_mix_column mix_columns
              inv_mix_columns add_round_key : ensures result == fips197.<op>(state) for every state, N symbolic;
              frame: argument arrays not written; lemmas: inverse pairs cancel
  composition encrypt decrypt _parametric_cipher _prepare_keys _prepare_rounds : primitives and key_schedule are
              modular calls (replaced by their contracts); ensures result == fips197.cipher(...) at every stop
              point x mode x key length x four broadcasting shapes; exceptional posts outside the documented ranges
"""
import sys, os, argparse, time, json, itertools
sys.path.insert(0, os.path.dirname(os.path.dirname(os.path.abspath(__file__))))
import z3
import numpy as _rnp
from pyvc import core, symnp, solve, loader as L, harness as H, report as R, parallel as P
from pyvc.core import SInt, SBV, zi
from specs import fips197 as F
from props import aes_common as AC
from props.aes_common import SymAlg, CompAlg

MOD = 'scared.aes.base'
PRIMS = {  # name -> (spec function on a row, row width in, row width out)
    'sub_bytes': (F.sub_bytes, 16), 'inv_sub_bytes': (F.inv_sub_bytes, 16), 'shift_rows': (F.shift_rows, 16),
    'inv_shift_rows': (F.inv_shift_rows, 16), 'mix_columns': (F.mix_columns, 16), 'inv_mix_columns': (F.inv_mix_columns, 16),
    'mix_column': (F.mix_column, 4), 'inv_mix_column': (F.inv_mix_column, 4),
}
INVERSE_PAIRS = [('sub_bytes', 'inv_sub_bytes'), ('inv_sub_bytes', 'sub_bytes'), ('shift_rows', 'inv_shift_rows'), ('inv_shift_rows', 'shift_rows'),
                 ('mix_columns', 'inv_mix_columns'), ('inv_mix_columns', 'mix_columns'), ('mix_column', 'inv_mix_column')]

def bytes_stub(body, array):      # contract of _is_bytes_array on inputs that satisfy the byte invariant by construction
    if not isinstance(array, symnp.ndarray): raise TypeError('array should be a Numpy ndarray instance')
    if array.dtype.kind not in 'ui': raise ValueError('array should be an integer array')
    return True

def run_paths(fn):
    return core.explore(fn)

def check_tables(aes, rep):
    for name in list(AC.TABLE_SPECS) + list(AC.CONST_TABLES):
        ok = aes.table_ok[name]
        res = dict(result='unsat' if ok else 'sat', backend='table-eval', secs=0.0)
        rep.obligation('table[%s]' % name, MOD + '::' + name, 'table', res, sample='%s literal == FIPS-197 definition (%d entries)' % (name, 256 if name in AC.TABLE_SPECS else len(AC.CONST_TABLES[name])))
        if not ok:
            d = aes.table_diffs[name][0]
            case = dict(kind='table', table=name, index=d[0], got=d[1], expected=d[2])
            rp_, out = R.replay_native('props.c05_native', case)
            rep.violation('table[%s]' % name, MOD + '::' + name, 'entry %s is %s, FIPS-197 gives %s' % d, case, solver_output='table evaluation', reproduced=rp_, native_msg=out)

def prim_obligations(aes, rep, name, dtype, lead_kind, timeout):
    """ensures result[r, :] == spec(state[r, :]) for a generic row r (N symbolic) or for the 1-D shape"""
    spec, width = PRIMS[name]
    def body():
        if lead_kind == 'N':
            N = core.sym_int('N', 1); shape = (N, width)
        else:
            shape = (width,)
        st = H.sym_bytes('X', shape, dtype)
        L.set_task(stubs={'scared._utils::_is_bytes_array': bytes_stub})
        pre = symnp.ndarray.fresh(st.shape, st.snapshot(), st.dtype)      # entry value of the argument (old(state))
        out = aes.fn(name)(st)
        return (st, pre), out, shape
    for p, outc, exc in run_paths(body):
        oname = 'post[%s,%s,%s]' % (name, dtype, lead_kind)
        if exc is not None:
            rep.obligation(oname, MOD + '::' + name, 'post', dict(result='sat', backend='exec', secs=0), sample=repr(exc))
            rep.violation(oname, MOD + '::' + name, 'raises %r on a valid state' % (exc,), dict(kind='prim', fn=name, dtype=dtype, state=[[0] * width]), reproduced=None)
            continue
        (st, pre), out, shape = outc
        if tuple(map(str, out.shape)) != tuple(map(str, shape)) or out.dtype.kind not in 'iu':
            rep.obligation(oname + ':shape', MOD + '::' + name, 'post', dict(result='sat', backend='exec', secs=0))
            rep.violation(oname + ':shape', MOD + '::' + name, 'result shape/dtype %s %s, expected %s uint8' % (out.shape, out.dtype, shape), dict(kind='prim', fn=name, dtype=dtype, state=[[0] * width]), reproduced=None)
            continue
        if lead_kind == 'N':
            idx, cons = H.generic_index(shape[:1]); lead = tuple(idx)
        else: lead, cons = (), []
        got = H.row_elems(out, lead); exp = spec(H.row_elems(pre, lead), SymAlg)
        goal = H.eq_all(got, exp)
        res = solve.discharge(p.pc + cons, goal, timeout_ms=timeout)
        rep.obligation(oname, MOD + '::' + name, 'post', res, sample='forall state, row r<N: %s(state)[r,:] == fips197.%s(state[r,:])' % (name, name))
        if res['result'] == 'sat':
            m = res['model']
            row = [solve.mval(m, H._term(e)) & 0xff for e in H.row_elems(pre, lead)]
            case = dict(kind='prim', fn=name, dtype=dtype, state=[row] if lead_kind == 'N' else row)
            rp_, o = R.replay_native('props.c05_native', case)
            rep.violation(oname, MOD + '::' + name, 'result differs from FIPS-197 %s' % name, case, solver_output=str(m)[:2000], reproduced=rp_, native_msg=o)
        # frame: the caller's array is not written
        fr = dict(result='unsat' if H.untouched(st) else 'sat', backend='frame-scan', secs=0)
        rep.obligation('frame[%s,%s,%s]' % (name, dtype, lead_kind), MOD + '::' + name, 'frame', fr)
        if fr['result'] == 'sat':
            case = dict(kind='frame', fn=name, dtype=dtype, state=[[(7 * j + 3) % 256 for j in range(width)]])
            rp_, o = R.replay_native('props.c05_native', case)
            rep.violation('frame[%s,%s,%s]' % (name, dtype, lead_kind), MOD + '::' + name, 'argument array is modified', case, reproduced=rp_, native_msg=o)

def prim_history(aes, rep, name, timeout):
    """history: the array returned by a call stays what it was when the same operation is called again on other states of the same shape
    (no result buffer shared between calls) -- needed for 'the returned state equals the FIPS state' to hold for a caller who keeps results"""
    spec, width = PRIMS[name]
    oname = 'history[%s: an array returned by an earlier call is not overwritten by later calls]' % name; case = dict(kind='prim_history', fn=name)
    def body():
        N = core.sym_int('N', 1)
        X1 = H.sym_bytes('X1', (N, width), 'uint8'); X2 = H.sym_bytes('X2', (N, width), 'uint8')
        L.set_task(stubs={'scared._utils::_is_bytes_array': bytes_stub})
        out1 = aes.fn(name)(X1)
        idx, cons = H.generic_index((N,)); core.assume(z3.And(*cons)) if cons else None
        before = H.row_elems(out1, tuple(idx))
        out2 = aes.fn(name)(X2)
        after = H.row_elems(out1, tuple(idx))
        return before, after, out1.st is out2.st
    for p, outc, exc in run_paths(body):
        if exc is not None:
            rep.obligation(oname, MOD + '::' + name, 'frame', dict(result='sat', backend='exec', secs=0), sample=repr(exc))
            rep.violation(oname, MOD + '::' + name, 'raises %r' % (exc,), case, reproduced=None); continue
        before, after, shared = outc
        res = dict(result='sat', backend='frame-scan', secs=0) if shared else (dict(result='unsat', backend='structural', secs=0) if H.structurally_equal(before, after, simp=True) else solve.discharge(p.pc, H.eq_all(before, after), timeout_ms=timeout))
        rep.obligation(oname, MOD + '::' + name, 'frame', res, sample='out1 = f(X1); f(X2); out1 read again')
        if res['result'] == 'sat':
            rp_, o = R.replay_native('props.c05_native', case)
            rep.violation(oname, MOD + '::' + name, 'the result of an earlier call aliases a buffer that later calls write', case, reproduced=rp_, native_msg=o)

def ark_obligation(aes, rep, dtype, timeout):
    def body():
        N = core.sym_int('N', 1)
        st = H.sym_bytes('X', (N, 16), dtype); k = H.sym_bytes('K', (N, 16), dtype)
        L.set_task(stubs={'scared._utils::_is_bytes_array': bytes_stub})
        return st, k, aes.fn('add_round_key')(st, k)
    for p, outc, exc in run_paths(body):
        st, k, out = outc
        idx, cons = H.generic_index(st.shape[:1])
        goal = H.eq_all(H.row_elems(out, idx), F.add_round_key(H.row_elems(st, idx), H.row_elems(k, idx)))
        res = solve.discharge(p.pc + cons, goal, timeout_ms=timeout)
        rep.obligation('post[add_round_key,%s]' % dtype, MOD + '::add_round_key', 'post', res, sample='add_round_key(s,k)[r,j] == s[r,j] ^ k[r,j]')
        if res['result'] == 'sat':
            m = res['model']
            case = dict(kind='ark', dtype=dtype, state=[[solve.mval(m, H._term(e)) & 0xff for e in H.row_elems(st, idx)]], key=[[solve.mval(m, H._term(e)) & 0xff for e in H.row_elems(k, idx)]])
            rp_, o = R.replay_native('props.c05_native', case)
            rep.violation('post[add_round_key,%s]' % dtype, MOD + '::add_round_key', 'differs from xor', case, str(m)[:1000], rp_, o)
        fr = dict(result='unsat' if H.untouched(st, k) else 'sat', backend='frame-scan', secs=0)
        rep.obligation('frame[add_round_key,%s]' % dtype, MOD + '::add_round_key', 'frame', fr)

def inverse_lemmas(aes, rep, timeout):
    ax = AC.sbox_axioms()
    for f, g in INVERSE_PAIRS:
        width = PRIMS[f][1]
        def body():
            N = core.sym_int('N', 1); st = H.sym_bytes('X', (N, width), 'uint8')
            L.set_task(stubs={'scared._utils::_is_bytes_array': bytes_stub})
            return st, aes.fn(g)(aes.fn(f)(st))
        for p, outc, exc in run_paths(body):
            st, out = outc
            idx, cons = H.generic_index(st.shape[:1])
            goal = H.eq_all(H.row_elems(out, idx), H.row_elems(st, idx))
            res = solve.discharge(p.pc + cons, goal, extra=ax if 'sub_bytes' in f else (), timeout_ms=timeout)
            rep.obligation('lemma[%s(%s(x))==x]' % (g, f), MOD + '::' + g, 'lemma', res)
            if res['result'] == 'sat':
                m = res['model']; row = [solve.mval(m, H._term(e)) & 0xff for e in H.row_elems(st, idx)]
                case = dict(kind='inverse', f=f, g=g, state=[row])
                rp_, o = R.replay_native('props.c05_native', case)
                rep.violation('lemma[%s(%s(x))==x]' % (g, f), MOD + '::' + g, 'inverse pair does not cancel', case, str(m)[:1000], rp_, o)
    # the S-box inverse facts used above are table facts
    ok = all(F.INV_SBOX[F.SBOX[x]] == x for x in range(256)) and aes.table_ok['SBOX'] and aes.table_ok['INV_SBOX']
    rep.obligation('lemma[INV_SBOX o SBOX == id]', MOD + '::INV_SBOX', 'table', dict(result='unsat' if ok else 'unknown', backend='table-eval', secs=0))

# ----------------------------------------------------------------------------- composition
KS_UF = {}
def ks_uf(nr):
    if nr not in KS_UF: KS_UF[nr] = z3.Function('RoundKey%d' % nr, z3.IntSort(), z3.IntSort(), z3.IntSort(), AC.BV8)   # (key index, round, byte)
    return KS_UF[nr]

def prim_stub(name):
    spec, width = PRIMS[name]
    def stub(body, state):
        assert state.shape[-1] == width
        f = state.snapshot(); nd = state.ndim; rows = {}
        def fn(i):
            lead = tuple(i[:-1]); k = symnp._key(lead)
            if k not in rows: rows[k] = (spec([f(lead + (j,)) for j in range(width)], CompAlg), lead)
            return rows[k][0][i[-1]]
        return symnp.ndarray.fresh(state.shape, fn, 'uint8')
    return stub
def ark_stub(body, state, keys):
    shape = symnp.broadcast_shapes(state.shape, keys.shape)
    fs, fk = state.snapshot(), keys.snapshot(); isx, ikx = symnp._bcast_index(state.shape, shape), symnp._bcast_index(keys.shape, shape)
    return symnp.ndarray.fresh(shape, lambda i: core.cast(fs(isx(i)) ^ fk(ikx(i)), 'uint8'), 'uint8')
def key_schedule_stub(body, key):
    kl = key.shape[-1]; nr = F.NR[kl]; uf = ks_uf(nr)
    if key.ndim == 1:
        return symnp.ndarray.fresh((nr + 1, 16), lambda i: SBV(uf(z3.IntVal(0), zi(i[0]), zi(i[1])), 'uint8'), 'uint8')
    return symnp.ndarray.fresh((key.shape[0], nr + 1, 16), lambda i: SBV(uf(zi(i[0]), zi(i[1]), zi(i[2])), 'uint8'), 'uint8')

COMP_STUBS = None
def comp_stubs():
    global COMP_STUBS
    if COMP_STUBS is None:
        COMP_STUBS = {MOD + '::' + n: prim_stub(n) for n in PRIMS if n not in ('mix_column', 'inv_mix_column')}
        COMP_STUBS[MOD + '::add_round_key'] = ark_stub
        COMP_STUBS[MOD + '::key_schedule'] = key_schedule_stub
        COMP_STUBS['scared._utils::_is_bytes_array'] = bytes_stub
    return COMP_STUBS

SHAPES = ['1-1', 'N-1', '1-N', 'N-N']    # state-key: one block one key, many blocks one key, one block many keys, paired

def composition(aes, rep, mode, kl, shape_kind, dtype, stops, timeout):
    nr = F.NR[kl]; uf = ks_uf(nr)
    fname = mode
    for (at_round, after_step) in stops:
        def body():
            N = core.sym_int('N', 1)
            st = H.sym_bytes('X', (N, 16) if shape_kind[0] == 'N' else (16,), dtype)
            key = H.sym_bytes('K', (N, kl) if shape_kind[2] == 'N' else (kl,), dtype)
            L.set_task(stubs=comp_stubs())
            out = aes.fn(fname)(st, key, at_round=at_round, after_step=after_step)
            return N, st, key, out
        for p, outc, exc in run_paths(body):
            oname = 'post[%s,%d,%s,%s,r%s,s%s]' % (mode, kl, shape_kind, dtype, at_round, after_step)
            if exc is not None:
                rep.obligation(oname, MOD + '::_parametric_cipher', 'post', dict(result='sat', backend='exec', secs=0), sample=repr(exc))
                case = dict(kind='cipher', mode=mode, dtype=dtype, state=[[0] * 16], key=[[0] * kl], at_round=at_round, after_step=after_step, shape=shape_kind)
                rp_, o = R.replay_native('props.c05_native', case)
                rep.violation(oname, MOD + '::_parametric_cipher', 'raises %r inside the documented range' % (exc,), case, None, rp_, o)
                continue
            N, st, key, out = outc
            many = shape_kind != '1-1'
            # documented result shape: (N, 16), squeezed to (16,) when there is a single block/key pair
            pcs = list(p.pc)
            n_is_one = solve.satisfiable(pcs + [N.z != 1]) == 'unsat'
            exp_nd = 1 if (not many or n_is_one) else 2
            r = z3.Int('r!row')
            cons = [r >= 0, r < N.z] if exp_nd == 2 else []
            if out.ndim != exp_nd:
                res = dict(result='sat', backend='exec', secs=0)
                rep.obligation(oname + ':shape', MOD + '::_parametric_cipher', 'post', res)
                rep.violation(oname + ':shape', MOD + '::_parametric_cipher', 'result has %d dims, documented %d' % (out.ndim, exp_nd),
                              dict(kind='cipher', mode=mode, dtype=dtype, state=[[0] * 16], key=[[0] * kl], at_round=at_round, after_step=after_step, shape=shape_kind), reproduced=None)
                continue
            row = SInt(r) if exp_nd == 2 else 0
            srow = row if shape_kind[0] == 'N' else None
            krow = row if shape_kind[2] == 'N' else 0
            block = [st.at(srow, j) if srow is not None else st.at(j) for j in range(16)]
            rks = [[SBV(uf(zi(krow), z3.IntVal(rr), z3.IntVal(j)), 'uint8') for j in range(16)] for rr in range(nr + 1)]
            exp = F.cipher(block, rks, mode, at_round if at_round is not None else nr, after_step, CompAlg)
            got = [out.at(row, j) if exp_nd == 2 else out.at(j) for j in range(16)]
            t0 = time.time()
            if H.structurally_equal(got, exp):
                res = dict(result='unsat', backend='structural', secs=time.time() - t0)
            else:
                res = solve.discharge(pcs + cons, H.eq_all(got, exp), timeout_ms=timeout)
            rep.obligation(oname, MOD + '::_parametric_cipher', 'post', res, sample='%s(x,k,at_round=%s,after_step=%s)[r,:] == fips197.cipher(x[r],RoundKeys(k),...)' % (mode, at_round, after_step))
            if res['result'] == 'sat':
                case = dict(kind='cipher', mode=mode, dtype=dtype, at_round=at_round, after_step=after_step, shape=shape_kind, state=None, key=None, kl=kl)
                rp_, o = R.replay_native('props.c05_native', case)
                rep.violation(oname, MOD + '::_parametric_cipher', 'operation sequence differs from FIPS-197 at this stop point', case, str(res['model'])[:1500], rp_, o)
            fr = dict(result='unsat' if H.untouched(st, key) else 'sat', backend='frame-scan', secs=0)
            if fr['result'] == 'sat' or (at_round in (0, None) and after_step == 3):
                rep.obligation('frame[%s,%d,%s]' % (mode, kl, shape_kind), MOD + '::_parametric_cipher', 'frame', fr)
                if fr['result'] == 'sat':
                    case = dict(kind='cipher-frame', mode=mode, dtype=dtype, at_round=at_round, after_step=after_step, shape=shape_kind, kl=kl)
                    rp_, o = R.replay_native('props.c05_native', case)
                    rep.violation('frame[%s,%d,%s]' % (mode, kl, shape_kind), MOD + '::_parametric_cipher', 'caller array modified', case, None, rp_, o)

def exceptional(aes, rep, timeout):
    """outside the documented ranges the call is refused (ValueError/TypeError), never a wrong state"""
    for mode in ('encrypt', 'decrypt'):
        for (ar, st_) in ((-1, 3), (0, 4), (0, -1), (12, 3)):
            def body():
                st = H.sym_bytes('X', (16,), 'uint8'); key = H.sym_bytes('K', (16,), 'uint8')
                L.set_task(stubs=comp_stubs())
                return aes.fn(mode)(st, key, at_round=ar, after_step=st_)
            for p, outc, exc in run_paths(body):
                ok = isinstance(exc, (ValueError, TypeError))
                rep.obligation('raises[%s,r%d,s%d]' % (mode, ar, st_), MOD + '::_prepare_rounds', 'raises', dict(result='unsat' if ok else 'sat', backend='exec', secs=0), sample=repr(exc))
                if not ok:
                    rep.violation('raises[%s,r%d,s%d]' % (mode, ar, st_), MOD + '::_prepare_rounds', 'out-of-range stop point accepted (%r)' % (exc,), dict(kind='refuse', mode=mode, at_round=ar, after_step=st_), reproduced=None)

def canaries(aes, rep, timeout):
    """deliberately false postconditions: the engine must refute them"""
    def body():
        N = core.sym_int('N', 1); st = H.sym_bytes('X', (N, 16), 'uint8')
        L.set_task(stubs={'scared._utils::_is_bytes_array': bytes_stub})
        return st, aes.fn('shift_rows')(st)
    for p, outc, exc in run_paths(body):
        st, out = outc; idx, cons = H.generic_index(st.shape[:1])
        res = solve.discharge(p.pc + cons, H.eq_all(H.row_elems(out, idx), F.inv_shift_rows(H.row_elems(st, idx))), timeout_ms=timeout)
        rep.canary('shift_rows == inv_shift_rows', res['result'] == 'sat')
    def body2():
        st = H.sym_bytes('X', (16,), 'uint8'); key = H.sym_bytes('K', (16,), 'uint8')
        L.set_task(stubs=comp_stubs()); return st, aes.fn('encrypt')(st, key, at_round=10, after_step=1)
    for p, outc, exc in run_paths(body2):
        st, out = outc; uf = ks_uf(10)
        rks = [[SBV(uf(z3.IntVal(0), z3.IntVal(rr), z3.IntVal(j)), 'uint8') for j in range(16)] for rr in range(11)]
        exp = F.cipher([st.at(j) for j in range(16)], rks, 'encrypt', 10, 2, SymAlg)
        # wrong claim: last round would contain MixColumns -- must be refuted (stop (10,1) != stop (10,2) only if mixing were present; use 9,2 vs 9,1)
        exp = F.cipher([st.at(j) for j in range(16)], rks, 'encrypt', 9, 1, CompAlg)
        res = solve.discharge(p.pc, H.eq_all([out.at(j) for j in range(16)], exp), timeout_ms=timeout)
        rep.canary('encrypt stop (10,1) == stop (9,1)', res['result'] == 'sat')

def all_stops(nr):
    return [(r, s) for r in range(nr + 1) for s in range(4)] + [(None, 3)]
def boundary_stops(nr):
    rs = sorted(set([0, 1, nr - 1, nr]))
    return [(r, s) for r in rs for s in range(4)] + [(None, 3)]

def main():
    ap = argparse.ArgumentParser(); ap.add_argument('--tier', default=os.environ.get('VERIF_TIER', 'quick')); ap.add_argument('--replay')
    a = ap.parse_args()
    seed = int(os.environ.get('VERIF_SEED', '0'))
    if a.replay:
        case = json.load(open(a.replay))['case']
        rp_, o = R.replay_native('props.c05_native', case); print(o); sys.exit(1 if rp_ else 0)
    rep = R.Report('C05', a.tier, seed)
    timeout = solve.TIMEOUT_MS[a.tier]
    errs = F.self_check()
    if errs: rep.errors.append('fips197 spec self-check failed: %s' % errs)
    bad = AC.mul_matrix_self_check()
    rep.obligation('lemma[GF(2^8) constant multiplication == its GF(2) bit matrix]', 'specs.fips197::gmul_int', 'lemma', dict(result='unsat' if not bad else 'unknown', backend='table-eval', secs=0), sample='6 x 256 evaluations')
    aes = AC.AesUnderProof()
    for n in list(PRIMS) + ['add_round_key', 'encrypt', 'decrypt', '_parametric_cipher', '_prepare_keys', '_prepare_rounds', '_is_bytes_of_len']:
        rep.function(MOD + '::' + n, aes.sha(n))
    rep.function('scared._utils::_is_bytes_array', aes.ld.fn_hash.get('scared._utils::_is_bytes_array'))
    check_tables(aes, rep)
    dtypes = ['uint8', 'int64'] if a.tier == 'quick' else ['uint8', 'int8', 'uint16', 'int16', 'uint32', 'int32', 'uint64', 'int64']
    dtypes = [d for d in dtypes if d != 'int8']       # int8 cannot hold byte values above 127: outside the property's domain
    units = []
    for name in PRIMS:
        for dt in dtypes:
            for lk in ('N', '1'): units.append(('prim', name, dt, lk))
    for dt in dtypes: units.append(('ark', dt))
    for name in PRIMS: units.append(('hist', name))
    units.append(('inverse',))
    for mode in ('encrypt', 'decrypt'):
        for kl in (16, 24, 32):
            nr = F.NR[kl]
            for sk in SHAPES:
                stops = all_stops(nr) if (a.tier == 'thorough' or sk in ('N-N',)) else boundary_stops(nr)
                for dt in (dtypes if (a.tier == 'thorough' and sk == 'N-N') else ['uint8']):
                    for k in range(0, len(stops), 6): units.append(('comp', mode, kl, sk, dt, stops[k:k + 6]))
    def work(sub, kind, *args):
        if kind == 'prim': prim_obligations(aes, sub, args[0], args[1], args[2], timeout)
        elif kind == 'ark': ark_obligation(aes, sub, args[0], timeout)
        elif kind == 'hist': prim_history(aes, sub, args[0], timeout)
        elif kind == 'inverse': inverse_lemmas(aes, sub, timeout)
        elif kind == 'comp': composition(aes, sub, args[0], args[1], args[2], args[3], args[4], timeout)
    P.run_units(rep, work, units)
    exceptional(aes, rep, timeout)
    canaries(aes, rep, timeout)
    # bounded stand-in / engine cross-check on the real interpreter: real scared vs the concrete spec
    n = 60 if a.tier == 'quick' else 600
    rc, o, so, se = R.run_native('props.c05_native', ['bounded', str(n), str(seed)])
    if o is None: rep.errors.append('native stand-in failed: %s %s' % (so[-500:], se[-500:]))
    else:
        rep.bounded.append(dict(function='scared.aes.base (encrypt/decrypt/primitives/_is_bytes_array) vs specs.fips197 under /venv/bin/python', bound='%d random (key, block, stop point, shape, dtype) cases' % n, evaluations=o['evaluations'], distinct=o['evaluations'], exhaustive=False, failures=o['failures']))
        for f in o['failing'][:3]:
            rep.violation('bounded[native-vs-spec]', MOD + '::encrypt', 'real code differs from FIPS-197 on a sampled input', f, None, True, f)
    rep.assume('A4', 'A6', 'T-pyvc', 'T-spec')
    rep.trust('scared._utils._is_bytes_array: replaced by its contract (returns True on byte-valued integer arrays; inputs satisfy the byte invariant by construction); its body is exercised only by the native stand-in',
              'key_schedule: modular call (uninterpreted round keys) in the composition obligations; its conformance is property C10')
    rep.not_decided.append('dtype int8 is outside the domain (cannot hold byte values > 127)')
    sys.exit(rep.finish('./check C05 --tier %s' % a.tier))

if __name__ == '__main__':
    main()
