"""shared by C01 / C03 / C04 / C09 / C11-C14: distinguishers under pyvc, the trace-stream view and additivity obligations.

View: a batch passed to update() is n rows X(i, s), Y(i, w), i < n (n symbolic, unbounded).  Additivity contract of _update:
    accumulator' == accumulator + (moment of the batch)      with moments  sum_i X(i,s),  sum_i X(i,s)^2,  sum_i Y(i,w)*X(i,s), ...
By the interval-split lemma (lemmas/Sums.lean) the accumulators after any sequence of batches are the moments of the concatenation,
whatever the split: that is batch invariance (C01), and it is what gives the accumulators their meaning in C03/C04."""
import z3
import numpy as _rnp
from pyvc import core, symnp, solve, loader as L, harness as H, sums
from pyvc.core import SInt, SBV, SFloat, zi

class Dist:
    def __init__(self):
        sums.install()
        self.ld = L.Loader(); self.d = self.ld.load('scared.distinguishers')
        self.base = self.ld.load('scared.distinguishers.base')
        self.cpa = self.ld.load('scared.distinguishers.cpa'); self.dpa = self.ld.load('scared.distinguishers.dpa')
        self.part = self.ld.load('scared.distinguishers.partitioned'); self.mia = self.ld.load('scared.distinguishers.mia'); self.tpl = self.ld.load('scared.distinguishers.template')
    def sha(self, key): return self.ld.fn_hash.get(key)

def moment_tensor(name, shape, dtype):
    """accumulator whose entries are arbitrary reals named by an uninterpreted function (a ghost moment)"""
    nd = len(shape)
    f = z3.Function(name, *([z3.IntSort()] * nd + [z3.RealSort()]))
    t = symnp.ndarray.fresh(tuple(shape), lambda i: SFloat(f(*[zi(k) for k in i]), dtype), dtype, name=name); t.uf = f
    return t

def real_of(x):
    f = core.to_float(x); assert not f.special; return f.v

def batch_sum(body, n):
    """spec side: sum_{i<n} body(i) through the same normaliser as the code side"""
    return sums.bigsum(body, n, 'float64').v

def small_n_instances(goal_builder, sizes=(1, 2)):
    """regenerate an obligation with the symbolic batch size fixed to small concrete sizes (explicit sums): used to turn an
    abstract refutation into a concrete failing input, or to class it as abstraction-too-coarse"""
    out = []
    for n in sizes: out.append((n, goal_builder(n)))
    return out
