"""C04 native side: ANOVA / NICV / SNR end to end against exact rational definitions."""
import sys, json, random
from fractions import Fraction as Fr
import numpy as np

def definition(kind, x, y):
    """x: samples (ints), y: class values; exact rational statistic or None if undefined"""
    cls = {}
    for a, b in zip(x, y): cls.setdefault(int(b), []).append(Fr(int(a)))
    groups = [v for v in cls.values() if v]
    k = len(groups); n = sum(len(g) for g in groups); mu = sum(sum(g) for g in groups) / n
    mus = [sum(g) / len(g) for g in groups]
    try:
        if kind == 'ANOVA':
            return (sum(len(g) * (m - mu) ** 2 for g, m in zip(groups, mus)) / (k - 1)) / (sum(sum((v - m) ** 2 for v in g) for g, m in zip(groups, mus)) / (n - k))
        if kind == 'NICV':
            return sum(Fr(len(g), n) * (m - mu) ** 2 for g, m in zip(groups, mus)) / (sum(v * v for g in groups for v in g) / n - mu ** 2)
        return (sum((m - mu) ** 2 for m in mus) / k) / (sum(sum((v - m) ** 2 for v in g) / len(g) for g, m in zip(groups, mus)) / k)
    except ZeroDivisionError:
        return None

def check(kind, traces, data, partitions, precision, splits, twice=False):
    import scared
    d = getattr(scared, kind + 'Distinguisher')(partitions=partitions, precision=precision); pos = 0
    for k in splits:
        d.update(traces[pos:pos + k], data[pos:pos + k]); pos += k
        if twice: d.compute()
    res = d.compute()
    if twice:
        res2 = d.compute()
        if not np.array_equal(res, res2, equal_nan=True): return 'compute() twice differs'
    tol = 5e-3 if precision == 'float32' else 1e-8
    plist = list(partitions) if partitions is not None else None
    for w in range(data.shape[1]):
        keep = np.array([plist is None or int(v) in plist for v in data[:, w]])
        for s in range(traces.shape[1]):
            e = definition(kind, traces[keep, s], data[keep, w]) if keep.any() else None
            g = res[w, s]
            if e is None:
                if not np.isnan(g): return 'undefined entry [%d,%d] is %r, not NaN' % (w, s, g)
            elif not abs(g - float(e)) <= tol * max(1.0, abs(float(e))): return 'entry [%d,%d] is %r, definition gives %r' % (w, s, g, float(e))
    return None

def rand_case(rnd):
    n = rnd.choice([3, 6, 15, 40]); S = rnd.choice([1, 2, 3]); W = rnd.choice([1, 2, 3]); hi = rnd.choice([2, 3, 5, 9])
    traces = np.array([[rnd.randint(-20, 20) for _ in range(S)] for _ in range(n)], dtype=rnd.choice(['int8', 'int16', 'float32', 'float64']))
    data = np.array([[rnd.randrange(hi) for _ in range(W)] for _ in range(n)], dtype='uint8')
    if rnd.random() < 0.3: traces[:, 0] = traces[0, 0]
    if rnd.random() < 0.3: data[:, 0] = data[0, 0]
    parts = rnd.choice([None, list(range(hi)), list(range(hi + 3)), [0, 1], sorted(rnd.sample(range(hi + 2), min(hi, 3)))[::-1]])
    if parts is None and data[:1].max() < data.max(): pass
    splits = []; left = n
    while left: k = rnd.randint(1, left); splits.append(k); left -= k
    return traces, data, parts, splits

def replay(case):
    rnd = random.Random(13); kind = case.get('kind', 'SNR')
    for t in range(250):
        traces, data, parts, splits = rand_case(rnd)
        if parts is None: parts = list(range(int(data.max()) + 1))
        try: r = check(kind, traces, data, parts, case.get('precision', 'float64'), splits, twice=(t % 2 == 0))
        except Exception as e: r = 'raises %r' % (e,)
        if r: return dict(reproduced=True, detail=r, data=data.tolist()[:6], traces=traces.tolist()[:6], partitions=parts)
    return dict(reproduced=False)

def bounded(seed, tier):
    rnd = random.Random(seed); fails = []; ev = 0
    for t in range(60 if tier == 'quick' else 300):
        for kind in ('ANOVA', 'NICV', 'SNR'):
            traces, data, parts, splits = rand_case(rnd); prec = rnd.choice(['float32', 'float64']); ev += 1
            if parts is None: parts = list(range(int(data.max()) + 1))
            try: r = check(kind, traces, data, parts, prec, splits, twice=(t % 3 == 0))
            except Exception as e: r = 'raises %r' % (e,)
            if r: fails.append(dict(kind=kind, precision=prec, detail=r, partitions=parts, data=data.tolist()[:5], traces=traces.tolist()[:5], splits=splits))
    return dict(evaluations=ev, failures=len(fails), failing=fails[:5], bound='random integer matrices, class sets with gaps / supersets / undeclared values, unbalanced and empty classes, random batch splits, compute() interleaved, both precisions')

if __name__ == '__main__':
    cmd = sys.argv[1]
    if cmd == 'replay': print(json.dumps(replay(json.loads(sys.stdin.read())), default=str))
    elif cmd == 'bounded': print(json.dumps(bounded(int(sys.argv[2]), sys.argv[3]), default=str))
