"""C11 native side: forced kernel sequences and thread counts on the real numba kernels."""
import sys, json, random, itertools, os
os.environ["NUMBA_NUM_THREADS"] = "16"
import numpy as np

def run(kind, K, X, Y, batches, choices, precision, threads):
    import scared, numba
    from scared.distinguishers import template, partitioned
    numba.set_num_threads(threads)
    if kind == 'TB': d = type('TB', (partitioned.PartitionedDistinguisherBase, template._TemplateBuildDistinguisherMixin), {})(partitions=range(K), precision=precision)
    else: d = getattr(scared, kind + 'Distinguisher')(partitions=range(K), precision=precision)
    pos = 0
    for n, ch in zip(batches, choices):
        d._timings = [-2, -1] if ch == 1 else [1, -1]
        d.update(X[pos:pos + n], Y[pos:pos + n]); pos += n
    r = d.compute()
    return (r, d.pooled_covariance.copy()) if kind == 'TB' else (r,)

def make_data(rnd, tkind, K, n, S=3, kind='SNR'):
    if tkind == 'int': X = np.array([[rnd.randint(-100, 100) for _ in range(S)] for _ in range(n)], dtype='int16')
    elif tkind == 'f32off': X = (np.array([[rnd.random() * 2 for _ in range(S)] for _ in range(n)]) + 1000).astype('float32')      # full 24-bit mantissas: a float32 sum of two samples already rounds
    elif tkind == 'f32': X = np.array([[rnd.randint(-64, 64) / 8.0 for _ in range(S)] for _ in range(n)], dtype='float32')
    else: X = (np.array([[rnd.randint(0, 2047) / 1024.0 for _ in range(S)] for _ in range(n)]) + 1000).astype('float64')
    Y = np.array([[rnd.randrange(K + (2 if rnd.random() < 0.3 else 0)) for _ in range(1 if kind == 'TB' else 2)] for _ in range(n)], dtype='uint8')
    return X, Y

def sweep(seed, tier, kinds=('SNR', 'ANOVA', 'TB')):
    rnd = random.Random(seed); fails = []; ev = 0
    if tier == 'quick': kinds = tuple(k for k in kinds if k != 'ANOVA')
    for batches in ([7, 1, 12], [3, 3, 3, 3]):      # the second layout repeats one batch geometry with so few traces that classes are absent from some batches
      for kind in kinds:
          for K in (((3, 9, 10) if tier != 'quick' else (3, 10)) if kind != 'TB' else ((3, 6) if tier != 'quick' else (3,))):
              for tkind in (('int', 'f32', 'f32off', 'f64off') if tier != 'quick' else ('int', 'f32off')):
                  X, Y = make_data(rnd, tkind, K, sum(batches), kind=kind)
                  for prec in ('float32', 'float64'):
                      ref = None
                      seqs = list(itertools.product((1, 2), repeat=len(batches)))
                      for seq in (seqs if tier != 'quick' else [seqs[0], seqs[-1], seqs[3]]):      # all-1, all-2 (consecutive kernel-2 batches), mixed
                          for th in ((1, 16) if tier == 'quick' else (1, 3, 16)):
                              ev += 1
                              try: out = run(kind, K, X, Y, batches, seq, prec, th)
                              except Exception as e: fails.append(dict(dist=kind, K=K, detail='raises %r' % (e,))); continue
                              if ref is None: ref = out; continue
                              exact = tkind in ('int', 'f32')          # all sums exactly representable in both precisions: results must be identical
                              if prec == 'float32' and not exact: continue     # float32 accumulation of offset data: differences are rounding of the requested precision amplified by cancellation
                              for a, b in zip(ref, out):
                                  if exact and not np.array_equal(a, b, equal_nan=True): fails.append(dict(dist=kind, K=K, traces=tkind, precision=prec, seq=seq, threads=th, detail='exactly representable sums: results not identical (max diff %r)' % float(np.nanmax(np.abs(a - b))))); break
                                  if not exact and not np.allclose(a, b, equal_nan=True, rtol=1e-6, atol=1e-9): fails.append(dict(dist=kind, K=K, traces=tkind, precision=prec, seq=seq, threads=th, detail='kernel sequence / thread count changes the float64 result beyond rounding (max diff %r)' % float(np.nanmax(np.abs(a - b))))); break
    return ev, fails

def replay(case):
    ev, fails = sweep(5, 'quick', kinds=('SNR', 'TB') if case.get('dist') in (None, 'SNR', 'TB', 'TemplateBuild', 'ttest', 'MIA') else ('SNR',))
    return dict(reproduced=bool(fails), detail=fails[:2])

def bounded(seed, tier):
    ev, fails = sweep(seed, tier)
    return dict(evaluations=ev, failures=len(fails), failing=fails[:5], exhaustive=(tier != 'quick'), bound='%s kernel sequences over batches 7/1/12 and 3/3/3/3 (repeated geometry, classes absent from some batches), threads 1..16, class counts 3/9/10, int16 / float32 / float32+offset / float64+offset, both precisions' % ('all 2^3' if tier != 'quick' else '3 of 2^3'))

if __name__ == '__main__':
    cmd = sys.argv[1]
    if cmd == 'replay': print(json.dumps(replay(json.loads(sys.stdin.read())), default=str))
    elif cmd == 'bounded': print(json.dumps(bounded(int(sys.argv[2]), sys.argv[3]), default=str))
