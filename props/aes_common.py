"""shared by C05 / C07 / C10: loading scared.aes.base under pyvc, table contracts, symbolic byte algebra."""
import z3
import numpy as _rnp
from pyvc import core, symnp, loader as L, harness as H
from pyvc.core import SBV, SInt, zi
from specs import fips197 as F

BV8 = z3.BitVecSort(8)
SBOX_UF = z3.Function('fips_SubByte', BV8, BV8)
INV_SBOX_UF = z3.Function('fips_InvSubByte', BV8, BV8)

def _b8(x):
    """8-bit term of a byte-valued scalar (any integer dtype holding a byte: type invariant of the inputs)"""
    if isinstance(x, SBV):
        w = 8 * x.dtype.itemsize
        return x.z if w == 8 else z3.simplify(z3.Extract(7, 0, x.z))
    if isinstance(x, int): return z3.BitVecVal(x, 8)
    raise TypeError(x)
_MUL_CACHE = {}
def _mul_matrix(k):
    """GF(2^8) multiplication by the constant k is GF(2)-linear: bit matrix from the images of the basis bytes"""
    if k not in _MUL_CACHE:
        _MUL_CACHE[k] = [[j for j in range(8) if (F.gmul_int(1 << j, k) >> i) & 1] for i in range(8)]
    return _MUL_CACHE[k]
def _mulz(z, k):
    outs = []
    for cols in _mul_matrix(k):
        t = None
        for j in cols:
            b = z3.Extract(j, j, z); t = b if t is None else t ^ b
        outs.append(t if t is not None else z3.BitVecVal(0, 1))
    return z3.Concat(*reversed(outs))
def mul_matrix_self_check():
    """the bit-matrix form equals gmul on every byte (evaluation, 6 x 256 cases)"""
    bad = []
    for k in (2, 3, 9, 11, 13, 14):
        m = _mul_matrix(k)
        for x in range(256):
            v = 0
            for i, cols in enumerate(m):
                b = 0
                for j in cols: b ^= (x >> j) & 1
                v |= b << i
            if v != F.gmul_int(x, k): bad.append((k, x))
    return bad

class SymAlg:
    """symbolic byte algebra: S-boxes are the uninterpreted FIPS functions, GF multiplication by a constant is its BV term"""
    @staticmethod
    def sbox(x): return SBV(SBOX_UF(_b8(x)), 'uint8')
    @staticmethod
    def inv_sbox(x): return SBV(INV_SBOX_UF(_b8(x)), 'uint8')
    @staticmethod
    def mul(x, k): return SBV(_mulz(_b8(x), k), 'uint8')
    @staticmethod
    def rcon(j): return SBV(RCON_CONST[j], 'uint8')

RCON_CONST = [z3.BitVec('fips_Rcon%d' % (j + 1), 8) for j in range(14)]     # opaque: the values are pinned by the RCON table obligation
GM_UF = {k: z3.Function('fips_GFmul%d' % k, BV8, BV8) for k in (2, 3, 9, 11, 13, 14)}
class CompAlg(SymAlg):
    """algebra for the composition obligations: primitives are modular calls, so GF multiplication stays uninterpreted"""
    @staticmethod
    def mul(x, k): return SBV(GM_UF[k](_b8(x)), 'uint8')

def sbox_axioms():
    """facts about the two uninterpreted S-box functions that the table obligations establish by evaluation"""
    x = z3.BitVec('sbx', 8)
    return [z3.ForAll([x], INV_SBOX_UF(SBOX_UF(x)) == x), z3.ForAll([x], SBOX_UF(INV_SBOX_UF(x)) == x)]

TABLE_SPECS = {
    'SBOX': (F.SBOX, lambda z: SBOX_UF(z)),
    'INV_SBOX': (F.INV_SBOX, lambda z: INV_SBOX_UF(z)),
    'XTIME_2': (F.XTIME(2), lambda z: _mulz(z, 2)), 'XTIME_3': (F.XTIME(3), lambda z: _mulz(z, 3)),
    'XTIME_9': (F.XTIME(9), lambda z: _mulz(z, 9)), 'XTIME_11': (F.XTIME(11), lambda z: _mulz(z, 11)),
    'XTIME_13': (F.XTIME(13), lambda z: _mulz(z, 13)), 'XTIME_14': (F.XTIME(14), lambda z: _mulz(z, 14)),
}
CONST_TABLES = {
    'RCON': [r for r in F.RCON[:10]],
    'SHIFT_ROWS': F.shift_rows(list(range(16))),
    'INV_SHIFT_ROWS': F.inv_shift_rows(list(range(16))),
}

class AesUnderProof:
    def __init__(self):
        self.ld = L.Loader()
        self.mod = self.ld.load('scared.aes.base')
        self.table_ok = {}
        self.table_diffs = {}
        self._by_storage = {}
        for name, (spec, term) in TABLE_SPECS.items():
            lit = self.ld.module_literal('scared.aes.base', name)
            diffs = [(i, lit[i] if i < len(lit) else None, spec[i]) for i in range(256) if i >= len(lit) or lit[i] != spec[i]]
            if len(lit) != 256: diffs.append(('len', len(lit), 256))
            self.table_ok[name] = not diffs; self.table_diffs[name] = diffs
            t = getattr(self.mod, name)
            uf_other = z3.Function('tbl_' + name, BV8, BV8)
            self._by_storage[id(t.st)] = (name, term if not diffs else (lambda z, f=uf_other: f(z)))
        for name, spec in CONST_TABLES.items():
            lit = self.ld.module_literal('scared.aes.base', name)
            lit = [list(r) for r in lit] if name == 'RCON' else list(lit)
            diffs = [(i, lit[i] if i < len(lit) else None, spec[i]) for i in range(len(spec)) if i >= len(lit) or lit[i] != spec[i]]
            self.table_ok[name] = not diffs and len(lit) == len(spec); self.table_diffs[name] = diffs
        symnp.TABLE_HOOK[0] = self._table_hook
        self._rcon_storage = id(self.mod.RCON.st)
        symnp.CONST_HOOK[0] = self._const_hook
    def _table_hook(self, arr, st, idx):
        ent = self._by_storage.get(id(st))
        if ent is None or len(idx) != 1: return None
        name, term = ent
        i = idx[0]
        if isinstance(i, SInt):
            # index came from a byte-valued element: recover its 8-bit term
            z = z3.simplify(z3.Int2BV(i.z, 8))
        else:
            z = _b8(i)
        return SBV(z3.simplify(term(z)), 'uint8')
    def _const_hook(self, arr, st, idx):
        if id(st) != self._rcon_storage or not self.table_ok['RCON'] or len(idx) != 2: return None
        return SBV(RCON_CONST[idx[0]], 'uint8') if idx[1] == 0 else None
    def fn(self, name): return getattr(self.mod, name)
    def sha(self, name): return self.ld.fn_hash.get('scared.aes.base::' + name)

def spec_row(f, elems): return f(elems, SymAlg)
