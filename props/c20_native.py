"""C20 native side: real Synchronizer on real ETS files, every accept/raise/None pattern up to a length."""
import sys, json, random, itertools, tempfile, os, pathlib
import numpy as np

def one(pattern, as_path, shorter, tmp):
    import scared, estraces
    n = len(pattern); rng = np.random.default_rng(n)
    samples = rng.normal(size=(n, 20)).astype('float32'); pt = rng.integers(0, 256, (n, 4)).astype('uint8')
    ths = estraces.read_ths_from_ram(samples=samples, plaintext=pt)
    calls = {'i': 0}
    def f(trace_object):
        i = calls['i']; calls['i'] += 1; o = pattern[i]
        if o == 'a': return trace_object.samples[2:12] * 2 if shorter else trace_object.samples[:] + 1
        if o == 'n': return None
        if o == 'r': raise scared.ResynchroError('no')
        raise IndexError('x')
    out = os.path.join(tmp, 'o_%s_%d.ets' % (''.join(pattern), as_path))
    s = scared.Synchronizer(ths, pathlib.Path(out) if as_path else out, f, overwrite=True)
    acc = [i for i, o in enumerate(pattern) if o == 'a']
    res = None; err = None
    try: res = s.run()
    except Exception as e: err = e
    if s.processed_counter != n: return 'processed_counter %s != %d' % (s.processed_counter, n)
    if s.synchronized_counter != len(acc): return 'synchronized_counter %s != %d' % (s.synchronized_counter, len(acc))
    if acc:
        if err is not None: return 'run raised %r' % (err,)
        if len(res) != len(acc): return 'output has %d traces, expected %d' % (len(res), len(acc))
        exp = np.array([(samples[i, 2:12] * 2 if shorter else samples[i] + 1) for i in acc])
        if not np.allclose(res.samples[:], exp): return 'samples differ / order'
        if not np.array_equal(res.plaintext, pt[acc]): return 'metadata not those of the originating traces'
    try:
        s.run(); return 'second run accepted'
    except scared.SynchronizerError: pass
    except Exception as e: return 'second run raised %r' % (e,)
    return None

def check_then_run(tmp):
    """history: check() on a few traces (catching, and re-raising with catch_exceptions=False) and then run() on the same object"""
    import scared, estraces
    fails = []; ev = 0
    n = 12; rng = np.random.default_rng(5)
    samples = rng.normal(size=(n, 20)).astype('float32'); pt = rng.integers(0, 256, (n, 4)).astype('uint8')
    for catch in (True, False):
        for bad_at in (0, 1, 2, 99):
            ev += 1
            ths = estraces.read_ths_from_ram(samples=samples, plaintext=pt)
            st = {'calls': 0, 'checking': True}
            def f(trace_object):
                st['calls'] += 1
                if st['checking']:
                    if st['calls'] - 1 == bad_at: raise scared.ResynchroError('no')
                    return trace_object.samples[:] + 1
                if int(trace_object.plaintext[0]) % 3 == 0: raise scared.ResynchroError('no')
                return trace_object.samples[:] + 1
            out = os.path.join(tmp, 'h_%d_%d.ets' % (catch, bad_at))
            s = scared.Synchronizer(ths, out, f, overwrite=True)
            try: s.check(nb_traces=4, catch_exceptions=catch)
            except scared.ResynchroError: pass
            st['checking'] = False
            acc = [i for i in range(n) if int(pt[i, 0]) % 3 != 0]
            try:
                res = s.run(); r = None
                if s.processed_counter != n or s.synchronized_counter != len(acc): r = 'counters %s/%s after check()+run(), expected %d/%d' % (s.processed_counter, s.synchronized_counter, n, len(acc))
                elif len(res) != len(acc) or not np.allclose(res.samples[:], samples[acc] + 1) or not np.array_equal(res.plaintext, pt[acc]): r = 'output after check()+run() is not the accepted traces'
            except Exception as e: r = 'run after check raises %r' % (e,)
            if r: fails.append(dict(kind='check_then_run', catch_exceptions=catch, check_fails_at=bad_at, detail=r))
    return ev, fails

def sweep(maxlen, extra):
    fails = []; ev = 0
    with tempfile.TemporaryDirectory(dir='/dev/shm') as tmp:
        pats = []
        for ln in range(1, maxlen + 1): pats += list(itertools.product('anri', repeat=ln)) if ln <= 3 else list(itertools.product('ar', repeat=ln))
        pats += extra
        for k, p in enumerate(pats):
            ev += 1
            try: r = one(list(p), k % 2 == 1, k % 3 == 0, tmp)
            except Exception as e: r = 'raises %r' % (e,)
            if r: fails.append(dict(kind='pattern', pattern=''.join(p), detail=r))
        e2, f2 = check_then_run(tmp); ev += e2; fails += f2
    return ev, fails

def replay(case):
    ev, fails = sweep(3, [tuple('r' * 9), tuple('rrrrrrrra'), tuple('arrrrrrrrrrrrrrrra')])
    return dict(reproduced=bool(fails), detail=fails[:2])

def bounded(seed, tier):
    ev, fails = sweep(4 if tier == 'quick' else 7, [tuple('r' * 9), tuple('i' * 17), tuple('rrrrrrrra'), tuple('arrrrrrrrrrrrrrrra'), tuple('n' * 5)])
    return dict(evaluations=ev, failures=len(fails), failing=fails[:5], exhaustive=True, bound='all accept/None/ResynchroError/IndexError patterns of length <= 3, all accept/raise patterns up to length %d, long failure runs; check() (returning / re-raising) followed by run(); str and Path outputs; returned data shorter or same length' % (4 if tier == 'quick' else 7))

if __name__ == '__main__':
    cmd = sys.argv[1]
    if cmd == 'replay': print(json.dumps(replay(json.loads(sys.stdin.read())), default=str))
    elif cmd == 'bounded': print(json.dumps(bounded(int(sys.argv[2]), sys.argv[3]), default=str))
