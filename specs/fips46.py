"""FIPS 46-3 (DES / TDES) written from the standard, independent of scared's code.

Bit-level, pure Python, dual use: bits are Python ints (concrete) or any value supporting ^ (symbolic 1-bit terms).
Bit numbering as in the standard: bit 1 is the most significant bit of the first byte.
"""
IP = [58, 50, 42, 34, 26, 18, 10, 2, 60, 52, 44, 36, 28, 20, 12, 4, 62, 54, 46, 38, 30, 22, 14, 6, 64, 56, 48, 40, 32, 24, 16, 8,
      57, 49, 41, 33, 25, 17, 9, 1, 59, 51, 43, 35, 27, 19, 11, 3, 61, 53, 45, 37, 29, 21, 13, 5, 63, 55, 47, 39, 31, 23, 15, 7]
FP = [40, 8, 48, 16, 56, 24, 64, 32, 39, 7, 47, 15, 55, 23, 63, 31, 38, 6, 46, 14, 54, 22, 62, 30, 37, 5, 45, 13, 53, 21, 61, 29,
      36, 4, 44, 12, 52, 20, 60, 28, 35, 3, 43, 11, 51, 19, 59, 27, 34, 2, 42, 10, 50, 18, 58, 26, 33, 1, 41, 9, 49, 17, 57, 25]
E = [32, 1, 2, 3, 4, 5, 4, 5, 6, 7, 8, 9, 8, 9, 10, 11, 12, 13, 12, 13, 14, 15, 16, 17,
     16, 17, 18, 19, 20, 21, 20, 21, 22, 23, 24, 25, 24, 25, 26, 27, 28, 29, 28, 29, 30, 31, 32, 1]
P = [16, 7, 20, 21, 29, 12, 28, 17, 1, 15, 23, 26, 5, 18, 31, 10, 2, 8, 24, 14, 32, 27, 3, 9, 19, 13, 30, 6, 22, 11, 4, 25]
PC1 = [57, 49, 41, 33, 25, 17, 9, 1, 58, 50, 42, 34, 26, 18, 10, 2, 59, 51, 43, 35, 27, 19, 11, 3, 60, 52, 44, 36,
       63, 55, 47, 39, 31, 23, 15, 7, 62, 54, 46, 38, 30, 22, 14, 6, 61, 53, 45, 37, 29, 21, 13, 5, 28, 20, 12, 4]
PC2 = [14, 17, 11, 24, 1, 5, 3, 28, 15, 6, 21, 10, 23, 19, 12, 4, 26, 8, 16, 7, 27, 20, 13, 2,
       41, 52, 31, 37, 47, 55, 30, 40, 51, 45, 33, 48, 44, 49, 39, 56, 34, 53, 46, 42, 50, 36, 29, 32]
SHIFTS = [1, 1, 2, 2, 2, 2, 2, 2, 1, 2, 2, 2, 2, 2, 2, 1]
S = [
 [[14, 4, 13, 1, 2, 15, 11, 8, 3, 10, 6, 12, 5, 9, 0, 7], [0, 15, 7, 4, 14, 2, 13, 1, 10, 6, 12, 11, 9, 5, 3, 8],
  [4, 1, 14, 8, 13, 6, 2, 11, 15, 12, 9, 7, 3, 10, 5, 0], [15, 12, 8, 2, 4, 9, 1, 7, 5, 11, 3, 14, 10, 0, 6, 13]],
 [[15, 1, 8, 14, 6, 11, 3, 4, 9, 7, 2, 13, 12, 0, 5, 10], [3, 13, 4, 7, 15, 2, 8, 14, 12, 0, 1, 10, 6, 9, 11, 5],
  [0, 14, 7, 11, 10, 4, 13, 1, 5, 8, 12, 6, 9, 3, 2, 15], [13, 8, 10, 1, 3, 15, 4, 2, 11, 6, 7, 12, 0, 5, 14, 9]],
 [[10, 0, 9, 14, 6, 3, 15, 5, 1, 13, 12, 7, 11, 4, 2, 8], [13, 7, 0, 9, 3, 4, 6, 10, 2, 8, 5, 14, 12, 11, 15, 1],
  [13, 6, 4, 9, 8, 15, 3, 0, 11, 1, 2, 12, 5, 10, 14, 7], [1, 10, 13, 0, 6, 9, 8, 7, 4, 15, 14, 3, 11, 5, 2, 12]],
 [[7, 13, 14, 3, 0, 6, 9, 10, 1, 2, 8, 5, 11, 12, 4, 15], [13, 8, 11, 5, 6, 15, 0, 3, 4, 7, 2, 12, 1, 10, 14, 9],
  [10, 6, 9, 0, 12, 11, 7, 13, 15, 1, 3, 14, 5, 2, 8, 4], [3, 15, 0, 6, 10, 1, 13, 8, 9, 4, 5, 11, 12, 7, 2, 14]],
 [[2, 12, 4, 1, 7, 10, 11, 6, 8, 5, 3, 15, 13, 0, 14, 9], [14, 11, 2, 12, 4, 7, 13, 1, 5, 0, 15, 10, 3, 9, 8, 6],
  [4, 2, 1, 11, 10, 13, 7, 8, 15, 9, 12, 5, 6, 3, 0, 14], [11, 8, 12, 7, 1, 14, 2, 13, 6, 15, 0, 9, 10, 4, 5, 3]],
 [[12, 1, 10, 15, 9, 2, 6, 8, 0, 13, 3, 4, 14, 7, 5, 11], [10, 15, 4, 2, 7, 12, 9, 5, 6, 1, 13, 14, 0, 11, 3, 8],
  [9, 14, 15, 5, 2, 8, 12, 3, 7, 0, 4, 10, 1, 13, 11, 6], [4, 3, 2, 12, 9, 5, 15, 10, 11, 14, 1, 7, 6, 0, 8, 13]],
 [[4, 11, 2, 14, 15, 0, 8, 13, 3, 12, 9, 7, 5, 10, 6, 1], [13, 0, 11, 7, 4, 9, 1, 10, 14, 3, 5, 12, 2, 15, 8, 6],
  [1, 4, 11, 13, 12, 3, 7, 14, 10, 15, 6, 8, 0, 5, 9, 2], [6, 11, 13, 8, 1, 4, 10, 7, 9, 5, 0, 15, 14, 2, 3, 12]],
 [[13, 2, 8, 4, 6, 15, 11, 1, 10, 9, 3, 14, 5, 0, 12, 7], [1, 15, 13, 8, 10, 3, 7, 4, 12, 5, 6, 11, 0, 14, 9, 2],
  [7, 11, 4, 1, 9, 12, 14, 2, 0, 6, 10, 13, 15, 3, 5, 8], [2, 1, 14, 7, 4, 10, 8, 13, 15, 12, 9, 0, 3, 5, 6, 11]],
]

def sbox_direct(w, x):
    """S-box w (0..7) on the 6-bit value x = b1 b2 b3 b4 b5 b6 (b1 most significant): row b1b6, column b2..b5"""
    row = ((x >> 5) & 1) * 2 + (x & 1); col = (x >> 1) & 0xf
    return S[w][row][col]

class IntBits:
    """concrete bit algebra"""
    @staticmethod
    def sbox(w, six):            # six: list of 6 bits -> list of 4 bits
        x = 0
        for b in six: x = (x << 1) | b
        v = sbox_direct(w, x)
        return [(v >> 3) & 1, (v >> 2) & 1, (v >> 1) & 1, v & 1]
    @staticmethod
    def xor(a, b): return a ^ b

def permute(bits, table): return [bits[t - 1] for t in table]
def inverse_table(table, n):
    inv = [None] * n
    for k, t in enumerate(table): inv[t - 1] = k + 1
    return inv
PINV = inverse_table(P, 32)

def xor_bits(a, b, A=IntBits): return [A.xor(x, y) for x, y in zip(a, b)]
def f_function(r32, k48, A=IntBits):
    """returns (E(R), E(R)^K, S output 32 bits, P output 32 bits)"""
    e = permute(r32, E); x = xor_bits(e, k48, A); s = []
    for w in range(8): s += A.sbox(w, x[6 * w:6 * w + 6])
    return e, x, s, permute(s, P)

def key_schedule_bits(key64):
    """16 round keys of 48 bits: PC-2(rot(PC-1(key)))"""
    cd = permute(key64, PC1); c, d = cd[:28], cd[28:]; out = []
    for r in range(16):
        c = c[SHIFTS[r]:] + c[:SHIFTS[r]]; d = d[SHIFTS[r]:] + d[:SHIFTS[r]]
        out.append(permute(c + d, PC2))
    return out

# ---- stop points as documented by scared.des.Steps (value at `step` of round `rnd`, 0-based)
#  0 INITIAL_PERMUTATION: (L_i, R_i)            (round 0: IP output; later rounds: the carried halves)
#  1 EXPANSIVE_PERMUTATION: E(R_i)   48 bits     2 ADD_ROUND_KEY: E(R_i)^K_i   48 bits     3 SBOXES: S output 32 bits
#  4 PERMUTATION_P: P(S) || 0 (64 bits)          5 XOR_WITH_SAVED_LEFT_RIGHT: (L_i ^ f, R_i)
#  6 PERMUTE_RIGHT_LEFT: (L_{i+1}, R_{i+1}) = (R_i, L_i ^ f)
#  7 INV_PERMUTATION_P_RIGHT: P^-1(R_{i+1}) 32 bits      8 INV_PERMUTATION_P_DELTA_RIGHT: P^-1(R_i ^ R_{i+1}) 32 bits
#  9 FINAL_PERMUTATION: in round 15 of the pass one stops in: IP^-1(R_16 || L_16), the DES output of that pass; in earlier rounds the
#     state after step 6.  (A pass that is not stopped in hands the un-swapped pre-output (R_16, L_16) to the next pass as its (L_0, R_0):
#     the IP^-1 of one pass and the IP of the next cancel.)
def des_pass(lr64, rks, at_round=15, after_step=9, first=True, final=True, A=IntBits):
    """one DES pass on the 64 bits `lr64`: the input block if first (IP applied), else the carried (L0, R0).
    returns (kind, bits) with kind in 'LR64' 'E48' 'S32' 'P32'"""
    lr = permute(lr64, IP) if first else list(lr64)
    l, r = lr[:32], lr[32:]
    for rnd in range(at_round + 1):
        last = rnd == at_round
        e, x, s, p = f_function(r, rks[rnd], A)
        nl, nr = r, xor_bits(l, p, A)
        if last:
            if after_step == 0: return 'LR64', l + r
            if after_step == 1: return 'E48', e
            if after_step == 2: return 'E48', x
            if after_step == 3: return 'S32', s
            if after_step == 4: return 'LR64', p + [0] * 32
            if after_step == 5: return 'LR64', nr + r
            if after_step == 6: return 'LR64', nl + nr
            if after_step == 7: return 'S32', permute(nr, PINV)
            if after_step == 8: return 'S32', permute(xor_bits(r, nr, A), PINV)
            if after_step == 9:
                if rnd == 15:
                    return 'LR64', (permute(nr + nl, FP) if final else nr + nl)
                return 'LR64', nl + nr
        l, r = nl, nr
    raise AssertionError

def des_block(block64, rks, decrypt=False, A=IntBits):
    ks = list(reversed(rks)) if decrypt else rks
    return des_pass(block64, ks, 15, 9, True, True, A)[1]

def tdes(block64, passes, at_des=None, at_round=15, after_step=9, A=IntBits):
    """passes: list of (round keys in the order they are applied) for the 1..3 DES passes; stop in pass at_des"""
    n = len(passes); at_des = n - 1 if at_des is None else at_des
    cur = block64
    for d in range(at_des + 1):
        stop = d == at_des
        kind, cur = des_pass(cur, passes[d], at_round if stop else 15, after_step if stop else 9, first=(d == 0), final=stop, A=A)
        if stop: return kind, cur
    raise AssertionError

def passes_for(keys_rks, mode):
    """EDE: encrypt = E_k1, D_k2, E_k3 ; decrypt = D_k3, E_k2, D_k1.  keys_rks: list of 1, 2 or 3 round-key lists
    (two-key TDES uses k1 again as third key)"""
    rev = lambda ks: list(reversed(ks))
    if len(keys_rks) == 1:
        return [keys_rks[0] if mode == 'encrypt' else rev(keys_rks[0])]
    k1, k2 = keys_rks[0], keys_rks[1]; k3 = keys_rks[2] if len(keys_rks) == 3 else keys_rks[0]
    if mode == 'encrypt': return [k1, rev(k2), k3]
    return [rev(k3), k2, rev(k1)]

# ----------------------------------------------------------------------------- byte helpers (concrete)
def bytes_to_bits(bs):
    out = []
    for b in bs: out += [(b >> (7 - i)) & 1 for i in range(8)]
    return out
def bits_to_words(bits, width):
    out = []
    for k in range(0, len(bits), width):
        v = 0
        for b in bits[k:k + width]: v = (v << 1) | b
        out.append(v)
    return out
def bits_to_bytes(bits): return bits_to_words(bits, 8)
def words_of(kind, bits):
    """how scared lays a stop-point value out: LR64 -> 8 bytes; E48 -> 8 six-bit words; S32 -> 8 four-bit words; P32 -> 4 bytes"""
    return bits_to_words(bits, {'LR64': 8, 'E48': 6, 'S32': 4, 'P32': 8}[kind])
def round_keys_words(key8):
    """scared's key_schedule layout: 16 x 8 six-bit words"""
    return [bits_to_words(k, 6) for k in key_schedule_bits(bytes_to_bits(key8))]
def words_to_bits(ws, width):
    out = []
    for w in ws: out += [(w >> (width - 1 - i)) & 1 for i in range(width)]
    return out

def cipher_bytes(block8, key, mode='encrypt', at_des=None, at_round=None, after_step=9):
    """concrete oracle with scared's calling convention; key: 8/16/24 master bytes or 128/256/384 expanded six-bit words"""
    if len(key) in (8, 16, 24): rks = [key_schedule_bits(bytes_to_bits(key[8 * i:8 * i + 8])) for i in range(len(key) // 8)]
    else: rks = [[words_to_bits(key[128 * i + 8 * r:128 * i + 8 * r + 8], 6) for r in range(16)] for i in range(len(key) // 128)]
    kind, bits = tdes(bytes_to_bits(block8), passes_for(rks, mode), at_des, 15 if at_round is None else at_round, after_step)
    return words_of(kind, bits)

def self_check():
    errs = []
    if sorted(IP) != list(range(1, 65)): errs.append('IP not a permutation')
    if inverse_table(IP, 64) != FP: errs.append('FP != IP^-1')
    if sorted(P) != list(range(1, 33)): errs.append('P not a permutation')
    edge = sorted(E);
    if sorted(set(E)) != list(range(1, 33)) or len(E) != 48: errs.append('E')
    dup = sorted(t for t in set(E) if E.count(t) == 2)
    if dup != sorted([1, 4, 5, 8, 9, 12, 13, 16, 17, 20, 21, 24, 25, 28, 29, 32]): errs.append('E duplicates are not the 16 edge bits')
    if sorted(PC1) != [b for b in range(1, 65) if b % 8]: errs.append('PC-1 must drop exactly the parity bits')
    if len(set(PC2)) != 48 or sorted(set(range(1, 57)) - set(PC2)) != [9, 18, 22, 25, 35, 38, 43, 54]: errs.append('PC-2 must drop positions 9 18 22 25 35 38 43 54')
    if sum(SHIFTS) != 28: errs.append('shifts')
    for w in range(8):
        for row in S[w]:
            if sorted(row) != list(range(16)): errs.append('S%d row not a permutation' % (w + 1))
    h = lambda s: [int(s[i:i + 2], 16) for i in range(0, len(s), 2)]
    if cipher_bytes(h('0123456789ABCDEF'), h('133457799BBCDFF1')) != h('85E813540F0AB405'): errs.append('worked example')
    if cipher_bytes(h('85E813540F0AB405'), h('133457799BBCDFF1'), 'decrypt') != h('0123456789ABCDEF'): errs.append('worked example decrypt')
    if cipher_bytes(h('0000000000000000'), h('0101010101010101')) != h('8CA64DE9C1B123A7'): errs.append('NBS zero vector')
    if cipher_bytes(h('8000000000000000'), h('0101010101010101')) != h('95F8A5E5DD31D900'): errs.append('NBS variable plaintext 1')
    if cipher_bytes(h('0000000000000000'), h('8001010101010101')) != h('95A8D72813DAA94D'): errs.append('NBS variable key 1')
    return errs

if __name__ == '__main__':
    e = self_check(); print('fips46 self-check:', 'ok' if not e else e)
