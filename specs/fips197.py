"""FIPS-197 (AES) written from the standard, independent of scared's code.

Pure Python, dual use: with Python ints (concrete oracle, replay, self-check) and with pyvc symbolic
bytes (right-hand side of postconditions).  Bytes are combined only with ^ and the callables
passed in (`sbox`, `inv_sbox`, `xtime`), so any value type supporting ^ works.

State layout: a block is the sequence in[0..15]; s[r, c] = in[r + 4c] (FIPS-197 section 3.4).  All functions
here take and return the flat 16-sequence in that input order.
"""

# ----------------------------------------------------------------------------- GF(2^8), section 4
def xtime_int(a):
    a <<= 1
    if a & 0x100: a ^= 0x11b
    return a & 0xff

def gmul_int(a, b):
    r = 0
    while b:
        if b & 1: r ^= a
        a = xtime_int(a); b >>= 1
    return r

def _inv_int(a):
    if a == 0: return 0
    for b in range(1, 256):
        if gmul_int(a, b) == 1: return b

def _affine(b):
    r = 0
    for i in range(8):
        bit = ((b >> i) ^ (b >> ((i + 4) % 8)) ^ (b >> ((i + 5) % 8)) ^ (b >> ((i + 6) % 8)) ^ (b >> ((i + 7) % 8)) ^ (0x63 >> i)) & 1
        r |= bit << i
    return r

SBOX = [_affine(_inv_int(x)) for x in range(256)]            # section 5.1.1
INV_SBOX = [SBOX.index(x) for x in range(256)]               # section 5.3.2
RCON = [[1, 0, 0, 0]]
for _ in range(1, 14): RCON.append([xtime_int(RCON[-1][0]), 0, 0, 0])   # Rcon[i] = x^(i-1), section 5.2
def XTIME(k): return [gmul_int(x, k) for x in range(256)]

class IntAlg:
    """concrete byte algebra"""
    sbox = staticmethod(lambda x: SBOX[x])
    inv_sbox = staticmethod(lambda x: INV_SBOX[x])
    @staticmethod
    def mul(x, k): return gmul_int(x, k)
    @staticmethod
    def rcon(j): return RCON[j][0]

# ----------------------------------------------------------------------------- round operations, section 5.1 / 5.3
def sub_bytes(s, A=IntAlg): return [A.sbox(x) for x in s]
def inv_sub_bytes(s, A=IntAlg): return [A.inv_sbox(x) for x in s]
def shift_rows(s, A=IntAlg):
    # s'[r, c] = s[r, (c + r) mod 4]
    return [s[r + 4 * ((c + r) % 4)] for c in range(4) for r in range(4)]
def inv_shift_rows(s, A=IntAlg):
    # s'[r, (c + r) mod 4] = s[r, c]
    out = [None] * 16
    for c in range(4):
        for r in range(4): out[r + 4 * ((c + r) % 4)] = s[r + 4 * c]
    return out
def mix_column(col, A=IntAlg):
    a0, a1, a2, a3 = col
    return [A.mul(a0, 2) ^ A.mul(a1, 3) ^ a2 ^ a3,
            a0 ^ A.mul(a1, 2) ^ A.mul(a2, 3) ^ a3,
            a0 ^ a1 ^ A.mul(a2, 2) ^ A.mul(a3, 3),
            A.mul(a0, 3) ^ a1 ^ a2 ^ A.mul(a3, 2)]
def inv_mix_column(col, A=IntAlg):
    a0, a1, a2, a3 = col
    return [A.mul(a0, 14) ^ A.mul(a1, 11) ^ A.mul(a2, 13) ^ A.mul(a3, 9),
            A.mul(a0, 9) ^ A.mul(a1, 14) ^ A.mul(a2, 11) ^ A.mul(a3, 13),
            A.mul(a0, 13) ^ A.mul(a1, 9) ^ A.mul(a2, 14) ^ A.mul(a3, 11),
            A.mul(a0, 11) ^ A.mul(a1, 13) ^ A.mul(a2, 9) ^ A.mul(a3, 14)]
def mix_columns(s, A=IntAlg):
    out = []
    for c in range(4): out += mix_column(s[4 * c:4 * c + 4], A)
    return out
def inv_mix_columns(s, A=IntAlg):
    out = []
    for c in range(4): out += inv_mix_column(s[4 * c:4 * c + 4], A)
    return out
def add_round_key(s, k, A=IntAlg): return [x ^ y for x, y in zip(s, k)]

# ----------------------------------------------------------------------------- key expansion, section 5.2
NK = {16: 4, 24: 6, 32: 8}
NR = {16: 10, 24: 12, 32: 14}
def key_expansion(key, A=IntAlg):
    """key: 16/24/32 bytes -> list of 4(Nr+1) words (each a list of 4 bytes)"""
    nk = NK[len(key)]; nr = NR[len(key)]
    w = [list(key[4 * i:4 * i + 4]) for i in range(nk)]
    for i in range(nk, 4 * (nr + 1)):
        w.append(next_word(w[i - nk], w[i - 1], i, nk, A))
    return w
def next_word(w_back, w_prev, i, nk, A=IntAlg):
    """W[i] from W[i-Nk] and W[i-1]"""
    temp = list(w_prev)
    if i % nk == 0:
        temp = temp[1:] + temp[:1]                       # RotWord
        temp = [A.sbox(b) for b in temp]                 # SubWord
        temp = [temp[0] ^ A.rcon(i // nk - 1)] + temp[1:]
    elif nk > 6 and i % nk == 4:
        temp = [A.sbox(b) for b in temp]
    return [a ^ b for a, b in zip(w_back, temp)]
def prev_word(w_i, w_prev_of_i, i, nk, A=IntAlg):
    """W[i-Nk] from W[i] and W[i-1] (the same identity rearranged)"""
    return next_word(w_i, w_prev_of_i, i, nk, A)
def round_keys(key, A=IntAlg):
    w = key_expansion(key, A)
    return [sum(w[4 * r:4 * r + 4], []) for r in range(len(w) // 4)]

# ----------------------------------------------------------------------------- cipher / inverse cipher with stop points, section 5.1 / 5.3
# scared's documented stop points: at_round in [0, Nr], after_step in {0,1,2,3}
#   encrypt steps: 0 SubBytes, 1 ShiftRows, 2 MixColumns, 3 AddRoundKey   (round 0 is the initial AddRoundKey only; round Nr has no MixColumns)
#   decrypt steps: 0 AddRoundKey, 1 InvMixColumns, 2 InvShiftRows, 3 InvSubBytes
#       (round 0: AddRoundKey(w[Nr]), -, InvShiftRows, InvSubBytes; round Nr: AddRoundKey(w[0]) only)
def encrypt_ops(nr):
    ops = []
    for rnd in range(nr + 1):
        for step, name in enumerate(('sub_bytes', 'shift_rows', 'mix_columns', 'add_round_key')):
            if rnd == 0 and step < 3: name = None
            if rnd == nr and step == 2: name = None
            ops.append((rnd, step, name, rnd))
    return ops
def decrypt_ops(nr):
    ops = []
    for rnd in range(nr + 1):
        for step, name in enumerate(('add_round_key', 'inv_mix_columns', 'inv_shift_rows', 'inv_sub_bytes')):
            if rnd == 0 and step == 1: name = None
            if rnd == nr and step > 0: name = None
            ops.append((rnd, step, name, nr - rnd))
    return ops
_OPS = dict(sub_bytes=sub_bytes, shift_rows=shift_rows, mix_columns=mix_columns, inv_sub_bytes=inv_sub_bytes,
            inv_shift_rows=inv_shift_rows, inv_mix_columns=inv_mix_columns)
def cipher(block, rks, mode='encrypt', at_round=None, after_step=3, A=IntAlg):
    """state after (at_round, after_step); rks = list of Nr+1 round keys (16 bytes each)"""
    nr = len(rks) - 1
    if at_round is None: at_round = nr
    s = list(block)
    for rnd, step, name, kidx in (encrypt_ops(nr) if mode == 'encrypt' else decrypt_ops(nr)):
        if (rnd, step) > (at_round, after_step): break
        if name is None: continue
        s = add_round_key(s, rks[kidx], A) if name == 'add_round_key' else _OPS[name](s, A)
    return s
def encrypt(block, key, at_round=None, after_step=3): return cipher(block, round_keys(key), 'encrypt', at_round, after_step)
def decrypt(block, key, at_round=None, after_step=3): return cipher(block, round_keys(key), 'decrypt', at_round, after_step)

# ----------------------------------------------------------------------------- self check against the standard's published vectors
def _h(s): return [int(s[i:i + 2], 16) for i in range(0, len(s), 2)]
def self_check():
    errs = []
    def eq(name, got, exp):
        if list(got) != list(exp): errs.append(name)
    eq('sbox[0x53]', [SBOX[0x53]], [0xed]); eq('sbox[0]', [SBOX[0]], [0x63]); eq('{57}x{83}', [gmul_int(0x57, 0x83)], [0xc1]); eq('{57}x{13}', [gmul_int(0x57, 0x13)], [0xfe])
    pt = _h('00112233445566778899aabbccddeeff')
    for key, ct in (('000102030405060708090a0b0c0d0e0f', '69c4e0d86a7b0430d8cdb78070b4c55a'),
                    ('000102030405060708090a0b0c0d0e0f1011121314151617', 'dda97ca4864cdfe06eaf70a0ec0d7191'),
                    ('000102030405060708090a0b0c0d0e0f101112131415161718191a1b1c1d1e1f', '8ea2b7ca516745bfeafc49904b496089')):
        eq('C.%d encrypt' % len(key), encrypt(pt, _h(key)), _h(ct)); eq('C.%d decrypt' % len(key), decrypt(_h(ct), _h(key)), pt)
    k = _h('000102030405060708090a0b0c0d0e0f')
    eq('C.1 round1 start', encrypt(pt, k, 0, 3), _h('00102030405060708090a0b0c0d0e0f0'))
    eq('C.1 round1 s_box', encrypt(pt, k, 1, 0), _h('63cab7040953d051cd60e0e7ba70e18c'))
    eq('C.1 round1 s_row', encrypt(pt, k, 1, 1), _h('6353e08c0960e104cd70b751bacad0e7'))
    eq('C.1 round1 m_col', encrypt(pt, k, 1, 2), _h('5f72641557f5bc92f7be3b291db9f91a'))
    eq('C.1 round2 start', encrypt(pt, k, 1, 3), _h('89d810e8855ace682d1843d8cb128fe4'))
    eq('C.1 round10 s_row', encrypt(pt, k, 10, 1), _h('7ad5fda789ef4e272bca100b3d9ff59f'))
    ct = _h('69c4e0d86a7b0430d8cdb78070b4c55a')
    eq('C.1 inv round1 istart', decrypt(ct, k, 0, 0), _h('7ad5fda789ef4e272bca100b3d9ff59f'))
    eq('C.1 inv round1 is_row', decrypt(ct, k, 0, 2), _h('7a9f102789d5f50b2beffd9f3dca4ea7'))
    eq('C.1 inv round1 is_box', decrypt(ct, k, 0, 3), _h('bd6e7c3df2b5779e0b61216e8b10b689'))
    eq('A.1 w43', key_expansion(_h('2b7e151628aed2a6abf7158809cf4f3c'))[43], _h('b6630ca6'))
    eq('A.1 w4', key_expansion(_h('2b7e151628aed2a6abf7158809cf4f3c'))[4], _h('a0fafe17'))
    eq('A.2 w51', key_expansion(_h('8e73b0f7da0e6452c810f32b809079e562f8ead2522c6b7b'))[51], _h('01002202'))
    eq('A.3 w59', key_expansion(_h('603deb1015ca71be2b73aef0857d77811f352c073b6108d72d9810a30914dff4'))[59], _h('706c631e'))
    return errs

if __name__ == '__main__':
    e = self_check(); print('fips197 self-check:', 'ok' if not e else e)
