"""pyvc.parallel -- run independent work units in forked worker processes and merge their sub-reports."""
import multiprocessing, os, traceback
from . import core

_WORK = {}
def _run(i):
    fn, unit, rep = _WORK['fn'], _WORK['units'][i], _WORK['rep'].sub()
    try:
        fn(rep, *unit)
    except core.Undecided as e:
        rep.undecided.append(dict(obligation='work unit %r' % (unit[:5] if isinstance(unit, tuple) else unit,), reason='engine limit: %s' % e))
    except Exception as e:
        rep.errors.append('work unit %r crashed: %s' % (unit[:4] if isinstance(unit, tuple) else unit, traceback.format_exc()[-1500:]))
    return rep.export()

def run_units(rep, fn, units, procs=None):
    """fn(sub_report, *unit) for every unit; results merged into rep in unit order"""
    procs = procs or int(os.environ.get('PYVC_PROCS', '14'))
    units = list(units)
    if not units: return
    _WORK.update(fn=fn, units=units, rep=rep)
    if procs <= 1 or len(units) == 1:
        for i in range(len(units)): rep.merge(_run(i))
        return
    ctx = multiprocessing.get_context('fork')
    with ctx.Pool(min(procs, len(units))) as pool:
        for d in pool.imap(_run, range(len(units)), chunksize=1):
            rep.merge(d)
