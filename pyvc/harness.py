"""pyvc.harness -- helpers shared by the per-property contract drivers."""
import z3, itertools, time
import numpy as _rnp
from . import core, symnp, solve, loader
from .core import SInt, SBV, SFloat, SBool, mk_int, zi, zb

_uid = itertools.count()

def sym_bytes(name, shape, dtype='uint8', bits=8):
    """input tensor whose elements are arbitrary `bits`-bit values held in `dtype` (type invariant by construction)"""
    dt = _rnp.dtype(dtype)
    nd = len(shape)
    f = z3.Function(name, *([z3.IntSort()] * nd + [z3.BitVecSort(bits)])) if nd else z3.BitVec(name, bits)
    w = 8 * dt.itemsize
    def fn(i):
        b = f(*[zi(k) for k in i]) if nd else f
        if dt.kind == 'f': return core.to_float(SBV(b, 'uint%d' % max(8, bits)), dt)
        if w > bits: b = z3.ZeroExt(w - bits, b)
        return SBV(b, dt)
    t = symnp.ndarray.fresh(tuple(shape), fn, dt, name=name)
    t.uf = f; t.input_name = name
    return t

def sym_ints(name, shape, dtype):
    """input tensor of arbitrary values of an integer dtype"""
    dt = _rnp.dtype(dtype); nd = len(shape)
    f = z3.Function(name, *([z3.IntSort()] * nd + [z3.BitVecSort(8 * dt.itemsize)])) if nd else z3.BitVec(name, 8 * dt.itemsize)
    t = symnp.ndarray.fresh(tuple(shape), lambda i: SBV(f(*[zi(k) for k in i]) if nd else f, dt), dt, name=name)
    t.uf = f; t.input_name = name
    return t

def sym_reals(name, shape, dtype='float64'):
    """input tensor of arbitrary finite reals"""
    dt = _rnp.dtype(dtype); nd = len(shape)
    f = z3.Function(name, *([z3.IntSort()] * nd + [z3.RealSort()])) if nd else z3.Real(name)
    t = symnp.ndarray.fresh(tuple(shape), lambda i: SFloat(f(*[zi(k) for k in i]) if nd else f, dt), dt, name=name)
    t.uf = f; t.input_name = name
    return t

def generic_index(shape, prefix='g'):
    """fresh index variables, one per symbolic axis (concrete axes are enumerated by the caller); returns (idx vars, constraints)"""
    idx = []; cons = []
    for ax, d in enumerate(shape):
        v = z3.Int('%s%d!%d' % (prefix, ax, next(_uid)))
        idx.append(SInt(v)); cons += [v >= 0, v < zi(d)]
    return idx, cons

def row_elems(t, lead):
    """elements of tensor t at leading index tuple `lead`, over the (concrete) last axis"""
    n = t.shape[-1]
    return [t.at(*(tuple(lead) + (j,))) for j in range(n)]

def eq_all(got, exp):
    """z3 conjunction: element lists equal"""
    assert len(got) == len(exp), (len(got), len(exp))
    cs = []
    for g, e in zip(got, exp):
        c = core.scalar_eq(g, e)
        cs.append(c)
    return z3.And(*cs) if len(cs) != 1 else cs[0]

def structurally_equal(got, exp, simp=False):
    """identical terms (optionally after z3's simplifier, which flattens and sorts AC operators such as bvxor)"""
    try:
        if len(got) != len(exp): return False
        for g, e in zip(got, exp):
            a, b = _term(g), _term(e)
            if a.eq(b): continue
            if not simp: return False
            if a.sort() != b.sort() or not z3.simplify(a).eq(z3.simplify(b)): return False
        return True
    except Exception:
        return False
def _term(x):
    if isinstance(x, SBV): return x.z
    if isinstance(x, SInt): return x.z
    if isinstance(x, SBool): return x.z
    if isinstance(x, SFloat): return x.v
    if isinstance(x, bool): return z3.BoolVal(x)
    if isinstance(x, int): return z3.IntVal(x)
    raise TypeError(x)

def untouched(*tensors):
    """frame check: no write happened to the storages of the caller's arrays"""
    return all(t.st.version == 0 for t in tensors)

def model_tensor_rows(model, t, rows, ncols):
    """concrete values of input tensor t (made by sym_*) at the given leading indices"""
    out = []
    for r in rows:
        lead = r if isinstance(r, tuple) else (r,)
        vals = []
        for j in range(ncols):
            e = t.at(*(tuple(lead) + (j,)))
            vals.append(solve.mval(model, _term(e)))
        out.append(vals)
    return out

class Timer:
    def __init__(self): self.t = time.time()
    def lap(self):
        n = time.time(); d = n - self.t; self.t = n; return d
