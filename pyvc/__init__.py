import sys, threading
sys.setrecursionlimit(200000)
threading.stack_size(512 * 1024 * 1024)

def run_big_stack(fn):
    """run fn() in a thread with a large C stack (deep lazy-tensor evaluation chains)"""
    box = {}
    def tgt():
        try: box['r'] = fn()
        except BaseException as e: box['e'] = e
    t = threading.Thread(target=tgt); t.start(); t.join()
    if 'e' in box: raise box['e']
    return box.get('r')
