"""pyvc.sums -- sums over a symbolic axis (np.sum / dot / matmul / mean over the unbounded number of traces).

A sum  sum_{r<n} body(r)  is normalised into  sum_j coef_j * PS_j(n, params)  where the coef_j are row-free, each PS_j is an
uninterpreted prefix-sum function of one canonical row-dependent monomial (its free constants lambda-lifted into params).
Two syntactically different but equal sums (linearity, commutativity, expansion of products over sums, row-free divisors)
thereby become the same SMT term.  The rewrite facts used -- linearity, splitting -- are the lemmas of lemmas/Sums.lean (A5).
Prefix sums satisfy  PS(0) = 0,  PS(k+1) = PS(k) + mono(k)  (instances supplied on request by unfold())."""
import z3, itertools
from . import core, symnp
from .core import SInt, SFloat, NeedsContract

ROW = z3.Int('__row')
REG = {}              # canonical key -> dict(uf, nparams, mono (with placeholders), placeholders)
_ctr = itertools.count()

def _contains(e, cache):
    i = e.get_id()
    if i in cache: return cache[i]
    r = e.eq(ROW) or any(_contains(c, cache) for c in e.children())
    cache[i] = r; return r

def _split(e, cache):
    """list of (coef z3 or None, [row-dependent factors])"""
    if not _contains(e, cache): return [(e, [])]
    k = e.decl().kind()
    ch = e.children()
    if k == z3.Z3_OP_ADD: return sum([_split(c, cache) for c in ch], [])
    if k == z3.Z3_OP_SUB:
        out = _split(ch[0], cache)
        for c in ch[1:]: out += [(_neg(co), f) for co, f in _split(c, cache)]
        return out
    if k == z3.Z3_OP_UMINUS: return [(_neg(co), f) for co, f in _split(ch[0], cache)]
    if k == z3.Z3_OP_MUL:
        acc = [(None, [])]
        for c in ch:
            parts = _split(c, cache); new = []
            for co1, f1 in acc:
                for co2, f2 in parts: new.append((_mul(co1, co2), f1 + f2))
            acc = new
            if len(acc) > 4000: raise NeedsContract('polynomial too large in a summand')
        return acc
    if k == z3.Z3_OP_DIV and not _contains(ch[1], cache):
        return [(_mul(co, 1 / ch[1]), f) for co, f in _split(ch[0], cache)]
    if k == z3.Z3_OP_POWER and z3.is_rational_value(ch[1]) and ch[1].denominator_as_long() == 1 and 0 < ch[1].numerator_as_long() <= 4:
        return _split(z3.Product(*([ch[0]] * ch[1].numerator_as_long())), cache) if ch[1].numerator_as_long() > 1 else _split(ch[0], cache)
    if k == z3.Z3_OP_TO_REAL and ch[0].decl().kind() in (z3.Z3_OP_ADD, z3.Z3_OP_SUB, z3.Z3_OP_MUL):
        inner = ch[0]; kk = inner.decl().kind(); parts = [z3.ToReal(c) for c in inner.children()]
        e2 = z3.Sum(*parts) if kk == z3.Z3_OP_ADD else (parts[0] - z3.Sum(*parts[1:]) if kk == z3.Z3_OP_SUB else z3.Product(*parts))
        return _split(e2, cache)
    if k == z3.Z3_OP_ITE and not _contains(ch[0], cache):
        # row-free condition: sum distributes over the two branches
        a = _split(ch[1], cache); b = _split(ch[2], cache)
        ca = z3.If(ch[0], z3.RealVal(1), z3.RealVal(0)); cb = z3.If(ch[0], z3.RealVal(0), z3.RealVal(1))
        return [(_mul(co, ca), f) for co, f in a] + [(_mul(co, cb), f) for co, f in b]
    return [(None, [e])]

def _neg(c): return z3.RealVal(-1) if c is None else -c
def _mul(a, b):
    if a is None: return b
    if b is None: return a
    return a * b
def _real(c):
    if c is None: return z3.RealVal(1)
    return z3.ToReal(c) if z3.is_int(c) else c

def _params(mono):
    """free constants of the monomial other than ROW, in order of first occurrence"""
    seen = []; ids = set()
    def rec(t):
        if t.eq(ROW): return
        if z3.is_const(t) and t.decl().kind() == z3.Z3_OP_UNINTERPRETED:
            if t.get_id() not in ids: ids.add(t.get_id()); seen.append(t)
            return
        for c in t.children(): rec(c)
    rec(mono); return seen

def prefix_sum(mono, n):
    """PS_mono(n, params): sum of the row-dependent monomial over rows [0, n)"""
    ps = _params(mono)
    holders = [z3.Const('__p%d_%s' % (i, p.sort()), p.sort()) for i, p in enumerate(ps)]
    canon = z3.substitute(mono, *zip(ps, holders)) if ps else mono
    key = canon.sexpr()
    ent = REG.get(key)
    if ent is None:
        uf = z3.Function('PS%d' % next(_ctr), z3.IntSort(), *[p.sort() for p in ps], z3.RealSort())
        ent = dict(uf=uf, mono=canon, holders=holders, key=key); REG[key] = ent
    return ent['uf'](core.zi(n), *ps), ent

USED = []      # (entry, n term, params) of every prefix sum produced (for unfold axioms)

def bigsum(body, n, dt=None):
    """SUM_HOOK: body(row index) -> scalar; n symbolic extent"""
    e = body(SInt(ROW))
    f = core.to_float(e)
    if f.special: raise NeedsContract('sum over possibly non-finite values')
    cache = {}
    from . import itelift
    v = itelift.canon(f.v)      # indicator summands in one canonical form (code side and specification side alike)
    parts = _split(v, cache)
    groups = {}
    for co, facs in parts:
        if not facs:
            key = ('const',); mono = None
        else:
            facs = sorted(facs, key=lambda t: t.sexpr())
            mono = itelift.orient_eq(z3.simplify(z3.Product(*facs))) if len(facs) > 1 else facs[0]
            key = mono.sexpr()
        g = groups.setdefault(key, [mono, []]); g[1].append(_real(co))
    total = None
    for key, (mono, coefs) in sorted(groups.items(), key=lambda kv: str(kv[0])):
        c = z3.simplify(z3.Sum(*coefs)) if len(coefs) > 1 else z3.simplify(coefs[0])
        if z3.is_rational_value(c) and c.numerator_as_long() == 0: continue
        if mono is None: t = c * z3.ToReal(core.zi(n))
        else:
            app, ent = prefix_sum(mono, n); USED.append((ent, app)); t = c * app
        total = t if total is None else total + t
    if total is None: total = z3.RealVal(0)
    dtype = dt if dt is not None and symnp._rnp.dtype(dt).kind == 'f' else 'float64'
    r = SFloat(z3.simplify(total), dtype)
    if dt is not None and symnp._rnp.dtype(dt).kind == 'f':
        ls = [v for v in (getattr(f, 'lossy', None), 8 * symnp._rnp.dtype(dt).itemsize) if v is not None]; r.lossy = min(ls)      # a float sum is an inexact operation in its dtype
    return r

def install(): symnp.SUM_HOOK[0] = bigsum

def unfold(ent, k, params):
    """axiom instance PS(k+1, params) == PS(k, params) + mono(k, params)"""
    uf = ent['uf']
    inst = z3.substitute(ent['mono'], *( [(ROW, core.zi(k))] + list(zip(ent['holders'], params)) ))
    return uf(core.zi(k) + 1, *params) == uf(core.zi(k), *params) + inst
def base(ent, params): return ent['uf'](z3.IntVal(0), *params) == 0
