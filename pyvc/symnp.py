"""pyvc.symnp -- the numpy stub: lambda tensors over storages.

ndarray = (shape, dtype, storage, strided view descriptor).  A shape entry is a Python int or an
SInt (symbolic, unbounded).  A storage is a memoised function from an index tuple to a scalar
(core.SBV / SFloat / SBool / python number).  Views (basic slicing, swapaxes, newaxis) share the
storage; everything else creates a new storage that snapshots its operands (value semantics).
"""
import builtins, itertools, math
import numpy as _rnp
import z3
from . import core
from .core import SInt, SBool, SBV, SFloat, mk_int, mk_bool, zi, zb, conc, NeedsContract, Ite

# re-exported dtypes / constants
uint8 = _rnp.uint8; uint16 = _rnp.uint16; uint32 = _rnp.uint32; uint64 = _rnp.uint64
int8 = _rnp.int8; int16 = _rnp.int16; int32 = _rnp.int32; int64 = _rnp.int64
float32 = _rnp.float32; float64 = _rnp.float64; bool_ = _rnp.bool_
integer = _rnp.integer; floating = _rnp.floating; generic = _rnp.generic
nan = float('nan'); inf = float('inf'); newaxis = None
_CASTERS = {}
def _caster(dt):
    """dtype.type: a subclass of the numpy scalar type whose constructor also accepts symbolic scalars (numba: self_precision(x))"""
    dt = _rnp.dtype(dt)
    if dt not in _CASTERS:
        base = dt.type
        def __new__(cls, x=0, _dt=dt, _base=base):
            if core.is_sym(x): return core.cast(x, _dt)
            if isinstance(x, ndarray): return x.astype(_dt)
            return _base(x)
        try: _CASTERS[dt] = type(base.__name__, (base,), {'__new__': __new__})
        except TypeError: _CASTERS[dt] = base
    return _CASTERS[dt]
class DT:
    """numpy dtype seen from the sandbox: delegates everything to the real dtype (numpy accepts it through the .dtype protocol)
    except .type, which must accept symbolic scalars"""
    __slots__ = ('dtype',)
    def __init__(self, d): self.dtype = _rnp.dtype(d)
    def __getattr__(self, n): return getattr(self.dtype, n)
    @property
    def type(self): return _caster(self.dtype)
    def _o(self, o): return o.dtype if isinstance(o, DT) else o
    def __eq__(self, o):
        try: return self.dtype == self._o(o)
        except TypeError: return False
    def __ne__(self, o): return not self.__eq__(o)
    def __lt__(self, o): return self.dtype < _rnp.dtype(self._o(o))
    def __le__(self, o): return self.dtype <= _rnp.dtype(self._o(o))
    def __gt__(self, o): return self.dtype > _rnp.dtype(self._o(o))
    def __ge__(self, o): return self.dtype >= _rnp.dtype(self._o(o))
    def __hash__(self): return hash(self.dtype)
    def __str__(self): return str(self.dtype)
    def __repr__(self): return repr(self.dtype)
    def __format__(self, f): return format(self.dtype, f)
def dtype(x):
    return DT(x)
result_type_real = _rnp.result_type
pi = _rnp.pi
iinfo = _rnp.iinfo; finfo = _rnp.finfo

def result_type(*a):
    return DT(_rnp.result_type(*[x.dtype if isinstance(x, ndarray) else x for x in a]))

def _undt(x):
    if isinstance(x, ndarray): return x.dtype if not isinstance(x.dtype, DT) else x.dtype.dtype
    return x.dtype if isinstance(x, DT) else x
def issubdtype(a, b): return builtins.bool(_rnp.issubdtype(_undt(a), _undt(b)))
def can_cast(a, b, casting='safe'): return bool(_rnp.can_cast(_undt(a), _undt(b), casting))
def promote_types(a, b): return DT(_rnp.promote_types(_undt(a), _undt(b)))

# --------------------------------------------------------------------------- index keys / memo
def _k1(k):
    if isinstance(k, (int, _rnp.integer)): return int(k)
    if isinstance(k, SInt): return ('z', k.z.get_id())
    if isinstance(k, SBV): return ('z', k.z.get_id())
    raise TypeError('index %r' % (k,))
def _key(i): return tuple(_k1(k) for k in i)

def memo(f):
    cache = {}
    def g(i):
        k = _key(i)
        hit = cache.get(k)
        if hit is None:
            hit = (f(i), i)          # keep i alive so that ast ids stay unique
            cache[k] = hit
        return hit[0]
    g.raw = f
    return g

class Storage:
    __slots__ = ('fn', 'version', 'name', 'log', 'snap', 'writeback', 'shape')
    def __init__(self, fn, name=None, memoise=True, shape=None):
        self.fn = memo(fn) if memoise else fn; self.version = 0; self.name = name; self.log = None
        self.snap = None; self.writeback = None; self.shape = shape
    def set(self, fn):
        self.fn = memo(fn); self.version += 1

def _norm_index(k, n):
    """scalar index with numpy negative wrap (concrete only; a symbolic index is taken as is)"""
    if isinstance(k, (int, _rnp.integer)):
        k = int(k)
        if isinstance(n, int):
            if k < -n or k >= n: raise IndexError('index %d is out of bounds for axis with size %d' % (k, n))
            return k + n if k < 0 else k
        if k < 0: return mk_int(zi(n) + k)
        return k
    if isinstance(k, SBV): return k.as_int()
    return k

def _wrap_signed(k, n):
    """a machine integer of a SIGNED dtype used as a scalar index (a data value indexing a table): numpy / numba wrap a negative index once (A2).
    Loop counters and generic indices are mathematical integers and are left alone."""
    if isinstance(k, SBV) and k.signed:
        z = k.as_int().z; zs = z3.simplify(z >= 0)
        if z3.is_true(zs): return k
        return mk_int(z3.If(z < 0, z + zi(n), z))
    return k
def as_index_scalar(x):
    if isinstance(x, SBV): return mk_int(x.as_int().z)
    if isinstance(x, (SBool, bool, _rnp.bool_)): raise IndexError('boolean scalar index')
    if isinstance(x, _rnp.integer): return int(x)
    return x

BOUNDS_HOOK = [None]     # callable(index, extent, where) used by kernel proofs (numba does no bounds checking)

# --------------------------------------------------------------------------- the tensor
_REAL_NDARRAY_ATTRS = frozenset(dir(_rnp.ndarray))

class SymBytes:
    """value of ndarray.tobytes(): equal iff same length and element-wise equal (a symbolic comparison forks); hash depends on the length only"""
    def __init__(self, elems): self.elems = list(elems)
    def __len__(self): return len(self.elems)
    def __hash__(self): return hash(('SymBytes', len(self.elems)))
    def __eq__(self, o):
        if not isinstance(o, SymBytes): return NotImplemented
        if len(o.elems) != len(self.elems): return False
        if builtins.all(a is b or (core.is_sym(a) and core.is_sym(b) and a.z.eq(b.z)) for a, b in zip(self.elems, o.elems)): return True
        return bool(core.And(*[a == b for a, b in zip(self.elems, o.elems)]))
    def __ne__(self, o):
        r = self.__eq__(o)
        return r if r is NotImplemented else not r

class ndarray:
    """strided view onto a storage.
    vd: per view axis either ('ax', storage_axis, start, step) or ('new',)
    fixed: dict storage_axis -> index"""
    __array_priority__ = 1000
    def __init__(self, shape, dtype, st, vd=None, fixed=None, nst=None, ro_alias=False):
        self.shape = tuple(shape); self._dt = _rnp.dtype(dtype); self.st = st
        self.nst = len(self.shape) if nst is None else nst
        self.vd = vd if vd is not None else [('ax', a, 0, 1) for a in range(len(self.shape))]
        self.fixed = fixed or {}
        self.ro_alias = ro_alias
    # ---- construction
    @staticmethod
    def fresh(shape, fn, dtype, name=None, memoise=True):
        return ndarray(shape, dtype, Storage(fn, name, memoise, tuple(shape)))
    @property
    def dtype(self): return DT(self._dt)
    @dtype.setter
    def dtype(self, d): self._dt = _rnp.dtype(d)
    @property
    def ndim(self): return len(self.shape)
    @property
    def size(self):
        r = 1
        for d in self.shape: r = r * d
        return r
    @property
    def itemsize(self): return self.dtype.itemsize
    @property
    def nbytes(self): return self.size * self.dtype.itemsize
    def tobytes(self, order='C'):
        """the bytes of the array in C order, as a hashable value whose equality is element-wise equality of same-length contents (shape and dtype
        are NOT part of it, as in numpy); only for concrete extents and one-byte elements"""
        if order != 'C' or self.dtype.itemsize != 1 or not builtins.all(isinstance(d, int) for d in self.shape): raise NeedsContract('ndarray.tobytes in this form')
        import itertools as _it
        return SymBytes([self.at(*i) for i in _it.product(*[builtins.range(d) for d in self.shape])])
    def __getattr__(self, name):
        # an attribute of numpy.ndarray that this model lacks is a limit of the model (undecided), never an AttributeError of the code under proof
        if not name.startswith('_') and name in _REAL_NDARRAY_ATTRS: raise NeedsContract('ndarray.%s (not modelled)' % name)
        raise AttributeError(name)
    def __len__(self):
        if not self.shape: raise TypeError('len() of unsized object')
        return _LenInt.wrap(self.shape[0])
    # ---- element access
    def _sidx(self, idx):
        full = [None] * self.nst
        for a, v in self.fixed.items(): full[a] = v
        for d, i in zip(self.vd, idx):
            if d[0] == 'ax':
                _, a, start, step = d
                if isinstance(start, int) and start == 0 and step == 1: full[a] = i
                elif step == 1: full[a] = start + i
                else: full[a] = start + step * i
        return tuple(full)
    def at(self, *idx):
        if len(idx) == 1 and isinstance(idx[0], tuple): idx = idx[0]
        assert len(idx) == self.ndim, (idx, self.shape)
        return self.st.fn(self._sidx(idx))
    def snapshot(self):
        """function view-index -> scalar that is insensitive to later writes"""
        fn = self.st.snap() if self.st.snap is not None else self.st.fn; sidx = self._sidx
        return lambda idx: fn(sidx(idx))
    def live(self):
        st = self.st; sidx = self._sidx
        return lambda idx: st.fn(sidx(idx))
    def item(self, *a):
        if a: return self.at(*a)
        assert builtins.all(isinstance(d, int) and d == 1 for d in self.shape) or self.ndim == 0
        return self.at(*([0] * self.ndim))
    def __index__(self): return builtins.int(self.item().__index__())
    def __int__(self): return self.item().__int__()
    def __float__(self): return float(self.item())
    def __bool__(self):
        if self.ndim == 0 or builtins.all(isinstance(d, int) and d == 1 for d in self.shape): return bool(self.item())
        raise ValueError('The truth value of an array with more than one element is ambiguous.')
    def __iter__(self):
        n = self.shape[0]
        if not isinstance(n, int): n = n.__index__()
        for i in range(n): yield self[i]
    def __hash__(self): return id(self)
    # ---- basic + advanced indexing
    def _expand_key(self, key):
        if not isinstance(key, tuple): key = (key,)
        key = list(key)
        n_specified = builtins.sum(1 for k in key if k is not None and k is not Ellipsis)
        if builtins.any(k is Ellipsis for k in key):
            e = [i for i, k in enumerate(key) if k is Ellipsis]
            assert len(e) == 1
            key[e[0]:e[0] + 1] = [slice(None)] * (self.ndim - n_specified)
        else:
            key += [slice(None)] * (self.ndim - n_specified)
        if builtins.sum(1 for k in key if k is not None) != self.ndim:
            raise IndexError('too many indices for array: array is %d-dimensional' % self.ndim)
        return key
    def __getitem__(self, key):
        if isinstance(key, SBV) and self.ndim == 1 and getattr(self, 'concrete', None) is not None and TABLE_HOOK[0] is not None:
            r = TABLE_HOOK[0](self.concrete, self.st, self._sidx((key,)))
            if r is not None: return r
        if isinstance(key, ndarray) and key.dtype.kind == 'b' and key.ndim == self.ndim:
            return _mask_select(self, key)
        key = self._expand_key(key)
        key = [asarray(k) if isinstance(k, (list, range)) else k for k in key]
        adv = [i for i, k in enumerate(key) if isinstance(k, ndarray)]
        if adv:
            return _fancy_get(self, key, adv)
        vd = []; fixed = dict(self.fixed); shape = []; ax = 0
        for k in key:
            if k is None:
                vd.append(('new',)); shape.append(1); continue
            d = self.vd[ax]; n = self.shape[ax]; ax += 1
            if isinstance(k, slice):
                start, length, step = _slice_params(k, n)
                if d[0] == 'new':
                    vd.append(('new',)); shape.append(length); continue
                _, a, s0, st0 = d
                vd.append(('ax', a, s0 + st0 * start if not (isinstance(start, int) and start == 0) else s0, st0 * step)); shape.append(length)
            else:
                k = _norm_index(as_index_scalar(_wrap_signed(k, n)), n)
                if BOUNDS_HOOK[0] is not None: BOUNDS_HOOK[0](k, n, 'getitem')
                if d[0] == 'new': continue
                _, a, s0, st0 = d
                fixed[a] = s0 + st0 * k if not (isinstance(s0, int) and s0 == 0 and st0 == 1) else k
        r = ndarray(shape, self.dtype, self.st, vd, fixed, self.nst, self.ro_alias)
        if hasattr(self, 'concrete'): r.concrete = self.concrete
        if not shape and not _KEEP0D[0]:
            return r.item()
        return r
    def __setitem__(self, key, val):
        if self.ro_alias and self.st.writeback is None: raise NeedsContract('write through a reshape()d alias')
        if isinstance(key, ndarray) and key.dtype.kind == 'b':
            return _mask_assign(self, key, val)
        key = self._expand_key(key)
        key = [asarray(k) if isinstance(k, (list, range)) else k for k in key]
        if builtins.any(isinstance(k, ndarray) for k in key):
            return _fancy_set(self, key, val)
        _keep = _KEEP0D[0]; _KEEP0D[0] = True
        try: target = self[tuple(key)]
        finally: _KEEP0D[0] = _keep
        target._assign(val)
    def _assign(self, val):
        """overwrite the region of the storage designated by this view with val (broadcast)"""
        if isinstance(val, ndarray):
            if val.st is self.st and val.vd == self.vd and _same_fixed(val.fixed, self.fixed): return
            vshape = val.shape; vfn = val.snapshot(); vdt = val.dtype
            bidx = _bcast_index(vshape, self.shape)
            getv = lambda vi: vfn(bidx(vi))
        else:
            sc = _to_scalar(val, self.dtype); getv = lambda vi: sc
        dt = self.dtype; old = self.st.snap() if self.st.snap is not None else self.st.fn
        vd = self.vd; fixed = dict(self.fixed); shape = self.shape
        axes = [(v, d) for v, d in enumerate(vd) if d[0] == 'ax']
        stshape = self.st.shape
        def newfn(J):
            conds = []; vi = [0] * len(shape)
            for a, c in fixed.items():
                e = _idx_eq(J[a], c)
                if e is False: return old(J)
                if e is not True: conds.append(e)
            for v, (_, a, start, step) in axes:
                j = J[a]; n = shape[v]
                if step == 1:
                    i = j - start if not (isinstance(start, int) and start == 0) else j
                else:
                    i = (j - start) // step
                    e = _idx_eq((j - start) % step, 0)
                    if e is False: return old(J)
                    if e is not True: conds.append(e)
                full = (stshape is not None and step == 1 and isinstance(start, int) and start == 0 and _same_dim(n, stshape[a]))
                for e in (() if full else (_idx_le(0, i), _idx_lt(i, n))):     # a region spanning the whole axis needs no range condition
                    if e is False: return old(J)
                    if e is not True: conds.append(e)
                vi[v] = i
            raw = getv(tuple(vi))
            if dt.kind == 'f' and isinstance(raw, SFloat) and raw.lossy is not None and raw.lossy < 8 * dt.itemsize:
                core.NARROW_FLOWS.append((raw.lossy, 8 * dt.itemsize))
            newv = core.cast(raw, dt)
            if not conds: return newv
            return Ite(core.And(*conds), newv, old(J))
        self.st.set(newfn)
        if self.st.writeback is not None: self.st.writeback()
    # ---- shape manipulation (views)
    def swapaxes(self, a, b):
        a = a % self.ndim if self.ndim else a; b = b % self.ndim if self.ndim else b
        sh = list(self.shape); vd = list(self.vd)
        sh[a], sh[b] = sh[b], sh[a]; vd[a], vd[b] = vd[b], vd[a]
        return ndarray(sh, self.dtype, self.st, vd, self.fixed, self.nst, self.ro_alias)
    def transpose(self, *axes):
        if not axes or axes == (None,): axes = tuple(range(self.ndim))[::-1]
        elif len(axes) == 1 and isinstance(axes[0], (tuple, list)): axes = tuple(axes[0])
        return ndarray([self.shape[a] for a in axes], self.dtype, self.st, [self.vd[a] for a in axes], self.fixed, self.nst, self.ro_alias)
    @property
    def T(self): return self.transpose()
    def squeeze(self, axis=None):
        keep = []
        for ax, d in enumerate(self.shape):
            if axis is not None and ax != (axis % self.ndim): keep.append(ax); continue
            if isinstance(d, int):
                if d != 1: keep.append(ax)
            else:
                if not bool(d == 1): keep.append(ax)       # forks on a symbolic extent being 1
        fixed = dict(self.fixed)
        for ax in range(self.ndim):
            if ax not in keep and self.vd[ax][0] == 'ax':
                _, a, s0, st0 = self.vd[ax]; fixed[a] = s0
        r = ndarray([self.shape[a] for a in keep], self.dtype, self.st, [self.vd[a] for a in keep], fixed, self.nst, self.ro_alias)
        return r
    def _f_layout(self):
        """True iff the view is the whole storage with its axes reversed (numpy: F-contiguous and not C-contiguous), rank >= 2"""
        def same(x, y): return x is y or (isinstance(x, int) and isinstance(y, int) and x == y)
        n = self.ndim
        if n < 2 or self.fixed or self.nst != n or self.st.shape is None or len(self.st.shape) != n: return False
        if not builtins.all(self.vd[i] == ('ax', n - 1 - i, 0, 1) for i in range(n)): return False
        return builtins.all(same(self.shape[i], self.st.shape[n - 1 - i]) for i in range(n))
    def reshape(self, *shape, order='C'):
        if len(shape) == 1 and isinstance(shape[0], (tuple, list)): shape = tuple(shape[0])
        shape = [mk_int(s.z) if isinstance(s, SInt) else (int(s) if isinstance(s, _rnp.integer) else s) for s in shape]
        if order == 'A': order = 'F' if self._f_layout() else 'C'       # numpy: Fortran order iff the array is Fortran contiguous in memory
        if order == 'F': return _reshape(self.transpose(), shape[::-1]).transpose()
        if order != 'C': raise NeedsContract('reshape(order=%r)' % (order,))
        return _reshape(self, shape)
    def flatten(self): return _reshape(self, [-1], copy=True)
    def ravel(self): return _reshape(self, [-1])
    # ---- copies
    def astype(self, dt, copy=True):
        dt = _rnp.dtype(dt)
        if dt == self.dtype and not copy: return self
        f = self.snapshot()
        return ndarray.fresh(self.shape, lambda i: core.cast(f(i), dt), dt)
    def copy(self, order='C'):
        f = self.snapshot(); return ndarray.fresh(self.shape, f, self.dtype)
    def view(self, *a, **k): raise NeedsContract('ndarray.view')
    def tolist(self):
        def rec(pre, ax):
            n = self.shape[ax]
            if ax == self.ndim - 1: return [self.at(*(pre + (i,))) for i in range(n)]
            return [rec(pre + (i,), ax + 1) for i in range(n)]
        return rec((), 0)
    # ---- reductions
    def sum(self, axis=None, dtype=None, keepdims=False): return sum(self, axis=axis, dtype=dtype, keepdims=keepdims)
    def min(self, axis=None): return min(self, axis=axis)
    def max(self, axis=None): return max(self, axis=axis)
    def mean(self, axis=None, dtype=None): return mean(self, axis=axis, dtype=dtype)
    def all(self, axis=None): return all(self, axis=axis)
    def any(self, axis=None): return any(self, axis=axis)
    def dot(self, o): return dot(self, o)
    # ---- arithmetic
    def __add__(s, o): return _binop(s, o, lambda a, b: a + b)
    def __radd__(s, o): return _binop(o, s, lambda a, b: a + b)
    def __sub__(s, o): return _binop(s, o, lambda a, b: a - b)
    def __rsub__(s, o): return _binop(o, s, lambda a, b: a - b)
    def __mul__(s, o): return _binop(s, o, lambda a, b: a * b)
    def __rmul__(s, o): return _binop(o, s, lambda a, b: a * b)
    def __truediv__(s, o): return _binop(s, o, lambda a, b: a / b, div=True)
    def __rtruediv__(s, o): return _binop(o, s, lambda a, b: a / b, div=True)
    def __floordiv__(s, o): return _binop(s, o, lambda a, b: a // b)
    def __mod__(s, o): return _binop(s, o, lambda a, b: a % b)
    def __pow__(s, o): return _binop(s, o, lambda a, b: a ** b, pow_=True)
    def __and__(s, o): return _binop(s, o, lambda a, b: a & b)
    def __rand__(s, o): return _binop(o, s, lambda a, b: a & b)
    def __or__(s, o): return _binop(s, o, lambda a, b: a | b)
    def __ror__(s, o): return _binop(o, s, lambda a, b: a | b)
    def __xor__(s, o): return _binop(s, o, lambda a, b: a ^ b)
    def __rxor__(s, o): return _binop(o, s, lambda a, b: a ^ b)
    def __lshift__(s, o): return _binop(s, o, lambda a, b: a << b, shift=True)
    def __rshift__(s, o): return _binop(s, o, lambda a, b: a >> b, shift=True)
    def __matmul__(s, o): return matmul(s, o)
    def __rmatmul__(s, o): return matmul(o, s)
    def __neg__(s): return _unop(s, lambda a: -a)
    def __pos__(s): return s
    def __abs__(s): return _unop(s, lambda a: builtins.abs(a))
    def __invert__(s): return _unop(s, lambda a: ~a if not isinstance(a, (bool, _rnp.bool_)) else (not a))
    def __lt__(s, o): return _binop(s, o, lambda a, b: a < b, cmp=True)
    def __le__(s, o): return _binop(s, o, lambda a, b: a <= b, cmp=True)
    def __gt__(s, o): return _binop(s, o, lambda a, b: a > b, cmp=True)
    def __ge__(s, o): return _binop(s, o, lambda a, b: a >= b, cmp=True)
    def __eq__(s, o):
        if o is None or isinstance(o, (str, type(Ellipsis))): return False
        return _binop(s, o, lambda a, b: a == b, cmp=True)
    def __ne__(s, o):
        if o is None or isinstance(o, (str, type(Ellipsis))): return True
        return _binop(s, o, lambda a, b: a != b, cmp=True)
    def _inplace(s, o, f, **kw):
        r = _binop(s, o, f, **kw)
        if r.dtype != s.dtype and not _rnp.can_cast(r.dtype, s.dtype, 'same_kind'):
            raise TypeError("Cannot cast ufunc output from %s to %s with casting rule 'same_kind'" % (r.dtype, s.dtype))
        if s.ndim == 0: s._assign(r.item() if isinstance(r, ndarray) else r)
        else: s._assign(r)
        return s
    def __iadd__(s, o): return s._inplace(o, lambda a, b: a + b)
    def __isub__(s, o): return s._inplace(o, lambda a, b: a - b)
    def __imul__(s, o): return s._inplace(o, lambda a, b: a * b)
    def __itruediv__(s, o): return s._inplace(o, lambda a, b: a / b, div=True)
    def __iand__(s, o): return s._inplace(o, lambda a, b: a & b)
    def __ior__(s, o): return s._inplace(o, lambda a, b: a | b)
    def __ixor__(s, o): return s._inplace(o, lambda a, b: a ^ b)
    def __ilshift__(s, o): return s._inplace(o, lambda a, b: a << b, shift=True)
    def __irshift__(s, o): return s._inplace(o, lambda a, b: a >> b, shift=True)
    def __repr__(self): return 'symnp.ndarray(shape=%s, dtype=%s)' % (self.shape, self.dtype)

_KEEP0D = [False]

class _LenInt(SInt):
    """result of len() on a symbolic extent (len() itself is shimmed in the sandbox builtins)"""
    @staticmethod
    def wrap(d): return d

def _same_fixed(a, b):
    if a.keys() != b.keys(): return False
    for k in a:
        e = _idx_eq(a[k], b[k])
        if e is not True: return False
    return True

def _idx_eq(a, b):
    if isinstance(a, int) and isinstance(b, int): return a == b
    r = mk_bool(zi(a) == zi(b)); return r
def _idx_le(a, b):
    if isinstance(a, int) and isinstance(b, int): return a <= b
    return mk_bool(zi(a) <= zi(b))
def _idx_lt(a, b):
    if isinstance(a, int) and isinstance(b, int): return a < b
    return mk_bool(zi(a) < zi(b))

def _slice_params(k, n):
    """(start, length, step) for slice k on an axis of extent n; symbolic bounds fork when the sign matters"""
    step = 1 if k.step is None else int(k.step)
    if isinstance(n, int) and builtins.all(isinstance(x, (int, type(None), _rnp.integer)) for x in (k.start, k.stop)):
        s, e, st = slice(None if k.start is None else int(k.start), None if k.stop is None else int(k.stop), step).indices(n)
        return s, len(range(s, e, st)), st
    if step == -1 and k.start is None and k.stop is None:
        return n - 1, n, -1
    if step != 1: raise NeedsContract('symbolic slice with step %d' % step)
    def norm(x, default):
        if x is None: return default
        x = as_index_scalar(x)
        if isinstance(x, int):
            if x < 0: x = n + x; return x if bool(x >= 0) else 0     # noqa
            return x if bool(x <= n) else n
        if bool(x < 0):
            x = x + n
            return x if bool(x >= 0) else 0
        return x if bool(x <= n) else n
    start = norm(k.start, 0); stop = norm(k.stop, n)
    length = stop - start
    if not isinstance(length, int):
        if not bool(length >= 0): length = 0
    elif length < 0: length = 0
    return start, mk_int(zi(length)) if not isinstance(length, int) else length, 1

def _to_scalar(v, dt):
    if isinstance(v, ndarray): v = v.item()
    return core.cast(v, dt)

def _dims_equal(a, b):
    if isinstance(a, int) and isinstance(b, int): return a == b
    return bool(mk_bool(zi(a) == zi(b)) if True else False)

def _is_one(d):
    if isinstance(d, int): return d == 1
    return bool(d == 1)

def broadcast_shapes(*shapes):
    nd = builtins.max(len(s) for s in shapes)
    out = []
    for k in range(1, nd + 1):
        ds = [s[-k] for s in shapes if len(s) >= k]
        r = ds[0]
        for d in ds[1:]:
            if isinstance(r, int) and isinstance(d, int):
                if r == d or d == 1: continue
                if r == 1: r = d; continue
                raise ValueError('operands could not be broadcast together with shapes %s' % ' '.join(str(s) for s in shapes))
            # symbolic: structural equality first, then 1-ness (forks)
            if not isinstance(r, int) and not isinstance(d, int) and r.z.eq(d.z): continue
            if isinstance(d, int) and d == 1 and not isinstance(r, int): continue
            if isinstance(r, int) and r == 1: r = d; continue
            if _dims_equal(r, d): continue
            if _is_one(d): continue
            if _is_one(r): r = d; continue
            raise ValueError('operands could not be broadcast together with shapes %s' % ' '.join(str(s) for s in shapes))
        out.append(r)
    return tuple(reversed(out))

def _bcast_index(shape, out_shape):
    """index map from an index of out_shape to an index of shape (right-aligned, size-1 axes pinned to 0)"""
    off = len(out_shape) - len(shape)
    if off < 0: raise ValueError('could not broadcast input array from shape %s into shape %s' % (shape, out_shape))
    pins = []
    for k, d in enumerate(shape):
        o = out_shape[off + k]
        if isinstance(d, int) and d == 1 and not (isinstance(o, int) and o == 1): pins.append(True)
        elif isinstance(d, int) and isinstance(o, int):
            if d != o: raise ValueError('could not broadcast input array from shape %s into shape %s' % (shape, out_shape))
            pins.append(False)
        elif isinstance(d, int) or isinstance(o, int):
            if not _dims_equal(d, o):
                if _is_one(d): pins.append(True); continue
                raise ValueError('could not broadcast input array from shape %s into shape %s' % (shape, out_shape))
            pins.append(False)
        else:
            if not (d.z.eq(o.z) or _dims_equal(d, o)):
                if _is_one(d): pins.append(True); continue
                raise ValueError('could not broadcast input array from shape %s into shape %s' % (shape, out_shape))
            pins.append(False)
    if not builtins.any(pins) and off == 0: return lambda i: i
    return lambda i: tuple(0 if p else i[off + k] for k, p in enumerate(pins))

def _scalar_dtype(x):
    d = core._dtype_of(x)
    return d

def _binop(a, b, f, div=False, cmp=False, shift=False, pow_=False):
    if isinstance(a, (list, tuple)): a = asarray(a)
    if isinstance(b, (list, tuple)): b = asarray(b)
    ta, tb = isinstance(a, ndarray), isinstance(b, ndarray)
    if ta and tb:
        shape = broadcast_shapes(a.shape, b.shape)
        fa, fb = a.snapshot(), b.snapshot(); ia, ib = _bcast_index(a.shape, shape), _bcast_index(b.shape, shape)
        fn = lambda i: f(fa(ia(i)), fb(ib(i)))
        dt = _res_dtype(a.dtype, b.dtype, div, cmp, shift)
    elif ta:
        shape = a.shape; fa = a.snapshot(); fn = lambda i: f(fa(i), b)
        dt = _res_dtype(a.dtype, _weak(b, a.dtype), div, cmp, shift)
    elif tb:
        shape = b.shape; fb = b.snapshot(); fn = lambda i: f(a, fb(i))
        dt = _res_dtype(_weak(a, b.dtype), b.dtype, div, cmp, shift)
    else:
        return f(a, b)
    if pow_ and not cmp and dt.kind in 'iub' and isinstance(b, (int, _rnp.integer)) and b < 0:
        raise ValueError('Integers to negative integer powers are not allowed.')
    if dt.kind in 'iu' or dt.kind == 'f':
        g = fn; fn = lambda i: core.cast(g(i), dt)
    return ndarray.fresh(shape, fn, dt)

def _weak(x, other):
    """dtype a python/symbolic scalar takes against an array dtype (NEP 50 weak scalars)"""
    if isinstance(x, (SBV,)): return x.dtype
    if isinstance(x, SFloat): return x.dtype
    if isinstance(x, (bool, _rnp.bool_, SBool)): return _rnp.dtype('bool')
    if isinstance(x, _rnp.generic): return x.dtype
    if isinstance(x, (int, SInt)):
        if other.kind in 'iu':
            if isinstance(x, int): core._weak_int_dtype(x, other)
            return other
        if other.kind == 'b': return _rnp.dtype('int64')
        return other
    if isinstance(x, float): return other if other.kind == 'f' else _rnp.dtype('float64')
    from fractions import Fraction
    if isinstance(x, Fraction): return other if other.kind == 'f' else _rnp.dtype('float64')
    raise TypeError('operand %r' % (x,))

def _res_dtype(da, db, div, cmp, shift):
    if cmp: return _rnp.dtype('bool')
    dt = _rnp.result_type(da, db)
    if div and dt.kind != 'f': dt = _rnp.dtype('float64')
    if shift and dt.kind == 'b': dt = _rnp.dtype('int8')
    return dt

def _unop(a, f, dt=None):
    fa = a.snapshot()
    return ndarray.fresh(a.shape, lambda i: f(fa(i)), dt or a.dtype)

# --------------------------------------------------------------------------- advanced indexing
def _fancy_get(a, key, adv):
    if len(adv) == 1 and key[adv[0]].dtype.kind == 'b':
        return _mask_select_axis(a, key, adv[0])
    if len(adv) > 1: raise NeedsContract('several index arrays')
    p = adv[0]; ix = key[p]
    if ix.dtype.kind not in 'iu': raise IndexError('arrays used as indices must be of integer (or boolean) type')
    # apply the basic part first (slices/ints on the other axes), keeping axis p whole
    basic = [slice(None) if i == p else k for i, k in enumerate(key)]
    n_int_before = builtins.sum(1 for k in key[:p] if not isinstance(k, slice) and k is not None and not isinstance(k, ndarray))
    n_none_before = builtins.sum(1 for k in key[:p] if k is None)
    ints = [i for i, k in enumerate(key) if k is not None and not isinstance(k, (slice, ndarray))]
    if ints and builtins.any(isinstance(k, slice) or k is None for k in key[builtins.min(ints + [p]):builtins.max(ints + [p])]):
        raise NeedsContract('scalar and array indices separated by a slice')
    _keep = _KEEP0D[0]; _KEEP0D[0] = True
    try: base = a[tuple(basic)]
    finally: _KEEP0D[0] = _keep
    pos = p - n_int_before      # axis of `base` that the index array replaces (None entries included)
    fb = base.snapshot(); fi = ix.snapshot(); n = base.shape[pos]
    shape = base.shape[:pos] + ix.shape + base.shape[pos + 1:]
    k = ix.ndim
    tbl = getattr(a, 'concrete', None)
    def fn(i):
        j = fi(tuple(i[pos:pos + k]))
        if tbl is not None and TABLE_HOOK[0] is not None and base.ndim == 1 and core.is_sym(j):
            r = TABLE_HOOK[0](tbl, a.st, base._sidx((j,)))
            if r is not None: return r
        j = _norm_index(as_index_scalar(j) if core.is_sym(j) or isinstance(j, _rnp.integer) else j, n)
        if BOUNDS_HOOK[0] is not None: BOUNDS_HOOK[0](j, n, 'take')
        return fb(tuple(i[:pos]) + (j,) + tuple(i[pos + k:]))
    r = ndarray.fresh(shape, fn, a.dtype)
    if not shape: return r.item()
    return r

def _fancy_set(a, key, val):
    adv = [i for i, k in enumerate(key) if isinstance(k, ndarray)]
    if len(adv) == 1 and key[adv[0]].dtype.kind == 'b':
        raise NeedsContract('boolean mask on one axis in assignment')
    raise NeedsContract('assignment through an index array')

def _mask_assign(a, mask, val):
    if mask.shape != a.shape: raise NeedsContract('mask of a different shape')
    fm = mask.snapshot(); fa = a.snapshot(); dt = a.dtype
    if isinstance(val, ndarray): raise NeedsContract('array value in masked assignment')
    sc = core.cast(val, dt)
    new = ndarray.fresh(a.shape, lambda i: Ite(fm(i), sc, fa(i)), dt)
    a._assign(new)

def _mask_select_axis(a, key, p):
    """a[..., mask, ...]: the mask axis must have a small concrete extent; each mask element is decided (forks), which
    enumerates the emptiness patterns completely"""
    mask = key[p]
    if mask.ndim != 1 or not isinstance(mask.shape[0], int) or mask.shape[0] > 12: raise NeedsContract('boolean compaction on an axis of symbolic extent')
    keep = [j for j in range(mask.shape[0]) if bool(mask.at(j))]
    basic = [slice(None) if i == p else k for i, k in enumerate(key)]
    _keep = _KEEP0D[0]; _KEEP0D[0] = True
    try: base = a[tuple(basic)]
    finally: _KEEP0D[0] = _keep
    n_int_before = builtins.sum(1 for k in key[:p] if not isinstance(k, slice) and k is not None and not isinstance(k, ndarray))
    pos = p - n_int_before; fb = base.snapshot()
    shape = base.shape[:pos] + (len(keep),) + base.shape[pos + 1:]
    return ndarray.fresh(shape, lambda i: fb(tuple(i[:pos]) + (keep[i[pos]] if isinstance(i[pos], int) else _pick_list(keep, i[pos]),) + tuple(i[pos + 1:])), a.dtype)
def _mask_select(a, mask):
    if a.ndim == 1: return _mask_select_axis(a, [mask], 0)
    raise NeedsContract('boolean compaction a[mask] of rank > 1')

# --------------------------------------------------------------------------- reshape
def _prod(sh):
    r = 1
    for d in sh: r = r * d
    return r

def _reshape(a, shape, copy=False):
    shape = list(shape)
    neg = [i for i, d in enumerate(shape) if isinstance(d, int) and d == -1]
    if len(neg) > 1: raise ValueError('can only specify one unknown dimension')
    if neg:
        rest = _prod([d for i, d in enumerate(shape) if i != neg[0]])
        total = a.size
        if isinstance(total, int) and isinstance(rest, int):
            if rest == 0 or total % rest: raise ValueError('cannot reshape array of size %s into shape %s' % (total, tuple(shape)))
            shape[neg[0]] = total // rest
        else:
            q = _div_exact(total, rest)
            if q is None: q = _cancel_dims(list(a.shape), [d for i, d in enumerate(shape) if i != neg[0]])
            if q is None: raise NeedsContract('reshape(-1) with symbolic sizes %s / %s' % (total, rest))
            shape[neg[0]] = q
    else:
        ta, tb = a.size, _prod(shape)
        if isinstance(ta, int) and isinstance(tb, int):
            if ta != tb: raise ValueError('cannot reshape array of size %d into shape %s' % (ta, tuple(shape)))
        elif not _dims_equal(ta, tb): raise ValueError('cannot reshape array of size %s into shape %s' % (ta, tuple(shape)))
    shape = tuple(shape)
    if len(shape) == a.ndim and builtins.all(_same_dim(x, y) for x, y in zip(shape, a.shape)):
        return a if not copy else a.copy()
    src = a.live() if not copy else a.snapshot()
    old = a.shape
    # fast path: a common prefix of symbolic/equal leading dims, concrete trailing blocks of equal size
    p = 0
    while p < builtins.min(len(old), len(shape)) and _same_dim(old[p], shape[p]): p += 1
    q = 0       # common suffix (e.g. a symbolic number of samples kept as last axis)
    while q < builtins.min(len(old), len(shape)) - p and _same_dim(old[len(old) - 1 - q], shape[len(shape) - 1 - q]) and not isinstance(old[len(old) - 1 - q], int): q += 1
    tail_old, tail_new = old[p:len(old) - q], shape[p:len(shape) - q]
    if builtins.all(isinstance(d, int) for d in tail_old + tail_new):
        lo_, ln_ = len(tail_old), len(tail_new)
        so = _strides(tail_old); sn = _strides(tail_new)
        def _unravel(flat, dims, strides):
            rest = []
            for d, s_ in zip(dims, strides):
                if isinstance(flat, int): rest.append((flat // s_) % d)
                else: rest.append(mk_int(zi((flat // s_) % d)))
            return rest
        def fwd(i):
            flat = 0
            for k, s_ in zip(i[p:p + ln_], sn): flat = flat + k * s_
            return tuple(i[:p]) + tuple(_unravel(flat, tail_old, so)) + tuple(i[p + ln_:])
        def bwd(j):
            flat = 0
            for k, s_ in zip(j[p:p + lo_], so): flat = flat + k * s_
            return tuple(j[:p]) + tuple(_unravel(flat, tail_new, sn)) + tuple(j[p + lo_:])
        def fn(i): return src(fwd(i))
        st = Storage(fn, memoise=False)
        if not copy:
            passthrough = fn
            def snap():
                frozen = a.snapshot(); return lambda i: frozen(fwd(i))
            def writeback():
                cur = st.fn
                a._assign(ndarray.fresh(a.shape, lambda j: cur(bwd(j)), a.dtype))
                st.fn = passthrough
            st.snap = snap; st.writeback = writeback
        return ndarray(shape, a.dtype, st, ro_alias=not copy)
    # general case: leading dimension symbolic on one side only (e.g. (N, 16) -> (N*4, 4))
    if builtins.all(isinstance(d, int) for d in old[1:] + shape[1:]):
        so = _strides_sym(old); sn = _strides_sym(shape)
        def fn(i):
            flat = 0
            for k, s in zip(i, sn): flat = flat + k * s
            rest = []
            for ax, (d, s) in enumerate(zip(old, so)):
                q = flat // s
                rest.append(mk_int(zi(q)) if ax == 0 else mk_int(zi(q % d)))
            return src(tuple(rest))
        return ndarray(shape, a.dtype, Storage(fn, memoise=False), ro_alias=True)
    raise NeedsContract('reshape %s -> %s' % (old, shape))

def _same_dim(x, y):
    if isinstance(x, int) and isinstance(y, int): return x == y
    if isinstance(x, int) or isinstance(y, int): return False
    return x.z.eq(y.z) or z3.simplify(x.z - y.z).eq(z3.IntVal(0))

def _strides(sh):
    s = []; acc = 1
    for d in reversed(sh): s.append(acc); acc *= d
    return list(reversed(s))
def _strides_sym(sh):
    s = []; acc = 1
    for d in reversed(sh[1:]): s.append(acc); acc *= d
    s.append(acc)
    return list(reversed(s))

def _cancel_dims(have, want):
    """product(have) / product(want) by cancelling identical symbolic extents and dividing the concrete parts"""
    have = list(have); cw = 1
    for d in want:
        if isinstance(d, int): cw *= d; continue
        for k, h in enumerate(have):
            if not isinstance(h, int) and _same_dim(h, d): del have[k]; break
        else: return None
    ch = 1; sym = []
    for h in have:
        if isinstance(h, int): ch *= h
        else: sym.append(h)
    if cw == 0 or ch % cw: return None
    r = ch // cw
    for h in sym: r = r * h
    return r

def _div_exact(total, rest):
    """total / rest when it is syntactically exact (N*c / c', c' | c)"""
    if isinstance(rest, int):
        t = z3.simplify(zi(total))
        # total = c * X  with c % rest == 0, or sum of such
        if z3.is_mul(t) and z3.is_int_value(t.arg(0)) and t.arg(0).as_long() % rest == 0:
            c = t.arg(0).as_long() // rest
            r = t.arg(1)
            for k in range(2, t.num_args()): r = r * t.arg(k)
            return mk_int(r * c if c != 1 else r)
        if rest == 1: return mk_int(t)
        return None
    return None

# --------------------------------------------------------------------------- creation
def _dim(d):
    if isinstance(d, _rnp.integer): return int(d)
    if isinstance(d, SInt): return mk_int(d.z)
    if isinstance(d, SBV):
        c = conc(d.z)
        return int(c) if c is not None else mk_int(d.as_int().z)
    if isinstance(d, ndarray): return _dim(d.item())
    return d
def _shape_tuple(shape):
    if isinstance(shape, (int, SInt, SBV, _rnp.integer)): shape = (shape,)
    return tuple(_dim(d) for d in shape)

def _zero(dt):
    dt = _rnp.dtype(dt)
    if dt.kind == 'f': return SFloat(z3.RealVal(0), dt)
    if dt.kind == 'b': return False
    return core.bvval(0, dt)

def zeros(shape, dtype='float64', order='C'):
    dt = _rnp.dtype(dtype); z = _zero(dt)
    return ndarray.fresh(_shape_tuple(shape), lambda i: z, dt)
def ones(shape, dtype='float64'):
    dt = _rnp.dtype(dtype); o = core.cast(1, dt)
    return ndarray.fresh(_shape_tuple(shape), lambda i: o, dt)
_empty_ctr = itertools.count()
def empty(shape, dtype='float64', order='C'):
    """uninitialised memory: an arbitrary (uninterpreted) value per element"""
    dt = _rnp.dtype(dtype); k = next(_empty_ctr); shape = _shape_tuple(shape)
    if dt.kind == 'f':
        f = z3.Function('empty%d' % k, *([z3.IntSort()] * len(shape) + [z3.RealSort()])) if shape else None
        return ndarray.fresh(shape, lambda i: SFloat(f(*[zi(x) for x in i]) if shape else z3.Real('empty%d' % k), dt), dt)
    if dt.kind == 'b':
        f = z3.Function('empty%d' % k, *([z3.IntSort()] * len(shape) + [z3.BoolSort()]))
        return ndarray.fresh(shape, lambda i: mk_bool(f(*[zi(x) for x in i])), dt)
    f = z3.Function('empty%d' % k, *([z3.IntSort()] * len(shape) + [z3.BitVecSort(8 * dt.itemsize)]))
    return ndarray.fresh(shape, lambda i: SBV(f(*[zi(x) for x in i]), dt), dt)
def zeros_like(a, dtype=None): return zeros(a.shape, dtype or a.dtype)
def empty_like(a, dtype=None): return empty(a.shape, dtype or a.dtype)
def full(shape, v, dtype=None):
    dt = _rnp.dtype(dtype) if dtype is not None else (_rnp.dtype('float64') if isinstance(v, float) else _rnp.dtype('int64'))
    sc = core.cast(v, dt)
    return ndarray.fresh(_shape_tuple(shape), lambda i: sc, dt)

def from_real(arr):
    """wrap a real numpy array (constants, tables)"""
    arr = _rnp.asarray(arr); dt = arr.dtype
    if dt.kind == 'f': conv = lambda v: core.to_float(float(v), dt)
    elif dt.kind == 'b': conv = bool
    elif dt.kind in 'iu': conv = lambda v: core.bvval(int(v), dt)
    else: raise TypeError(dt)
    t = ndarray.fresh(arr.shape, None, dt)
    t.st.fn = _table_fn(arr, conv, t.st)
    t.concrete = arr
    return t

CONST_HOOK = [None]      # callable(real_array, storage, concrete index) -> scalar or None : opaque named constants
TABLE_HOOK = [None]      # callable(real_array, storage, index_tuple) -> scalar or None : table contracts (symbolic look-ups)

def _table_fn(arr, conv, st):
    def fn(i):
        if builtins.all(isinstance(k, int) for k in i):
            if CONST_HOOK[0] is not None:
                r = CONST_HOOK[0](arr, st, i)
                if r is not None: return r
            return conv(arr[i])
        if TABLE_HOOK[0] is not None:
            r = TABLE_HOOK[0](arr, st, i)
            if r is not None: return r
        return _ite_lookup(arr, conv, i)
    return memo(fn)

def _ite_lookup(arr, conv, i):
    # generic symbolic look-up in a concrete table: case analysis over the symbolic axes
    sym_axes = [ax for ax, k in enumerate(i) if not isinstance(k, int)]
    ax = sym_axes[0]
    n = arr.shape[ax]
    if n > 4096: raise NeedsContract('symbolic look-up in a table with %d entries and no table contract' % n)
    res = None
    for v in reversed(range(n)):
        j = list(i); j[ax] = v
        val = _table_fn_get(arr, conv, tuple(j))
        res = val if res is None else Ite(mk_bool(zi(i[ax]) == v), val, res)
    return res
def _table_fn_get(arr, conv, i):
    if builtins.all(isinstance(k, int) for k in i): return conv(arr[i])
    return _ite_lookup(arr, conv, i)

def _is_real_number(x): return isinstance(x, (int, float, bool, _rnp.generic)) and not isinstance(x, (SInt,))

def _nested_shape(x):
    if isinstance(x, ndarray): return x.shape
    if isinstance(x, (list, tuple, range)):
        if len(x) == 0: return (0,)
        return (len(x),) + _nested_shape(x[0])
    return ()
def _all_real(x):
    if isinstance(x, (list, tuple, range)): return builtins.all(_all_real(y) for y in x)
    return _is_real_number(x)

def array(x, dtype=None, copy=True, ndmin=0):
    if isinstance(x, ndarray):
        dt = _rnp.dtype(dtype) if dtype is not None else x.dtype
        return x.astype(dt) if (copy or dt != x.dtype) else x
    if isinstance(x, _rnp.ndarray): return from_real(x if dtype is None else x.astype(dtype))
    if isinstance(x, range): x = list(x)
    if hasattr(x, '__pyvc_len__') and hasattr(x, 'fn'):
        n = x.__pyvc_len__(); probe = x[0] if isinstance(n, int) else x[SInt(z3.Int('probe!lst'))]
        inner_shape = probe.shape if isinstance(probe, ndarray) else ()
        dt = _rnp.dtype(dtype) if dtype is not None else (probe.dtype if isinstance(probe, ndarray) else _scalar_dtype(probe))
        snaps = {}
        def fnl(i):
            k = _k1(i[0])
            if k not in snaps:
                v = x[i[0]]; snaps[k] = v.snapshot() if isinstance(v, ndarray) else v
            v = snaps[k]
            return core.cast(v(tuple(i[1:])) if callable(v) else v, dt)
        return ndarray.fresh((n,) + tuple(inner_shape), fnl, dt)
    if isinstance(x, (list, tuple)):
        if _all_real(x):
            return from_real(_rnp.array(x, dtype=dtype))
        shape = _nested_shape(x)
        def get(i):
            v = x
            for k in i[:len(shape) - (v_nd[0])]:
                pass
            return None
        # element tensors / scalars mixed: walk the nesting
        depth = 0; probe = x
        while isinstance(probe, (list, tuple)): probe = probe[0]; depth += 1
        inner = probe
        inner_shape = inner.shape if isinstance(inner, ndarray) else ()
        outer_shape = shape[:depth]
        dts = []
        def walk(v, d):
            if d == depth: dts.append(v.dtype if isinstance(v, ndarray) else (_scalar_dtype(v) or (_rnp.dtype('float64') if isinstance(v, float) else _rnp.dtype('int64'))))
            else:
                for y in v: walk(y, d + 1)
        walk(x, 0)
        dt = _rnp.dtype(dtype) if dtype is not None else _rnp.result_type(*dts)
        snaps = {}
        def leaf(idx):
            v = x
            for k in idx: v = v[k]
            return v
        def fn(i):
            o = i[:depth]
            if not builtins.all(isinstance(k, int) for k in o):
                # symbolic position in a python list of tensors: case analysis
                return _list_lookup(x, depth, o, i[depth:], dt)
            v = leaf(o)
            if isinstance(v, ndarray):
                key = id(v)
                if key not in snaps: snaps[key] = v.snapshot()
                return core.cast(snaps[key](tuple(i[depth:])), dt)
            return core.cast(v, dt)
        # snapshot now (value semantics)
        def presnap(v, d):
            if d == depth:
                if isinstance(v, ndarray): snaps[id(v)] = v.snapshot()
            else:
                for y in v: presnap(y, d + 1)
        presnap(x, 0)
        return ndarray.fresh(tuple(outer_shape) + tuple(inner_shape), fn, dt)
    # scalar
    dt = _rnp.dtype(dtype) if dtype is not None else (_scalar_dtype(x) or (_rnp.dtype('float64') if isinstance(x, (float, SFloat)) else _rnp.dtype('int64')))
    sc = core.cast(x, dt)
    return ndarray.fresh((), lambda i: sc, dt)
v_nd = [0]

def _list_lookup(x, depth, o, rest, dt):
    # all leaves at depth share a shape; build ite over the first symbolic position
    ax = [k for k, v in enumerate(o) if not isinstance(v, int)][0]
    def sub(prefix_vals):
        v = x
        for k in prefix_vals: v = v[k]
        return v
    # only one level of symbolic position is needed by the code base
    lst = x
    for k in o[:ax]: lst = lst[k]
    res = None
    for v in reversed(range(len(lst))):
        item = lst[v]
        for k in o[ax + 1:]: item = item[k]
        val = core.cast(item.at(*rest) if isinstance(item, ndarray) else item, dt)
        res = val if res is None else Ite(mk_bool(zi(o[ax]) == v), val, res)
    return res

def asarray(x, dtype=None):
    if isinstance(x, ndarray) and (dtype is None or _rnp.dtype(dtype) == x.dtype): return x
    return array(x, dtype=dtype, copy=False)
def ascontiguousarray(x, dtype=None): return asarray(x, dtype)
def asfortranarray(x, dtype=None):
    a = asarray(x, dtype)
    return a if a.ndim < 2 else a.transpose().copy().transpose()
def copy(x): return x.copy()
def arange(*a, dtype=None):
    if builtins.all(isinstance(v, (int, _rnp.integer)) for v in a):
        return from_real(_rnp.arange(*a, dtype=dtype))
    if len(a) == 1:
        n = a[0]; dt = _rnp.dtype(dtype or 'int64')
        return ndarray.fresh((n,), lambda i: core.cast(i[0], dt), dt)
    raise NeedsContract('symbolic arange')

class _Random:
    """numpy.random: only `choice(a, size)` over a 1-D array, as an arbitrary (havoc) selection of `size` positions of it"""
    class _Picked:
        def __init__(self, vals): self.vals = vals
        def tolist(self): return list(self.vals)
    def choice(self, a, size=None, **kw):
        if kw or not isinstance(size, int) or not isinstance(a, ndarray) or a.ndim != 1: raise NeedsContract('numpy.random.choice in this form')
        n = a.shape[0]; out = []
        for _ in builtins.range(size):
            k = core.sym_int(core.fresh_name('pick'), 0); core.assume(core.zi(k) < core.zi(n)); out.append(a[k])
        return _Random._Picked(out)
    def __getattr__(self, n): raise NeedsContract('numpy.random.%s (uninterpreted dependency)' % n)
random = _Random()

def isscalar(x): return isinstance(x, (int, float, complex, SInt, SBV, SFloat, SBool, _rnp.generic))
def shape(x): return x.shape
def ndim(x): return x.ndim if isinstance(x, ndarray) else 0

# --------------------------------------------------------------------------- element-wise functions
def _ew(x, f, dt=None):
    if isinstance(x, ndarray): return _unop(x, f, dt)
    return f(x)
def bitwise_xor(a, b): return _binop(a, b, lambda x, y: x ^ y) if (isinstance(a, ndarray) or isinstance(b, ndarray)) else a ^ b
def bitwise_and(a, b): return _binop(a, b, lambda x, y: x & y) if (isinstance(a, ndarray) or isinstance(b, ndarray)) else a & b
def bitwise_or(a, b): return _binop(a, b, lambda x, y: x | y) if (isinstance(a, ndarray) or isinstance(b, ndarray)) else a | b
def right_shift(a, b): return _binop(a, b, lambda x, y: x >> y, shift=True) if (isinstance(a, ndarray) or isinstance(b, ndarray)) else a >> b
def left_shift(a, b): return _binop(a, b, lambda x, y: x << y, shift=True) if (isinstance(a, ndarray) or isinstance(b, ndarray)) else a << b
def add(a, b): return a + b
def subtract(a, b): return a - b
def multiply(a, b): return a * b
def divide(a, b, out=None, where=True, dtype=None):
    r = a / b
    if where is True and out is None: return r
    base = out if out is not None else empty_like(r)
    res = globals()['where'](where, r, base) if False else _where3(where, r, base)
    if out is not None: out._assign(res); return out
    return res
def _where3(c, a, b):
    c = asarray(c); shape = broadcast_shapes(c.shape, a.shape, b.shape)
    fc, fa, fb = c.snapshot(), a.snapshot(), b.snapshot(); ic, ia, ib = _bcast_index(c.shape, shape), _bcast_index(a.shape, shape), _bcast_index(b.shape, shape)
    dt = _rnp.result_type(a.dtype, b.dtype)
    return ndarray.fresh(shape, lambda i: Ite(fc(ic(i)), core.cast(fa(ia(i)), dt), core.cast(fb(ib(i)), dt)), dt)
def _float_dt(x, dtype=None):
    if dtype is not None: return _rnp.dtype(dtype)
    d = x.dtype if isinstance(x, ndarray) else (_scalar_dtype(x) or _rnp.dtype('float64'))
    if d.kind == 'f': return d
    return _rnp.result_type(d, _rnp.float16) if d.itemsize < 2 else (_rnp.dtype('float32') if d.itemsize == 2 else _rnp.dtype('float64'))
def sqrt(x):
    dt = _float_dt(x)
    if dt == _rnp.dtype('float16'): dt = _rnp.dtype('float16')
    return _ew(x, lambda v: core.cast(core.fsqrt(v), dt), dt)
def log(x):
    dt = _float_dt(x); return _ew(x, lambda v: core.cast(core.flog(v), dt), dt)
def square(x, dtype=None):
    if dtype is not None:
        dt = _rnp.dtype(dtype); return _ew(x, lambda v: (lambda c: c * c)(core.cast(v, dt)), dt)
    return _ew(x, lambda v: v * v)
def power(x, p, dtype=None):
    if dtype is not None:
        dt = _rnp.dtype(dtype); return _ew(x, lambda v: core.cast(v, dt) ** p, dt)
    return x ** p
def absolute(x): return _ew(x, lambda v: builtins.abs(v))
abs = absolute
def negative(x): return -x
def isinf(x): return _ew(x, core.isinf, _rnp.dtype('bool'))
def isnan(x): return _ew(x, core.isnan, _rnp.dtype('bool'))
def logical_and(a, b): return _binop(a, b, lambda x, y: core.And(x, y), cmp=True)
def logical_or(a, b): return _binop(a, b, lambda x, y: core.Or(x, y), cmp=True)
def logical_not(a): return _ew(a, core.Not, _rnp.dtype('bool'))
def where(c, a=None, b=None):
    c = asarray(c)
    if a is None:
        # index extraction: one path per outcome of the mask (each element is decided on the current path)
        if c.ndim != 1 or not isinstance(c.shape[0], int): raise NeedsContract('where(cond) on a mask that is not 1-D of concrete length')
        idx = [k for k in range(c.shape[0]) if builtins.bool(c.at(k))]
        return (array(idx, dtype='int64') if idx else zeros((0,), dtype='int64'),)
    sh = [c.shape]
    for v in (a, b):
        if isinstance(v, ndarray): sh.append(v.shape)
    shape = broadcast_shapes(*sh)
    fc = c.snapshot(); ic = _bcast_index(c.shape, shape)
    def side(v):
        if isinstance(v, ndarray):
            fv = v.snapshot(); iv = _bcast_index(v.shape, shape); return lambda i: fv(iv(i))
        return lambda i: v
    fa, fb = side(a), side(b)
    da = a.dtype if isinstance(a, ndarray) else _weak(a, b.dtype if isinstance(b, ndarray) else _rnp.dtype('int64'))
    db = b.dtype if isinstance(b, ndarray) else _weak(b, da)
    dt = _rnp.result_type(da, db)
    return ndarray.fresh(shape, lambda i: Ite(fc(ic(i)), core.cast(fa(i), dt), core.cast(fb(i), dt)), dt)
def maximum(a, b): return _binop(a, b, lambda x, y: Ite(x >= y, x, y))
def minimum(a, b): return _binop(a, b, lambda x, y: Ite(x <= y, x, y))
def real(x): return x
def conjugate(x): return x
def ceil(x):
    if isinstance(x, (int, float)): return _rnp.ceil(x)
    raise NeedsContract('ceil of a symbolic value')
def round(x, decimals=0): raise NeedsContract('round')

# --------------------------------------------------------------------------- structural functions
def swapaxes(a, x, y): return a.swapaxes(x, y)
def moveaxis(a, source, destination):
    a = asarray(a)
    if not isinstance(source, int) or not isinstance(destination, int): raise NeedsContract('moveaxis with several axes')
    src = source % a.ndim; dst = destination % a.ndim
    order = [k for k in range(a.ndim) if k != src]; order.insert(dst, src)
    return a.transpose(tuple(order))
def transpose(a, axes=None): return a.transpose(axes) if axes is not None else a.transpose()
def squeeze(a, axis=None): return a.squeeze(axis)
def reshape(a, shape, order='C'): return asarray(a).reshape(shape, order=order)
def roll(a, shift, axis=None):
    if axis is None:
        # numpy rolls the FLATTENED array and restores the shape: elements cross row boundaries
        a = asarray(a)
        if a.ndim == 1: return roll(a, shift, 0)
        if not isinstance(shift, int) or not builtins.all(isinstance(d, int) for d in a.shape[1:]): raise NeedsContract('roll of the flattened array with symbolic trailing extents')
        M = 1
        for d in a.shape[1:]: M *= d
        n0 = a.shape[0]; tail = tuple(a.shape[1:]); f = a.snapshot()
        def src(i):
            if not builtins.all(isinstance(k, int) for k in i[1:]): raise NeedsContract('roll of the flattened array at a symbolic trailing position')
            r = 0
            for k, d in zip(i[1:], tail): r = r * d + k
            q, r2 = divmod(r - shift, M)
            idx = []
            for d in reversed(tail): idx.append(r2 % d); r2 //= d
            i0 = i[0]
            if isinstance(i0, int) and isinstance(n0, int): row = (i0 + q) % n0
            else:
                z = zi(i0) + q; nz = zi(n0)
                if builtins.abs(q) > 1: raise NeedsContract('roll of the flattened array by more than one row')
                row = mk_int(z3.If(z < 0, z + nz, z3.If(z >= nz, z - nz, z)))
            return f((row,) + tuple(reversed(idx)))
        return ndarray.fresh(a.shape, src, a.dtype)
    axis = axis % a.ndim; n = a.shape[axis]
    if not isinstance(n, int) or not isinstance(shift, int): raise NeedsContract('symbolic roll')
    f = a.snapshot()
    return ndarray.fresh(a.shape, lambda i: f(i[:axis] + (((i[axis] - shift) % n) if isinstance(i[axis], int) else mk_int(zi((i[axis] - shift) % n)),) + i[axis + 1:]), a.dtype)
def flip(a, axis=None):
    if axis is None: raise NeedsContract('flip without axis')
    axis = axis % a.ndim; n = a.shape[axis]; f = a.snapshot()
    return ndarray.fresh(a.shape, lambda i: f(i[:axis] + (n - 1 - i[axis],) + i[axis + 1:]), a.dtype)
def searchsorted(a, v, side='left'):
    """numpy's binary search, executed on a concrete-length 1-D `a` for every (possibly symbolic) v: lo, hi = 0, n; while lo < hi: mid = (lo + hi) // 2;
    a[mid] < v (left) / a[mid] <= v (right) ? lo = mid + 1 : hi = mid.  On an unsorted `a` this is what numpy computes as well (its result is then
    not an insertion point, which is the point of modelling the search rather than its specification)."""
    a = asarray(a)
    if a.ndim != 1 or not isinstance(a.shape[0], int): raise NeedsContract('searchsorted on an array of symbolic length')
    n = a.shape[0]; fa = a.snapshot()
    def search(x, lo, hi):
        if lo >= hi: return lo
        mid = (lo + hi) // 2; e = fa((mid,))
        c = (e < x) if side == 'left' else (e <= x)
        if isinstance(c, (bool, _rnp.bool_)): return search(x, mid + 1, hi) if c else search(x, lo, mid)
        return Ite(c, search(x, mid + 1, hi), search(x, lo, mid))
    if isinstance(v, ndarray):
        fv = v.snapshot()
        return ndarray.fresh(v.shape, lambda i: core.cast(search(fv(i), 0, n), 'int64'), 'int64')
    return search(v, 0, n)
def eye(N, M=None, k=0, dtype=float):
    M = N if M is None else M
    if not isinstance(N, int) or not isinstance(M, int): raise NeedsContract('eye of a symbolic size')
    return from_real(_rnp.eye(N, M, k, dtype=_undt(dtype)))
identity = lambda n, dtype=float: eye(n, dtype=dtype)
def tensordot(a, b, axes=2):
    a, b = asarray(a), asarray(b)
    if isinstance(axes, int): raise NeedsContract('tensordot with an integer axes count')
    ia, ib = axes
    if isinstance(ia, (tuple, list)):
        if len(ia) != 1: raise NeedsContract('tensordot over several axes')
        ia, ib = ia[0], ib[0]
    ia %= a.ndim; ib %= b.ndim; n = a.shape[ia]
    dt = _rnp.result_type(a.dtype, b.dtype); fa, fb = a.snapshot(), b.snapshot()
    sha = tuple(d for k_, d in enumerate(a.shape) if k_ != ia); shb = tuple(d for k_, d in enumerate(b.shape) if k_ != ib); na = len(sha)
    def fn(i):
        i1, i2 = tuple(i[:na]), tuple(i[na:])
        term = lambda k_: core.cast(fa(i1[:ia] + (k_,) + i1[ia:]), dt) * core.cast(fb(i2[:ib] + (k_,) + i2[ib:]), dt)
        if isinstance(n, int):
            acc = None
            for k_ in range(n): acc = term(k_) if acc is None else acc + term(k_)
            return acc if acc is not None else core.cast(0, dt)
        if SUM_HOOK[0] is None: raise NeedsContract('tensordot over a symbolic axis')
        return SUM_HOOK[0](term, n, dt)
    return ndarray.fresh(sha + shb, fn, dt)
def stack(arrs, axis=0):
    arrs = [asarray(a) for a in arrs]
    nd = arrs[0].ndim + 1; axis = axis % nd
    parts = [a[(slice(None),) * axis + (None,)] for a in arrs]
    return concatenate(parts, axis=axis)
def concatenate(arrs, axis=0):
    arrs = [asarray(a) for a in arrs]; axis = axis % arrs[0].ndim
    dt = _rnp.result_type(*[a.dtype for a in arrs])
    offs = [0]
    for a in arrs: offs.append(offs[-1] + a.shape[axis])
    snaps = [a.snapshot() for a in arrs]
    shape = list(arrs[0].shape); shape[axis] = offs[-1]
    def fn(i):
        k = i[axis]
        if isinstance(k, int) and builtins.all(isinstance(o, int) for o in offs):
            for j in range(len(arrs)):
                if offs[j] <= k < offs[j + 1]: return core.cast(snaps[j]((i[:axis] + (k - offs[j],) + i[axis + 1:])), dt)
            raise IndexError('concatenate index out of range')
        res = None
        for j in range(len(arrs)):                       # piece j holds positions [offs[j], offs[j+1])
            val = core.cast(snaps[j](i[:axis] + (k - offs[j],) + i[axis + 1:]), dt)
            res = val if res is None else Ite(mk_bool(zi(k) >= zi(offs[j])), val, res)
        return res
    return ndarray.fresh(shape, fn, dt)
def hstack(arrs):
    arrs = [asarray(a) for a in arrs]
    return concatenate(arrs, axis=0 if arrs[0].ndim == 1 else 1)
def vstack(arrs):
    arrs = [asarray(a) for a in arrs]
    arrs = [a[None, :] if a.ndim == 1 else a for a in arrs]
    return concatenate(arrs, axis=0)
def append(a, b, axis=None):
    if axis is None: raise NeedsContract('append without axis')
    return concatenate([a, b], axis=axis)
def tile(a, reps):
    a = asarray(a); reps = tuple(reps) if isinstance(reps, (tuple, list)) else (reps,)
    d = builtins.max(len(reps), a.ndim); reps = (1,) * (d - len(reps)) + reps; ash = (1,) * (d - a.ndim) + tuple(a.shape)
    if not builtins.all(isinstance(x, int) for x in ash): raise NeedsContract('tile of a symbolic shape')
    f = a.snapshot(); nd = a.ndim
    return ndarray.fresh(tuple(r * n for r, n in zip(reps, ash)), lambda i: f(tuple(k % n if isinstance(k, int) else k for k, n in zip(i, ash))[d - nd:]) if builtins.all(isinstance(k, int) or n == 1 for k, n in zip(i, ash)) else _tile_sym(f, i, ash, d - nd), a.dtype)
def _tile_sym(f, i, ash, skip):
    # a symbolic position along a tiled axis: only axes of source extent 1 (pure repetition) are supported
    out = []
    for k, n in zip(i, ash):
        if isinstance(k, int): out.append(k % n)
        elif n == 1: out.append(0)
        else: raise NeedsContract('symbolic position in a tiled axis')
    return f(tuple(out)[skip:])
def take(a, idx, axis=None):
    if axis is not None: raise NeedsContract('take with axis')
    flat = a.reshape(-1) if a.ndim != 1 else a
    return flat[idx]
def diff(a, axis=-1):
    a = asarray(a); axis = axis % a.ndim
    k1 = [slice(None)] * a.ndim; k0 = [slice(None)] * a.ndim
    k1[axis] = slice(1, None); k0[axis] = slice(None, -1)
    return a[tuple(k1)] - a[tuple(k0)]
def outer(a, b):
    fa, fb = a.snapshot(), b.snapshot(); dt = _rnp.result_type(a.dtype, b.dtype)
    return ndarray.fresh((a.shape[0], b.shape[0]), lambda i: core.cast(fa((i[0],)) * fb((i[1],)), dt), dt)
def array_equal(a, b):
    if not isinstance(a, ndarray) and not isinstance(b, ndarray):      # concrete python objects (ranges, lists, Ellipsis, None): numpy's own answer
        try: return builtins.bool(_rnp.array_equal(a, b))
        except Exception: return False
    a, b = asarray(a), asarray(b)
    if a.ndim != b.ndim: return False
    for x, y in zip(a.shape, b.shape):
        if not _dims_equal(x, y): return False
    return all(a == b)
def unpackbits(a, axis=None):
    if a.dtype != _rnp.dtype('uint8'): raise TypeError('Expected an input array of unsigned byte data type')
    if axis is None: raise NeedsContract('unpackbits without axis')
    axis = axis % a.ndim; f = a.snapshot(); shape = list(a.shape); shape[axis] = shape[axis] * 8
    def fn(i):
        k = i[axis]
        byte = f(i[:axis] + (k // 8,) + i[axis + 1:])
        bit = 7 - (k % 8)
        if isinstance(bit, int): return (byte >> bit) & 1
        return core.cast((byte >> core.cast(bit, 'uint8')) & 1, 'uint8')
    return ndarray.fresh(shape, fn, 'uint8')

# --------------------------------------------------------------------------- reductions
def _axis_list(a, axis):
    if axis is None: return list(range(a.ndim))
    if isinstance(axis, (tuple, list)): return [x % a.ndim for x in axis]
    return [axis % a.ndim]

SUM_HOOK = [None]    # callable(f: index->scalar, n (symbolic extent), dtype) -> scalar : sums over a symbolic axis

def _fold(a, axes, init, op, dt, keepdims=False, sum_like=False):
    f = a.snapshot(); shape_in = a.shape
    out_axes = [ax for ax in range(a.ndim) if ax not in axes]
    shape = [shape_in[ax] for ax in out_axes] if not keepdims else [1 if ax in axes else shape_in[ax] for ax in range(a.ndim)]
    def fn(i):
        if keepdims: base = list(i)
        else:
            base = [None] * a.ndim
            for ax, v in zip(out_axes, i): base[ax] = v
        def rec(k, cur):
            if k == len(axes):
                return core.cast(f(tuple(cur)), dt) if dt is not None else f(tuple(cur))
            ax = axes[k]; n = shape_in[ax]
            if isinstance(n, int):
                acc = None
                for v in range(n):
                    cur2 = list(cur); cur2[ax] = v
                    t = rec(k + 1, cur2)
                    acc = t if acc is None else op(acc, t)
                return acc if acc is not None else init
            if not sum_like or SUM_HOOK[0] is None: raise NeedsContract('reduction over a symbolic axis')
            def body(r):
                cur2 = list(cur); cur2[ax] = r
                return rec(k + 1, cur2)
            sres = SUM_HOOK[0](body, n, dt)
            if dt is not None and _rnp.dtype(dt).kind in 'iu' and isinstance(sres, SFloat): sres = core.int_from_real_sum(sres.v, dt)
            return sres
        return rec(0, base)
    r = ndarray.fresh(shape, fn, dt if dt is not None else a.dtype)
    if not shape: return r.item()
    return r

def _sum_dtype(dt, dtype):
    if dtype is not None: return _rnp.dtype(dtype)
    if dt.kind == 'b': return _rnp.dtype('int64')
    if dt.kind == 'i' and dt.itemsize < 8: return _rnp.dtype('int64')
    if dt.kind == 'u' and dt.itemsize < 8: return _rnp.dtype('uint64')
    return dt
def sum(a, axis=None, dtype=None, keepdims=False):
    a = asarray(a); dt = _sum_dtype(a.dtype, dtype)
    return _fold(a, _axis_list(a, axis), core.cast(0, dt), lambda x, y: x + y, dt, keepdims, sum_like=True)
nansum_real = None
def count_nonzero(a, axis=None):
    a = asarray(a); dt = _rnp.dtype('int64')
    nz = _unop(a, lambda v: core.cast(core.cast(v, 'bool'), dt), dt)
    return _fold(nz, _axis_list(a, axis), core.cast(0, dt), lambda x, y: x + y, dt, False, sum_like=True)
def mean(a, axis=None, dtype=None):
    a = asarray(a); axes = _axis_list(a, axis)
    dt = _rnp.dtype(dtype) if dtype is not None else (a.dtype if a.dtype.kind == 'f' else _rnp.dtype('float64'))
    s = _fold(a, axes, core.cast(0, dt), lambda x, y: x + y, dt, False, sum_like=True)
    n = 1
    for ax in axes: n = n * a.shape[ax]
    return s / n
def nanmean(a, axis=None, dtype=None):
    """inputs are finite reals in the model (no NaN flags on symbolic inputs): nanmean == mean"""
    return mean(a, axis=axis, dtype=dtype)
def nanstd(a, axis=None, dtype=None):
    a = asarray(a); dt = _rnp.dtype(dtype) if dtype is not None else (a.dtype if a.dtype.kind == 'f' else _rnp.dtype('float64'))
    m = mean(a, axis=axis, dtype=dt)
    fa = a.snapshot(); axes = _axis_list(a, axis)
    if len(axes) != 1: raise NeedsContract('nanstd over several axes')
    ax = axes[0]
    fm = m.snapshot() if isinstance(m, ndarray) else None
    dev = ndarray.fresh(a.shape, lambda i: (lambda d: d * d)(core.cast(fa(i), dt) - (fm(tuple(i[:ax]) + tuple(i[ax + 1:])) if fm is not None else m)), dt)
    return sqrt(mean(dev, axis=ax, dtype=dt))
std = nanstd
def max(a, axis=None):
    a = asarray(a); return _fold(a, _axis_list(a, axis), None, lambda x, y: Ite(x >= y, x, y), None)
def min(a, axis=None):
    a = asarray(a); return _fold(a, _axis_list(a, axis), None, lambda x, y: Ite(x <= y, x, y), None)
amax = max; amin = min
def _nan_aware(a, pick):
    # nanmax / nanmin on floats: NaN entries are ignored (all-NaN slice gives NaN)
    def op(x, y):
        if a.dtype.kind != 'f': return pick(x, y)
        xn, yn = core.isnan(x), core.isnan(y)
        return Ite(xn, y, Ite(yn, x, pick(x, y)))
    return op
def nanmax(a, axis=None):
    a = asarray(a); return _fold(a, _axis_list(a, axis), None, _nan_aware(a, lambda x, y: Ite(x >= y, x, y)), None)
def nanmin(a, axis=None):
    a = asarray(a); return _fold(a, _axis_list(a, axis), None, _nan_aware(a, lambda x, y: Ite(x <= y, x, y)), None)
def nansum(a, axis=None):
    a = asarray(a)
    if a.dtype.kind != 'f': return sum(a, axis=axis)
    z = _zero(a.dtype)
    cleaned = _unop(a, lambda v: Ite(core.isnan(v), z, v))
    return _fold(cleaned, _axis_list(a, axis), z, lambda x, y: x + y, a.dtype, False, sum_like=True)
def all(a, axis=None):
    a = asarray(a)
    r = _fold(_unop(a, lambda v: core.cast(v, 'bool'), _rnp.dtype('bool')), _axis_list(a, axis), True, lambda x, y: core.And(x, y), None)
    return r
def any(a, axis=None):
    a = asarray(a)
    return _fold(_unop(a, lambda v: core.cast(v, 'bool'), _rnp.dtype('bool')), _axis_list(a, axis), False, lambda x, y: core.Or(x, y), None)
def argmin(a):
    vals = [a[i] for i in range(len(a))] if not isinstance(a, ndarray) else [a.at(i) for i in range(a.shape[0])]
    best = 0; bv = vals[0]
    res = 0
    for i in range(1, len(vals)):
        c = vals[i] < bv
        res = Ite(c, i, res) if core.is_sym(c) or core.is_sym(res) else (i if c else res)
        bv = Ite(c, vals[i], bv) if core.is_sym(c) or core.is_sym(bv) else (vals[i] if c else bv)
    return res
def cumsum(a, axis=None):
    a = asarray(a)
    if axis is None: raise NeedsContract('cumsum without axis')
    axis = axis % a.ndim; f = a.snapshot(); dt = _sum_dtype(a.dtype, None)
    def fn(i):
        k = i[axis]
        if isinstance(k, int):
            acc = None
            for v in range(k + 1):
                t = core.cast(f(i[:axis] + (v,) + i[axis + 1:]), dt); acc = t if acc is None else acc + t
            return acc
        if SUM_HOOK[0] is None: raise NeedsContract('cumsum at a symbolic position')
        return SUM_HOOK[0](lambda r: core.cast(f(i[:axis] + (r,) + i[axis + 1:]), dt), k + 1, dt)
    return ndarray.fresh(a.shape, fn, dt)

def dot(a, b):
    a, b = asarray(a), asarray(b)
    if a.ndim == 1 and b.ndim == 1:
        return sum(a * b)
    if a.ndim == 2 and b.ndim == 2: return matmul(a, b)
    if a.ndim == 2 and b.ndim == 1: return matmul(a, b)
    if a.ndim == 1 and b.ndim == 2: return matmul(a, b)
    raise NeedsContract('dot of %dD and %dD' % (a.ndim, b.ndim))
def matmul(a, b):
    a, b = asarray(a), asarray(b)
    dt = _rnp.result_type(a.dtype, b.dtype)
    fa, fb = a.snapshot(), b.snapshot()
    if a.ndim == 1 and b.ndim == 1:
        return sum(a * b)
    A = a if a.ndim == 2 else a[None, :]; B = b if b.ndim == 2 else b[:, None]
    n = A.shape[1]
    fa, fb = A.snapshot(), B.snapshot()
    def fn(i):
        if isinstance(n, int):
            acc = None
            for k in range(n):
                t = core.cast(fa((i[0], k)) * fb((k, i[1])), dt); acc = t if acc is None else acc + t
            return acc if acc is not None else core.cast(0, dt)
        if SUM_HOOK[0] is None: raise NeedsContract('matmul over a symbolic axis')
        return SUM_HOOK[0](lambda r: core.cast(fa((i[0], r)) * fb((r, i[1])), dt), n, dt)
    r = ndarray.fresh((A.shape[0], B.shape[1]), fn, dt)
    if a.ndim == 1: r = r[0]
    elif b.ndim == 1: r = r[:, 0]
    return r

_pinv_ctr = itertools.count()
class _Linalg:
    @staticmethod
    def pinv(a):
        """trusted dependency: an uninterpreted matrix of the same shape (only determinism is assumed)"""
        k = next(_pinv_ctr); f = z3.Function('PINV%d' % k, z3.IntSort(), z3.IntSort(), z3.RealSort())
        t = ndarray.fresh(a.shape, lambda i: SFloat(f(zi(i[0]), zi(i[1])), 'float64'), 'float64'); t.pinv_of = a; t.uf = f
        return t
linalg = _Linalg()
class _FFT:
    def __getattr__(self, n): raise NeedsContract('numpy.fft.%s (uninterpreted dependency)' % n)
fft = _FFT()
class _RClass:
    def __getitem__(self, key):
        if not isinstance(key, tuple): key = (key,)
        parts = []
        for k in key:
            if isinstance(k, ndarray): parts.append(k if k.ndim else k.reshape(1))
            else: parts.append(array([k]))
        return concatenate(parts, axis=0)
r_ = _RClass()
def isclose(a, b, rtol=1e-05, atol=1e-08, equal_nan=False):
    return _binop(asarray(a), asarray(b), lambda x, y: (abs(x - y) <= atol + rtol * abs(y)), cmp=True)
def allclose(a, b, rtol=1e-05, atol=1e-08, equal_nan=False): return all(isclose(a, b, rtol, atol))
def __getattr__(name):
    # PEP 562: anything of numpy that is not modelled is an engine limit (undecided), never a verdict about the code
    if name.startswith('__'): raise AttributeError(name)
    raise NeedsContract('numpy.%s is not modelled by pyvc.symnp' % name)
def linspace(start, stop, num=50, endpoint=True, dtype=None):
    if not isinstance(num, int): raise NeedsContract('linspace with a symbolic number of points')
    a, b = core.to_float(start), core.to_float(stop)
    dt = _rnp.dtype(dtype) if dtype is not None else _rnp.dtype('float64')
    div = (num - 1) if endpoint else num
    vals = [core.cast(a + (b - a) * k / div, dt) if div else core.cast(a, dt) for k in range(num)]
    return ndarray.fresh((num,), lambda i: vals[i[0]] if isinstance(i[0], int) else _pick_list(vals, i[0]), dt)
def _pick_list(vals, k):
    res = vals[0]
    for j in range(1, len(vals)): res = Ite(mk_bool(zi(k) == j), vals[j], res)
    return res
