"""pyvc.loops -- loop contracts (T3).  `for x in E:` runs through __pyvc_loop__(E, id); with a LoopCut registered for id the
loop is verified by the classical cut:   assert Inv at entry (establish);  havoc, assume Inv(k) and k < n, run the body ONCE
for the generic iteration k, assert Inv(k+1) (preserve);  havoc, assume Inv(n), continue after the loop (exit).
All three phases happen in one execution; path-condition facts about the generic iteration are dropped at exit.
A `break`/`return` inside the generic iteration simply leaves through Python's own control flow (exit by break at iteration k)."""
import z3, itertools
from . import core
from .core import SInt, mk_int

_ctr = itertools.count()

def oblige(name, kind, goal, meta=None):
    """record an obligation on the current path (goal: z3 Bool or python bool) with the current path condition"""
    p = core.path()
    g = core.zb(goal) if not isinstance(goal, bool) else z3.BoolVal(goal)
    p.obligations.append(dict(name=name, kind=kind, pc=list(p.pc), goal=g, meta=meta or {}))

class LoopCut:
    def __init__(self, name, count, element, establish, havoc, preserve, after_exit=None):
        """count(it) -> n ; element(it, k) -> loop target value ; establish() -> records Inv(0) obligations on the entry state ;
        havoc(k) -> overwrite the loop-modified state with an arbitrary state satisfying Inv(k) (assume the side facts) ;
        preserve(k) -> records Inv(k+1) obligations on the state after the body"""
        self.name = name; self.count = count; self.element = element; self.establish = establish; self.havoc = havoc; self.preserve = preserve
        self.after_exit = after_exit; self.entered = 0
    def iterate(self, it):
        self.entered += 1
        n = self.count(it)
        self.establish()
        p = core.path()
        positive = (n > 0) if isinstance(n, int) else bool(n > 0)          # forks: the zero-trip path keeps the entry state
        if not positive: return
        mark = len(p.pc)
        k = SInt(z3.Int('%s!k%d' % (self.name, next(_ctr))))
        core.assume(k.z >= 0); core.assume(k.z < core.zi(n))
        self.havoc(k)
        yield self.element(it, k)
        self.preserve(k)
        del p.pc[mark:]                                                    # facts about the generic iteration end here
        self.havoc(n)
        if self.after_exit: self.after_exit()
    def iterate_while(self, cond):
        self.entered += 1
        self.establish()
        p = core.path(); mark = len(p.pc)
        k = SInt(z3.Int('%s!k%d' % (self.name, next(_ctr)))); core.assume(k.z >= 0)
        self.havoc(k)
        if bool(cond()):                                                   # forks: generic iteration / exit
            yield None
            self.preserve(k)
            raise core.Abort()                                             # the generic iteration ends here; the exit is the other fork
        del p.pc[mark:]
        # exit path: state is Inv(k) and the guard is false (the decision above stays in the path condition through `taken`)

def discharge_path_obligations(path, rep, function, solve_mod, timeout, on_sat=None, extra=()):
    """discharge what oblige() recorded on this path"""
    for ob in path.obligations:
        res = solve_mod.discharge(ob['pc'], ob['goal'], extra=extra, timeout_ms=timeout)
        rep.obligation(ob['name'], function, ob['kind'], res, sample=ob['meta'].get('text'))
        if res['result'] == 'sat' and on_sat is not None: on_sat(ob, res)

class LoopCutAt:
    """loop cut for a loop with a CONCRETE iteration list, one exploration per iteration index k (complete induction by case split over k):
    establish Inv(0) on the entry state; set the state to Inv(k); run the body on element k; assert Inv(k+1); set the state to Inv(n); continue.
    The caller runs it for every k in range(n) (and with k=None for a zero-iteration check of establish + exit only)."""
    def __init__(self, name, k, establish, havoc, preserve):
        self.name = name; self.k = k; self.establish = establish; self.havoc = havoc; self.preserve = preserve; self.entered = 0; self.n = None
    def iterate(self, it):
        self.entered += 1
        items = list(it); self.n = len(items)
        self.establish()
        if self.k is not None and self.k < len(items):
            self.havoc(self.k)
            yield items[self.k]
            self.preserve(self.k)
        self.havoc(len(items))
