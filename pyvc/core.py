"""pyvc.core -- symbolic scalars and path exploration by instrumented re-execution.

CPython is the host interpreter; only values are symbolic.  A branch on a symbolic
boolean (`SBool.__bool__`) is a decision point: the run carries a decision prefix,
both polarities are checked for feasibility against the path condition, one is taken
and the other queued; the function under proof is re-executed for every queued prefix.
"""
import z3, itertools, numpy as _rnp

class Abort(Exception):
    """the current path is infeasible"""
class Undecided(Exception):
    """engine limit (never a verdict)"""
class NeedsContract(Undecided):
    pass

# --------------------------------------------------------------------------- path state
class Path:
    def __init__(self, prefix=()):
        self.prefix = list(prefix); self.pos = 0; self.pc = []; self.taken = []
        self.obligations = []      # (name, kind, pc snapshot, goal, meta)
        self.notes = []
        self.scopes = []

class Explorer:
    """depth-first exploration of decision prefixes"""
    def __init__(self, max_paths=4096, feas_timeout_ms=int(__import__('os').environ.get('PYVC_FEAS_MS', '600'))):
        self.work = []; self.path = None; self.max_paths = max_paths; self.npaths = 0
        self.feas_timeout_ms = feas_timeout_ms
        self.feas_cache = {}

CUR = Explorer()

def path():
    if CUR.path is None:
        raise RuntimeError('symbolic branch outside of an exploration')
    return CUR.path

def assume(c):
    c = zb(c)
    if z3.is_true(c): return
    path().pc.append(c)

_FORCE_UNKNOWN = bool(__import__('os').environ.get('PYVC_FEAS_FORCE_UNKNOWN'))
def _feasible(extra):
    p = path()
    s = z3.Solver(); s.set('timeout', CUR.feas_timeout_ms)
    s.add(*p.pc); s.add(extra)
    r = s.check() if not _FORCE_UNKNOWN else z3.unknown      # PYVC_FEAS_FORCE_UNKNOWN=1: testing knob, every feasibility check 'times out'
    if r == z3.unknown: p.uncertain = True      # taken as feasible; an exceptional outcome on such a path is re-checked before it is reported (explore)
    return r != z3.unsat

def _recheck_feasible(p, timeout_ms=30000):
    """sat / unsat / unknown for the whole path condition, with a real budget"""
    s = z3.Solver(); s.set('timeout', timeout_ms); s.add(*p.pc)
    return str(s.check())

def decide(c):
    """branch on the z3 boolean c; returns a Python bool"""
    c = z3.simplify(c)
    if z3.is_true(c): return True
    if z3.is_false(c): return False
    st = static_truth(c)
    if st is not None: return st
    p = path()
    if p.pos < len(p.prefix):
        v = p.prefix[p.pos]
    else:
        t, f = _feasible(c), _feasible(z3.Not(c))
        if t and f:
            CUR.work.append(p.taken + [False]); v = True
            if getattr(p, 'uncertain', False): CUR.unc.add(tuple(p.taken + [False]))      # the queued alternative inherits the uncertainty
        elif t: v = True
        elif f: v = False
        else: raise Abort()
    p.pos += 1; p.taken.append(v); p.pc.append(c if v else z3.Not(c))
    return v

def explore(fn, max_paths=None):
    """run fn() once per feasible path; fn returns an outcome object (or raises).
    yields (path, outcome, exception)"""
    CUR.work = [[]]; CUR.npaths = 0; CUR.unc = set()
    cap = max_paths or CUR.max_paths
    results = []
    while CUR.work:
        if CUR.npaths >= cap:
            raise Undecided('path cap %d reached' % cap)
        CUR.path = Path(CUR.work.pop())
        if CUR.unc and any(tuple(CUR.path.prefix[:k]) in CUR.unc for k in range(1, len(CUR.path.prefix) + 1)): CUR.path.uncertain = True
        try:
            out = fn()
            if getattr(CUR.path, 'uncertain', False):
                r = _recheck_feasible(CUR.path)
                if r == 'unsat': continue
                if r != 'sat': raise Undecided('feasibility of a path could not be decided')
            results.append((CUR.path, out, None))
        except Abort:
            continue
        except Undecided:
            # an engine limit met on a path that was only entered because a feasibility query timed out: drop the path if it does not exist
            if getattr(CUR.path, 'uncertain', False) and _recheck_feasible(CUR.path) == 'unsat': continue
            raise
        except Exception as e:       # an exception escaping the function under proof is an outcome
            import os, traceback
            if os.environ.get('PYVC_DEBUG'): traceback.print_exc()
            if getattr(CUR.path, 'uncertain', False):
                # some branch decision on this path was taken on a solver time-out: make sure the path exists before calling the exception an outcome
                r = _recheck_feasible(CUR.path)
                if r == 'unsat': continue
                if r != 'sat': raise Undecided('feasibility of a path that ends in %s could not be decided' % type(e).__name__)
            results.append((CUR.path, None, e))
        finally:
            CUR.npaths += 1
    CUR.path = None
    return results

# --------------------------------------------------------------------------- helpers
_fresh = itertools.count()
_KEEP = []
def fresh_name(base): return '%s!%d' % (base, next(_fresh))

def zi(o):
    """to z3 Int"""
    if isinstance(o, SInt): return o.z
    if isinstance(o, bool): return z3.IntVal(int(o))
    if isinstance(o, (int, _rnp.integer)): return z3.IntVal(int(o))
    if isinstance(o, SBV): return o.as_int().z
    if isinstance(o, SBool): return z3.If(o.z, z3.IntVal(1), z3.IntVal(0))
    if z3.is_expr(o): return o
    raise TypeError('zi: %r' % (o,))

def zb(o):
    if isinstance(o, SBool): return o.z
    if isinstance(o, (bool, _rnp.bool_)): return z3.BoolVal(bool(o))
    if z3.is_expr(o): return o
    raise TypeError('zb: %r' % (o,))

def is_sym(o): return isinstance(o, (SInt, SBool, SBV, SFloat))

def conc(z):
    """concrete python value of a z3 numeral or None"""
    z = z3.simplify(z) if z3.is_expr(z) else z
    if z3.is_int_value(z): return z.as_long()
    if z3.is_true(z): return True
    if z3.is_false(z): return False
    if z3.is_bv_value(z): return z.as_long()
    if z3.is_rational_value(z):
        from fractions import Fraction
        return Fraction(z.numerator_as_long(), z.denominator_as_long())
    return None

# --------------------------------------------------------------------------- booleans
class SBool:
    __slots__ = ('z',)
    dtype = _rnp.dtype('bool')
    def __init__(self, z): self.z = z
    def __bool__(self): return decide(self.z)
    def __and__(self, o): return SBool(z3.And(self.z, zb(o)))
    __rand__ = __and__
    def __or__(self, o): return SBool(z3.Or(self.z, zb(o)))
    __ror__ = __or__
    def __xor__(self, o): return SBool(z3.Xor(self.z, zb(o)))
    def __invert__(self): return SBool(z3.Not(self.z))
    def __eq__(self, o): return SBool(self.z == zb(o))
    def __ne__(self, o): return SBool(self.z != zb(o))
    __hash__ = None
    # arithmetic on booleans (numpy bool_ behaves as 0/1 in arithmetic with other types)
    def _as(self, dt): return cast(self, dt)
    def __add__(self, o): return _arith(self, o, '+')
    __radd__ = __add__
    def __mul__(self, o): return _arith(self, o, '*')
    __rmul__ = __mul__
    def __sub__(self, o): return _arith(self, o, '-')
    def __rsub__(self, o): return _arith(o, self, '-')
    def __lshift__(self, o): return _arith(self, o, '<<')
    def __rshift__(self, o): return _arith(self, o, '>>')
    def __repr__(self): return 'SBool(%s)' % self.z

def mk_bool(z):
    z = z3.simplify(z) if z3.is_expr(z) else z
    if z3.is_true(z): return True
    if z3.is_false(z): return False
    return SBool(z)

def And(*a):
    a = [x for x in a if x is not True]
    if any(x is False for x in a): return False
    if not a: return True
    return mk_bool(z3.And(*[zb(x) for x in a]))
def Or(*a):
    a = [x for x in a if x is not False]
    if any(x is True for x in a): return True
    if not a: return False
    return mk_bool(z3.Or(*[zb(x) for x in a]))
def Not(a):
    if isinstance(a, (bool, _rnp.bool_)): return not a
    return mk_bool(z3.Not(zb(a)))
def Implies(a, b): return Or(Not(a), b)
def Ite(c, a, b):
    """scalar if-then-else on any scalar kind"""
    if isinstance(c, (bool, _rnp.bool_)): return a if c else b
    cz = zb(c)
    if isinstance(a, SFloat) or isinstance(b, SFloat):
        a, b = to_float(a), to_float(b)
        dt = a.dtype if a.dtype.itemsize >= b.dtype.itemsize else b.dtype
        # a branch that is the constant NaN carries no value: keep the other branch's value term free of the case split
        if a.nan is True: return SFloat(b.v, dt, mk_flag(z3.Or(cz, zb_flag(b.nan))), mk_flag(z3.And(z3.Not(cz), zb_flag(b.pinf))), mk_flag(z3.And(z3.Not(cz), zb_flag(b.ninf))))
        if b.nan is True: return SFloat(a.v, dt, mk_flag(z3.Or(z3.Not(cz), zb_flag(a.nan))), mk_flag(z3.And(cz, zb_flag(a.pinf))), mk_flag(z3.And(cz, zb_flag(a.ninf))))
        return SFloat(z3.If(cz, a.v, b.v), dt, _flag_ite(cz, a.nan, b.nan), _flag_ite(cz, a.pinf, b.pinf), _flag_ite(cz, a.ninf, b.ninf))
    if isinstance(a, SBV) or isinstance(b, SBV):
        dt = a.dtype if isinstance(a, SBV) else b.dtype
        a, b = cast(a, dt), cast(b, dt)
        iv = z3.If(cz, a.ival, b.ival) if (a.ival is not None and b.ival is not None) else None
        return SBV(z3.If(cz, a.z, b.z), dt, iv)
    if isinstance(a, (SBool, bool, _rnp.bool_)) and isinstance(b, (SBool, bool, _rnp.bool_)):
        return mk_bool(z3.If(cz, zb(a), zb(b)))
    return SInt(z3.If(cz, zi(a), zi(b)))

def zb_flag(f): return z3.BoolVal(f) if isinstance(f, bool) else f
def _flag_ite(c, a, b):
    if a is False and b is False: return False
    return mk_flag(z3.If(c, zb(a), zb(b)))
def mk_flag(z):
    z = z3.simplify(z)
    if z3.is_false(z): return False
    if z3.is_true(z): return True
    return z

# --------------------------------------------------------------------------- mathematical integers
class SInt:
    __slots__ = ('z',)
    def __init__(self, z): self.z = z
    def __index__(self):
        c = conc(self.z)
        if c is not None: return c
        # finite case split over the feasible values (complete: each value is a binary decision)
        n = 0
        while True:
            s = z3.Solver(); s.set('timeout', 5000); s.add(*path().pc)
            if s.check() != z3.sat: raise Abort()
            v = s.model().eval(self.z, model_completion=True).as_long()
            n += 1
            if n > 300: raise NeedsContract('symbolic integer in structural position is not bounded: %s' % self.z)
            if decide(self.z == v): return v
    def __int__(self): return self.__index__()
    def _b(self, o, f):
        if isinstance(o, (SFloat, float)): return NotImplemented
        if isinstance(o, SBV): return NotImplemented
        try: return mk_int(f(self.z, zi(o)))
        except TypeError: return NotImplemented
    def _rb(self, o, f):
        if isinstance(o, (SFloat, float)): return NotImplemented
        try: return mk_int(f(zi(o), self.z))
        except TypeError: return NotImplemented
    def __add__(self, o): return self._b(o, lambda a, b: a + b)
    def __radd__(self, o): return self._rb(o, lambda a, b: a + b)
    def __sub__(self, o): return self._b(o, lambda a, b: a - b)
    def __rsub__(self, o): return self._rb(o, lambda a, b: a - b)
    def __mul__(self, o): return self._b(o, lambda a, b: a * b)
    def __rmul__(self, o): return self._rb(o, lambda a, b: a * b)
    def __floordiv__(self, o): return self._b(o, _floordiv)
    def __rfloordiv__(self, o): return self._rb(o, _floordiv)
    def __mod__(self, o): return self._b(o, _pymod)
    def __rmod__(self, o): return self._rb(o, _pymod)
    def __neg__(self): return mk_int(-self.z)
    def __pos__(self): return self
    def __abs__(self): return mk_int(z3.If(self.z >= 0, self.z, -self.z))
    def __truediv__(self, o):
        return to_float(self) / to_float(o)
    def __rtruediv__(self, o):
        return to_float(o) / to_float(self)
    def __pow__(self, o):
        if isinstance(o, int) and o >= 0:
            r = z3.IntVal(1)
            for _ in range(o): r = r * self.z
            return mk_int(r)
        return NotImplemented
    def _c(self, o, f):
        if isinstance(o, (SFloat, float)): return f(to_float(self), o)
        if o is None or isinstance(o, (str, tuple, list)): return NotImplemented
        return mk_bool(f(self.z, zi(o)))
    def __lt__(self, o): return self._c(o, lambda a, b: a < b)
    def __le__(self, o): return self._c(o, lambda a, b: a <= b)
    def __gt__(self, o): return self._c(o, lambda a, b: a > b)
    def __ge__(self, o): return self._c(o, lambda a, b: a >= b)
    def __eq__(self, o):
        if o is None or isinstance(o, (str, tuple, list, type(Ellipsis))): return False
        return self._c(o, lambda a, b: a == b)
    def __ne__(self, o):
        if o is None or isinstance(o, (str, tuple, list, type(Ellipsis))): return True
        return self._c(o, lambda a, b: a != b)
    def __hash__(self): return hash(('SInt', self.z.get_id()))
    def __bool__(self): return decide(self.z != 0)
    def __repr__(self): return 'SInt(%s)' % self.z

def _floordiv(a, b):
    # Python floor division; z3 Int div is euclidean, which is the floor for a positive divisor
    cb = conc(b)
    if cb is not None and cb > 0: return a / b
    lb = lower_bound(b)
    if lb is not None and lb > 0: return a / b
    return z3.If(b > 0, a / b, (-a) / (-b))
def _pymod(a, b):
    cb = conc(b)
    if cb is not None and cb > 0: return a % b
    lb = lower_bound(b)
    if lb is not None and lb > 0: return a % b
    return a - b * _floordiv(a, b)

def mk_int(z):
    if isinstance(z, int): return z
    z = z3.simplify(z)
    if z3.is_int_value(z): return z.as_long()
    return SInt(z)

LOWER = {}       # ast id of an Int constant -> known lower bound (from sym_int); used by the static sign analysis
def lower_bound(t):
    """cheap syntactic lower bound of an Int term (None = unknown)"""
    if z3.is_int_value(t): return t.as_long()
    if z3.is_const(t): return LOWER.get(t.get_id())
    k = t.decl().kind()
    if k == z3.Z3_OP_ADD:
        r = 0
        for c in t.children():
            b = lower_bound(c)
            if b is None: return None
            r += b
        return r
    if k == z3.Z3_OP_MUL:
        r = 1
        for c in t.children():
            b = lower_bound(c)
            if b is None or b < 0: return None
            r *= b
        return r
    if k == z3.Z3_OP_ITE:
        a, b = lower_bound(t.arg(1)), lower_bound(t.arg(2))
        return None if a is None or b is None else min(a, b)
    if k in (z3.Z3_OP_IDIV, z3.Z3_OP_DIV):
        a, b = lower_bound(t.arg(0)), lower_bound(t.arg(1))
        return 0 if (a is not None and a >= 0 and b is not None and b > 0) else None
    if k == z3.Z3_OP_MOD:
        b = lower_bound(t.arg(1)); return 0 if (b is not None and b > 0) else None
    return None

def static_truth(c):
    """True / False / None for a comparison decided by lower bounds alone"""
    try:
        if z3.is_not(c):
            r = static_truth(c.arg(0)); return None if r is None else (not r)
        k = c.decl().kind()
        if k not in (z3.Z3_OP_LE, z3.Z3_OP_LT, z3.Z3_OP_GE, z3.Z3_OP_GT): return None
        a, b = c.arg(0), c.arg(1)
        if not z3.is_int(a): return None
        if k in (z3.Z3_OP_GE, z3.Z3_OP_GT): a, b = b, a; k = z3.Z3_OP_LE if k == z3.Z3_OP_GE else z3.Z3_OP_LT
        d = lower_bound(z3.simplify(b - a, som=True))          # a <= b  iff  b - a >= 0
        if d is not None and d >= (0 if k == z3.Z3_OP_LE else 1): return True
        d2 = lower_bound(z3.simplify(a - b, som=True))         # a > b   iff  a - b >= 1
        if d2 is not None and d2 >= (1 if k == z3.Z3_OP_LE else 0): return False
    except Exception:
        return None
    return None

def sym_int(name, lo=None, hi=None):
    v = z3.Int(name)
    if isinstance(lo, int): LOWER[v.get_id()] = lo; _KEEP.append(v)
    if lo is not None: assume(v >= zi(lo))
    if hi is not None: assume(v <= zi(hi))
    return SInt(v)

# --------------------------------------------------------------------------- machine integers (numpy element / numba scalar)
_INTKINDS = 'iu'
def _w(dt): return 8 * dt.itemsize

class SBV:
    """machine integer.  `ival` (optional z3 Int) is its exact mathematical value when that is known without wrap-around:
    arithmetic on such values stays mathematical and records a no-overflow side obligation on the current path."""
    __slots__ = ('z', 'dtype', 'ival')
    def __init__(self, z, dtype, ival=None):
        self.z = z; self.dtype = _rnp.dtype(dtype); self.ival = ival
    @property
    def signed(self): return self.dtype.kind == 'i'
    def as_int(self):
        if self.ival is not None: return SInt(self.ival)
        return SInt(z3.BV2Int(self.z, is_signed=self.signed))
    def __index__(self): return self.as_int().__index__()
    def __int__(self): return self.__index__()
    def __add__(self, o): return _arith(self, o, '+')
    def __radd__(self, o): return _arith(o, self, '+')
    def __sub__(self, o): return _arith(self, o, '-')
    def __rsub__(self, o): return _arith(o, self, '-')
    def __mul__(self, o): return _arith(self, o, '*')
    def __rmul__(self, o): return _arith(o, self, '*')
    def __and__(self, o): return _arith(self, o, '&')
    def __rand__(self, o): return _arith(o, self, '&')
    def __or__(self, o): return _arith(self, o, '|')
    def __ror__(self, o): return _arith(o, self, '|')
    def __xor__(self, o): return _arith(self, o, '^')
    def __rxor__(self, o): return _arith(o, self, '^')
    def __lshift__(self, o): return _arith(self, o, '<<')
    def __rlshift__(self, o): return _arith(o, self, '<<')
    def __rshift__(self, o): return _arith(self, o, '>>')
    def __rrshift__(self, o): return _arith(o, self, '>>')
    def __floordiv__(self, o): return _arith(self, o, '//')
    def __mod__(self, o): return _arith(self, o, '%')
    def __truediv__(self, o): return to_float(self) / to_float(o)
    def __rtruediv__(self, o): return to_float(o) / to_float(self)
    def __pow__(self, o): return _arith(self, o, '**')
    def __neg__(self): return SBV(-self.z, self.dtype)
    def __invert__(self): return SBV(~self.z, self.dtype)
    def __abs__(self):
        if not self.signed: return self
        return SBV(z3.If(self.z < 0, -self.z, self.z), self.dtype)
    def __lt__(self, o): return _cmp(self, o, '<')
    def __le__(self, o): return _cmp(self, o, '<=')
    def __gt__(self, o): return _cmp(self, o, '>')
    def __ge__(self, o): return _cmp(self, o, '>=')
    def __eq__(self, o):
        if o is None: return False
        return _cmp(self, o, '==')
    def __ne__(self, o):
        if o is None: return True
        return _cmp(self, o, '!=')
    def __hash__(self): return hash(('SBV', self.z.get_id()))
    def __bool__(self): return decide(self.z != 0)
    def __repr__(self): return 'SBV(%s:%s)' % (self.z, self.dtype)

def bvval(v, dt):
    dt = _rnp.dtype(dt)
    return SBV(z3.BitVecVal(int(v), _w(dt)), dt, z3.IntVal(int(v)) if _rnp.iinfo(dt).min <= int(v) <= _rnp.iinfo(dt).max else None)

def cast(s, dt):
    """numpy astype semantics (C-style wrap for integers; float->int not supported symbolically)"""
    dt = _rnp.dtype(dt)
    if dt.kind == 'f':
        f = to_float(s); return SFloat(f.v, dt, f.nan, f.pinf, f.ninf, f.lossy)
    if dt.kind == 'b':
        if isinstance(s, (SBool, bool, _rnp.bool_)): return s
        if isinstance(s, SBV): return mk_bool(s.z != 0)
        if isinstance(s, SFloat): return mk_bool(s.v != 0)
        if isinstance(s, (int, _rnp.integer)): return bool(s)
        return mk_bool(zi(s) != 0)
    assert dt.kind in _INTKINDS, dt
    w = _w(dt)
    if isinstance(s, SBV):
        w0 = _w(s.dtype)
        if s.dtype == dt: return s
        iv = s.ival
        if iv is not None and CUR.path is not None:
            info = _rnp.iinfo(dt)
            CUR.path.obligations.append(dict(name='no wrap-around converting %s to %s' % (s.dtype, dt), kind='no-overflow', pc=list(CUR.path.pc), goal=z3.And(iv >= int(info.min), iv <= int(info.max)), meta={}))
        if w == w0: return SBV(s.z, dt, iv)
        if w > w0: return SBV(z3.simplify((z3.SignExt if s.signed else z3.ZeroExt)(w - w0, s.z)), dt, iv)
        return SBV(z3.simplify(z3.Extract(w - 1, 0, s.z)), dt, iv)
    if isinstance(s, (SBool,)): return SBV(z3.If(s.z, z3.BitVecVal(1, w), z3.BitVecVal(0, w)), dt)
    if isinstance(s, (bool, _rnp.bool_)): return bvval(int(s), dt)
    if isinstance(s, (int, _rnp.integer)): return bvval(int(s), dt)
    if isinstance(s, SInt): return SBV(z3.Int2BV(s.z, w), dt, s.z)
    if isinstance(s, SFloat):
        raise NeedsContract('float -> integer cast of a symbolic value')
    if isinstance(s, float): return bvval(int(s), dt)
    raise TypeError('cast %r to %s' % (s, dt))

def _weak_int_dtype(v, other_dt):
    """NEP 50: a Python int adopts the dtype of the other operand (error if it does not fit: numpy raises OverflowError)"""
    info = _rnp.iinfo(other_dt)
    if not (info.min <= v <= info.max):
        raise OverflowError('Python integer %d out of bounds for %s' % (v, other_dt))
    return other_dt

def _arith(a, b, op):
    if hasattr(a, 'st') or hasattr(b, 'st'): return NotImplemented          # a tensor operand: let ndarray's reflected method handle it
    # floats dominate
    if isinstance(a, (SFloat, float, _rnp.floating)) or isinstance(b, (SFloat, float, _rnp.floating)):
        return _float_arith(a, b, op)
    if isinstance(a, SInt) or isinstance(b, SInt):
        # mathematical integer meets a machine integer: numba/python semantics -> treat as int64-wide math int
        A = SInt(zi(a)) if not isinstance(a, SInt) else a
        B = SInt(zi(b)) if not isinstance(b, SInt) else b
        return _int_arith(A, B, op)
    # both machine ints / bools / python ints
    da = _dtype_of(a); db = _dtype_of(b)
    if da is None and db is None:
        return _py_arith(a, b, op)
    if da is None: da = _weak_int_dtype(int(a), db) if db.kind in _INTKINDS else _rnp.dtype('int64')
    if db is None: db = _weak_int_dtype(int(b), da) if da.kind in _INTKINDS else _rnp.dtype('int64')
    if op in ('<<', '>>') and da.kind == 'b' and db.kind == 'b': dt = _rnp.dtype('int8')
    else: dt = _rnp.result_type(da, db)
    if dt.kind == 'b':
        if op in ('+', '|'): return Or(a, b)
        if op in ('*', '&'): return And(a, b)
        if op == '^': return mk_bool(z3.Xor(zb(a), zb(b)))
        if op == '-': raise TypeError('numpy boolean subtract')
        dt = _rnp.dtype('int8')
    if dt.kind == 'f': return _float_arith(a, b, op)
    x, y = cast(a, dt).z, cast(b, dt).z
    sg = dt.kind == 'i'
    if op == '+': r = x + y
    elif op == '-': r = x - y
    elif op == '*': r = x * y
    elif op == '&': r = x & y
    elif op == '|': r = x | y
    elif op == '^': r = x ^ y
    elif op == '<<': r = z3.If(z3.ULT(y, _w(dt)), x << y, z3.BitVecVal(0, _w(dt)))
    elif op == '>>':
        r = (x >> y) if sg else z3.LShR(x, y)
        r = z3.If(z3.ULT(y, _w(dt)), r, (x >> (_w(dt) - 1)) if sg else z3.BitVecVal(0, _w(dt)))
    elif op == '//': r = (x / y) if sg else z3.UDiv(x, y)     # only used on non-negative operands
    elif op == '%': r = z3.SRem(x, y) if sg else z3.URem(x, y)
    elif op == '**':
        c = conc(y)
        if c is None: raise NeedsContract('symbolic integer power')
        r = z3.BitVecVal(1, _w(dt))
        for _ in range(c): r = r * x
    else: raise NotImplementedError(op)
    if z3.is_bv_value(x) and z3.is_bv_value(y): r = z3.simplify(r)
    iv = None
    if op in ('+', '-', '*'):
        ia = a.ival if isinstance(a, SBV) else (z3.IntVal(int(a)) if isinstance(a, (int, _rnp.integer)) and not isinstance(a, bool) else (a.z if isinstance(a, SInt) else None))
        ib = b.ival if isinstance(b, SBV) else (z3.IntVal(int(b)) if isinstance(b, (int, _rnp.integer)) and not isinstance(b, bool) else (b.z if isinstance(b, SInt) else None))
        if ia is not None and ib is not None and (isinstance(a, SBV) and a.ival is not None or isinstance(b, SBV) and b.ival is not None):
            iv = z3.simplify({'+': ia + ib, '-': ia - ib, '*': ia * ib}[op])
            info = _rnp.iinfo(dt)
            if CUR.path is not None:
                CUR.path.obligations.append(dict(name='no wrap-around in %s arithmetic (%s)' % (dt, op), kind='no-overflow', pc=list(CUR.path.pc), goal=z3.And(iv >= int(info.min), iv <= int(info.max)), meta={}))
    return SBV(r, dt, iv)

def _py_arith(a, b, op):
    import operator as O
    f = {'+': O.add, '-': O.sub, '*': O.mul, '&': O.and_, '|': O.or_, '^': O.xor, '<<': O.lshift, '>>': O.rshift, '//': O.floordiv, '%': O.mod, '**': O.pow}[op]
    return f(a, b)

def _int_arith(a, b, op):
    x, y = a.z, b.z
    if op == '+': return mk_int(x + y)
    if op == '-': return mk_int(x - y)
    if op == '*': return mk_int(x * y)
    if op == '//': return mk_int(_floordiv(x, y))
    if op == '%': return mk_int(_pymod(x, y))
    cy = conc(y)
    if op == '<<' and cy is not None: return mk_int(x * (2 ** cy))
    if op == '>>' and cy is not None: return mk_int(_floordiv(x, z3.IntVal(2 ** cy)))
    if op == '&' and cy is not None and (cy + 1) & cy == 0:     # mask 2^k - 1 on a non-negative value
        return mk_int(_pymod(x, z3.IntVal(cy + 1)))
    if op == '**' and cy is not None:
        r = z3.IntVal(1)
        for _ in range(cy): r = r * x
        return mk_int(r)
    raise NeedsContract('bit operation %s on a mathematical integer' % op)

def _dtype_of(x):
    if isinstance(x, SBV): return x.dtype
    if isinstance(x, (SBool, _rnp.bool_)): return _rnp.dtype('bool')
    if isinstance(x, bool): return _rnp.dtype('bool')
    if isinstance(x, _rnp.generic): return x.dtype
    if isinstance(x, SFloat): return x.dtype
    return None

def _cmp(a, b, op):
    if hasattr(a, 'st') or hasattr(b, 'st'): return NotImplemented
    if isinstance(a, (SFloat, float, _rnp.floating)) or isinstance(b, (SFloat, float, _rnp.floating)):
        return _float_cmp(to_float(a), to_float(b), op)
    if isinstance(a, SInt) or isinstance(b, SInt):
        x, y = zi(a), zi(b)
        return mk_bool({'<': x < y, '<=': x <= y, '>': x > y, '>=': x >= y, '==': x == y, '!=': x != y}[op])
    da = _dtype_of(a); db = _dtype_of(b)
    if da is None or db is None:
        # python int against machine int: compare mathematically (numpy 2 does exactly this)
        x, y = zi(a), zi(b)
        return mk_bool({'<': x < y, '<=': x <= y, '>': x > y, '>=': x >= y, '==': x == y, '!=': x != y}[op])
    dt = _rnp.result_type(da, db)
    if dt.kind == 'f':
        return _float_cmp(to_float(a), to_float(b), op)
    if dt.kind == 'b':
        x, y = zb(a), zb(b)
        return mk_bool({'==': x == y, '!=': x != y}[op])
    x, y = cast(a, dt).z, cast(b, dt).z
    if dt.kind == 'i':
        r = {'<': x < y, '<=': x <= y, '>': x > y, '>=': x >= y, '==': x == y, '!=': x != y}[op]
    else:
        r = {'<': z3.ULT(x, y), '<=': z3.ULE(x, y), '>': z3.UGT(x, y), '>=': z3.UGE(x, y), '==': x == y, '!=': x != y}[op]
    return mk_bool(r)

# --------------------------------------------------------------------------- floats as reals with IEEE special values
class SFloat:
    """(value, nan, +inf, -inf): the value is meaningful only when no flag is set.  Assumption A1: no rounding."""
    __slots__ = ('v', 'dtype', 'nan', 'pinf', 'ninf', 'lossy')
    def __init__(self, v, dtype='float64', nan=False, pinf=False, ninf=False, lossy=None):
        self.v = v; self.dtype = _rnp.dtype(dtype); self.nan = nan; self.pinf = pinf; self.ninf = ninf
        self.lossy = lossy          # narrowest float width (bits) in which an inexact operation contributed to this value (None: none yet)
    @property
    def special(self): return not (self.nan is False and self.pinf is False and self.ninf is False)
    def finite(self): return Not(Or(*[mk_bool(f) if not isinstance(f, bool) else f for f in (self.nan, self.pinf, self.ninf)]))
    def __add__(self, o): return _float_arith(self, o, '+')
    def __radd__(self, o): return _float_arith(o, self, '+')
    def __sub__(self, o): return _float_arith(self, o, '-')
    def __rsub__(self, o): return _float_arith(o, self, '-')
    def __mul__(self, o): return _float_arith(self, o, '*')
    def __rmul__(self, o): return _float_arith(o, self, '*')
    def __truediv__(self, o): return _float_arith(self, o, '/')
    def __rtruediv__(self, o): return _float_arith(o, self, '/')
    def __pow__(self, o): return _float_arith(self, o, '**')
    def __neg__(self): return SFloat(-self.v, self.dtype, self.nan, self.ninf, self.pinf)
    def __pos__(self): return self
    def __abs__(self): return SFloat(z3.If(self.v >= 0, self.v, -self.v), self.dtype, self.nan, Or_flag(self.pinf, self.ninf), False)
    def __lt__(self, o): return _float_cmp(self, to_float(o), '<')
    def __le__(self, o): return _float_cmp(self, to_float(o), '<=')
    def __gt__(self, o): return _float_cmp(self, to_float(o), '>')
    def __ge__(self, o): return _float_cmp(self, to_float(o), '>=')
    def __eq__(self, o):
        if o is None: return False
        return _float_cmp(self, to_float(o), '==')
    def __ne__(self, o):
        if o is None: return True
        return _float_cmp(self, to_float(o), '!=')
    def __hash__(self): return hash(('SFloat', self.v.get_id()))
    def __bool__(self): return decide(self.v != 0)
    def __float__(self):
        c = conc(self.v)
        if c is None or self.special: raise NeedsContract('float() of a symbolic value')
        return float(c)
    def __repr__(self): return 'SFloat(%s%s)' % (self.v, ' +flags' if self.special else '')

def Or_flag(*f):
    f = [x for x in f if x is not False]
    if not f: return False
    if any(x is True for x in f): return True
    return mk_flag(z3.Or(*f))
def And_flag(*f):
    if any(x is False for x in f): return False
    f = [x for x in f if x is not True]
    if not f: return True
    return mk_flag(z3.And(*f))
def Not_flag(f):
    if f is False: return True
    if f is True: return False
    return mk_flag(z3.Not(f))

def realval(x):
    from fractions import Fraction
    if isinstance(x, Fraction): return z3.RealVal(str(x))
    if isinstance(x, float):
        fr = Fraction(x); return z3.RealVal(str(fr))
    return z3.RealVal(int(x))

NARROW_FLOWS = []       # (value width, target width): an inexact operation done in a narrower float type flowed into a wider float array
INTEGRAL_REALS = {}     # ast id of ToInt(v) -> v, for sums of integers kept as reals by the sum normaliser (v is integral by construction)
def int_from_real_sum(v, dt):
    """machine integer holding the integral real v (a sum of integers); exact as long as the no-overflow side condition holds"""
    dt = _rnp.dtype(dt); iv = z3.ToInt(v); INTEGRAL_REALS[iv.get_id()] = (v, iv)
    return SBV(z3.Int2BV(iv, 8 * dt.itemsize), dt, iv)

def integral_axioms():
    """sums of integers are integral: ToReal(ToInt(v)) == v for every integer sum produced by the normaliser"""
    return [z3.ToReal(iv) == v for v, iv in INTEGRAL_REALS.values()]

def to_float(x, dt=None):
    if isinstance(x, SFloat): return x
    import math
    from fractions import Fraction
    if isinstance(x, (float, _rnp.floating)):
        d = _rnp.dtype(dt or (x.dtype if isinstance(x, _rnp.floating) else 'float64'))
        x = float(x)
        if math.isnan(x): return SFloat(z3.RealVal(0), d, nan=True)
        if math.isinf(x): return SFloat(z3.RealVal(0), d, pinf=x > 0, ninf=x < 0)
        return SFloat(realval(x), d)
    if isinstance(x, Fraction): return SFloat(realval(x), dt or 'float64')
    if isinstance(x, (bool, _rnp.bool_)): return SFloat(z3.RealVal(int(x)), dt or 'float64')
    if isinstance(x, (int, _rnp.integer)): return SFloat(z3.RealVal(int(x)), dt or 'float64')
    if isinstance(x, SInt): return SFloat(z3.ToReal(x.z), dt or 'float64')
    if isinstance(x, SBV):
        if x.ival is not None and x.ival.get_id() in INTEGRAL_REALS: return SFloat(INTEGRAL_REALS[x.ival.get_id()][0], dt or 'float64')
        return SFloat(z3.ToReal(x.ival if x.ival is not None else z3.BV2Int(x.z, is_signed=x.signed)), dt or 'float64')
    if isinstance(x, SBool): return SFloat(z3.If(x.z, z3.RealVal(1), z3.RealVal(0)), dt or 'float64')
    raise TypeError('to_float %r' % (x,))

def _fdtype(a, b):
    da = a.dtype if isinstance(a, (SFloat, SBV)) else (_rnp.dtype('bool') if isinstance(a, SBool) else (a.dtype if isinstance(a, _rnp.generic) else None))
    db = b.dtype if isinstance(b, (SFloat, SBV)) else (_rnp.dtype('bool') if isinstance(b, SBool) else (b.dtype if isinstance(b, _rnp.generic) else None))
    if da is None and db is None: return _rnp.dtype('float64')
    if da is None: return db if db.kind == 'f' else _rnp.dtype('float64')
    if db is None: return da if da.kind == 'f' else _rnp.dtype('float64')
    return _rnp.result_type(da, db)

def _lossy_of(x): return x.lossy if isinstance(x, SFloat) else None
def _float_arith(a, b, op):
    if hasattr(a, 'st') or hasattr(b, 'st'): return NotImplemented
    r = _float_arith0(a, b, op)
    if isinstance(r, SFloat):
        ls = [v for v in (_lossy_of(a), _lossy_of(b), 8 * r.dtype.itemsize) if v is not None]
        r.lossy = min(ls)
    return r
def _float_arith0(a, b, op):
    dt = _fdtype(a, b)
    if dt.kind != 'f': dt = _rnp.dtype('float64')
    if op == '**':
        if isinstance(b, (int, _rnp.integer)) and not isinstance(b, bool) and b >= 0:
            x = to_float(a); r = None
            if b == 0: return SFloat(z3.RealVal(1), dt)
            r = x
            for _ in range(int(b) - 1): r = _float_arith(r, x, '*')
            return SFloat(r.v, dt, r.nan, r.pinf, r.ninf)
        from fractions import Fraction
        if isinstance(b, float) and Fraction(b) == Fraction(3, 2):
            x = to_float(a); s = fsqrt(x)
            return _float_arith(_float_arith(s, s, '*'), s, '*')
        if isinstance(b, float) and b == 0.5: return fsqrt(to_float(a))
        raise NeedsContract('power with exponent %r' % (b,))
    x, y = to_float(a), to_float(b)
    if not x.special and not y.special:
        if op == '+': return SFloat(x.v + y.v, dt)
        if op == '-': return SFloat(x.v - y.v, dt)
        if op == '*': return SFloat(x.v * y.v, dt)
        if op == '/':
            cy = conc(y.v)
            if cy is not None and cy != 0: return SFloat(x.v / y.v, dt)
            if _static_positive(y.v): return SFloat(x.v / y.v, dt)
            yz = y.v == 0
            return SFloat(x.v / y.v, dt, nan=mk_flag(z3.And(yz, x.v == 0)), pinf=mk_flag(z3.And(yz, x.v > 0)), ninf=mk_flag(z3.And(yz, x.v < 0)))
    # general case with flags
    xf, yf = zb(x.finite()) if not isinstance(x.finite(), bool) else z3.BoolVal(x.finite()), zb(y.finite()) if not isinstance(y.finite(), bool) else z3.BoolVal(y.finite())
    xn, xp, xm = [z3.BoolVal(f) if isinstance(f, bool) else f for f in (x.nan, x.pinf, x.ninf)]
    yn, yp, ym = [z3.BoolVal(f) if isinstance(f, bool) else f for f in (y.nan, y.pinf, y.ninf)]
    if op in ('+', '-'):
        if op == '-': yp, ym = ym, yp
        v = x.v + y.v if op == '+' else x.v - y.v
        nan = z3.Or(xn, yn, z3.And(xp, ym), z3.And(xm, yp))
        pinf = z3.And(z3.Not(nan), z3.Or(xp, yp)); ninf = z3.And(z3.Not(nan), z3.Or(xm, ym))
        return SFloat(v, dt, mk_flag(nan), mk_flag(pinf), mk_flag(ninf))
    xi, yi = z3.Or(xp, xm), z3.Or(yp, ym)
    xpos = z3.Or(xp, z3.And(xf, x.v > 0)); xneg = z3.Or(xm, z3.And(xf, x.v < 0)); xzero = z3.And(xf, x.v == 0)
    ypos = z3.Or(yp, z3.And(yf, y.v > 0)); yneg = z3.Or(ym, z3.And(yf, y.v < 0)); yzero = z3.And(yf, y.v == 0)
    if op == '*':
        nan = z3.Or(xn, yn, z3.And(xi, yzero), z3.And(yi, xzero))
        inf = z3.And(z3.Not(nan), z3.Or(xi, yi))
        pos = z3.Or(z3.And(xpos, ypos), z3.And(xneg, yneg))
        return SFloat(x.v * y.v, dt, mk_flag(nan), mk_flag(z3.And(inf, pos)), mk_flag(z3.And(inf, z3.Not(pos))))
    if op == '/':
        nan = z3.Or(xn, yn, z3.And(xi, yi), z3.And(xzero, yzero))
        inf = z3.And(z3.Not(nan), z3.Or(xi, yzero))
        # sign: a zero divisor is taken as +0 (the code base never produces -0 divisors from sums of squares)
        pos = z3.Or(z3.And(xpos, z3.Or(ypos, yzero)), z3.And(xneg, yneg))
        v = z3.If(yi, z3.RealVal(0), x.v / y.v)
        return SFloat(v, dt, mk_flag(nan), mk_flag(z3.And(inf, pos)), mk_flag(z3.And(inf, z3.Not(pos))))
    raise NotImplementedError(op)

def _static_positive(v):
    """divisor known >= 1 from registered lower bounds (a symbolic count of rows declared >= 1)"""
    try:
        if v.decl().kind() == z3.Z3_OP_TO_REAL:
            lb = lower_bound(z3.simplify(v.arg(0), som=True)); return lb is not None and lb >= 1
    except Exception: pass
    return False

def _float_cmp(x, y, op):
    if not x.special and not y.special:
        a, b = x.v, y.v
        return mk_bool({'<': a < b, '<=': a <= b, '>': a > b, '>=': a >= b, '==': a == b, '!=': a != b}[op])
    xn = zb(x.nan) if not isinstance(x.nan, bool) else z3.BoolVal(x.nan)
    yn = zb(y.nan) if not isinstance(y.nan, bool) else z3.BoolVal(y.nan)
    anynan = z3.Or(xn, yn)
    # order key: -inf < finite < +inf
    def key(f):
        p = f.pinf if not isinstance(f.pinf, bool) else z3.BoolVal(f.pinf)
        m = f.ninf if not isinstance(f.ninf, bool) else z3.BoolVal(f.ninf)
        return z3.If(p, 1, z3.If(m, -1, 0)), p, m
    kx, xp, xm = key(x); ky, yp, ym = key(y)
    lt = z3.Or(kx < ky, z3.And(kx == 0, ky == 0, x.v < y.v))
    eq = z3.Or(z3.And(kx == ky, kx != 0), z3.And(kx == 0, ky == 0, x.v == y.v))
    r = {'<': lt, '<=': z3.Or(lt, eq), '>': z3.Not(z3.Or(lt, eq)), '>=': z3.Not(lt), '==': eq, '!=': z3.Not(eq)}[op]
    if op == '!=': return mk_bool(z3.Or(anynan, r))
    return mk_bool(z3.And(z3.Not(anynan), r))

_SQRT = z3.Function('sqrt_', z3.RealSort(), z3.RealSort())
SQRT_ARGS = []
def fsqrt(x):
    x = to_float(x)
    c = conc(x.v)
    if c is not None and not x.special and c >= 0:
        import math
        r = math.isqrt(c.numerator * c.denominator) if hasattr(c, 'numerator') else None
        if r is not None and r * r == c.numerator * c.denominator:
            from fractions import Fraction
            return SFloat(realval(Fraction(r, c.denominator)), x.dtype)
    s = _SQRT(x.v); SQRT_ARGS.append(x.v)
    nan = Or_flag(x.nan, x.ninf, mk_flag(x.v < 0) if not x.special else mk_flag(z3.And(zb(x.finite()), x.v < 0)))
    return SFloat(s, x.dtype if x.dtype.kind == 'f' else 'float64', nan=nan, pinf=x.pinf, ninf=False)

def sqrt_axioms(pairs=True):
    """sqrt_(a) >= 0 and sqrt_(a)^2 == a for every argument that occurred with a >= 0, plus their immediate consequences
    (a > 0 => sqrt_(a) > 0; (sqrt_(a) sqrt_(b))^2 == a b), stated explicitly because nonlinear solvers do not find them quickly"""
    seen = {}; ax = []; args = []
    for a in SQRT_ARGS:
        if a.get_id() in seen: continue
        seen[a.get_id()] = 1; args.append(a)
        s = _SQRT(a)
        ax.append(z3.Implies(a >= 0, z3.And(s >= 0, s * s == a)))
        ax.append(z3.Implies(a > 0, s > 0))
        ax.append(z3.Implies(a == 0, s == 0))
    if pairs:
        for i in range(len(args)):
            for j in range(i + 1, len(args)):
                a, b = args[i], args[j]; sa, sb = _SQRT(a), _SQRT(b)
                ax.append(z3.Implies(z3.And(a >= 0, b >= 0), z3.And((sa * sb) * (sa * sb) == a * b, sa * sb >= 0)))
    return ax

_LOG = z3.Function('ln_', z3.RealSort(), z3.RealSort())
def flog(x):
    x = to_float(x)
    c = conc(x.v)
    if c == 1 and not x.special: return SFloat(z3.RealVal(0), x.dtype)
    return SFloat(z3.If(x.v == 1, z3.RealVal(0), _LOG(x.v)), x.dtype, nan=Or_flag(x.nan, mk_flag(x.v < 0)), pinf=x.pinf, ninf=mk_flag(x.v == 0))

def isnan(x):
    x = to_float(x); return x.nan if isinstance(x.nan, bool) else mk_bool(x.nan)
def isinf(x):
    x = to_float(x); f = Or_flag(x.pinf, x.ninf); return f if isinstance(f, bool) else mk_bool(f)
def nanval(dt='float64'): return SFloat(z3.RealVal(0), dt, nan=True)

def sym_real(name, dt='float64'): return SFloat(z3.Real(name), dt)

def scalar_eq(a, b):
    """z3 formula: scalars a and b are the same numpy value (NaN equals NaN here: used in postconditions)"""
    if isinstance(a, SFloat) or isinstance(b, SFloat) or isinstance(a, float) or isinstance(b, float):
        a, b = to_float(a), to_float(b)
        fa = [z3.BoolVal(f) if isinstance(f, bool) else f for f in (a.nan, a.pinf, a.ninf)]
        fb = [z3.BoolVal(f) if isinstance(f, bool) else f for f in (b.nan, b.pinf, b.ninf)]
        fin = z3.Not(z3.Or(*fa))
        return z3.And(fa[0] == fb[0], fa[1] == fb[1], fa[2] == fb[2], z3.Implies(fin, a.v == b.v))
    if isinstance(a, (SBool, bool, _rnp.bool_)) and isinstance(b, (SBool, bool, _rnp.bool_)):
        return zb(a) == zb(b)
    if isinstance(a, SBV) and isinstance(b, SBV) and _w(a.dtype) == _w(b.dtype):
        return a.z == b.z
    return zi(a) == zi(b)
