"""pyvc.solve -- discharge one obligation: structural identity, then z3, then cvc5 for z3's unknowns."""
import time, subprocess, tempfile, os, z3
from . import core

TIMEOUT_MS = {'quick': 40000, 'thorough': 120000}      # per query; sized so that verdicts do not flip when all cores are busy

def _mk_solver(timeout_ms, tactic=True):
    if tactic:
        s = z3.Then('simplify', 'solve-eqs', 'propagate-values', 'simplify', 'smt').solver()
    else:
        s = z3.Solver()
    s.set('timeout', timeout_ms)
    return s

def cvc5_check(smt2, timeout_s):
    with tempfile.NamedTemporaryFile('w', suffix='.smt2', dir='/dev/shm', delete=False) as f:
        f.write('(set-logic ALL)\n' + smt2 + '\n(check-sat)\n'); path = f.name
    try:
        p = subprocess.run(['/usr/bin/cvc5', '--tlimit=%d' % int(timeout_s * 1000), path], capture_output=True, text=True, timeout=timeout_s + 10)
        out = p.stdout.strip().splitlines()
        return out[-1] if out else 'unknown'
    except Exception:
        return 'unknown'
    finally:
        os.unlink(path)

import multiprocessing as _mp, os as _os
FAIL_COUNT = _mp.Value('i', 0)                # refuted / undecided obligations so far in this run (shared by forked workers)
FAIL_LIMIT = int(_os.environ.get('PYVC_FAIL_LIMIT', '24'))

def discharge(pc, goal, extra=(), timeout_ms=20000, want_model=True, use_cvc5=True, nra=False):
    if nra:
        # nonlinear real obligation: try the realified generalisation first (quick when it works), fall back to the original
        pc2, g2, ex2 = realify(pc, goal, extra)
        t0 = time.time()
        try:
            sn = z3.Then('simplify', 'propagate-values', 'purify-arith', 'qfnra-nlsat').solver(); sn.set('timeout', min(timeout_ms, 20000))
            for c in pc2: sn.add(c)
            for c in ex2: sn.add(c)
            sn.add(z3.Not(g2))
            if sn.check() == z3.unsat: return dict(result='unsat', backend='z3-nlsat(realified)', secs=time.time() - t0, model=None)
        except z3.Z3Exception:
            pass
        r = _discharge(pc2, g2, ex2, min(timeout_ms, 10000), False, False)
        if r['result'] == 'unsat':
            r['backend'] = r['backend'] + '(realified)'; return r
    r = _discharge(pc, goal, extra, timeout_ms, want_model, use_cvc5)
    if r['result'] != 'unsat':
        with FAIL_COUNT.get_lock(): FAIL_COUNT.value += 1
    return r

def _discharge(pc, goal, extra=(), timeout_ms=20000, want_model=True, use_cvc5=True):
    """is (pc and extra) => goal valid?   returns dict(result='unsat'|'sat'|'unknown', backend, secs, model)"""
    t0 = time.time()
    g = z3.simplify(goal) if z3.is_expr(goal) else z3.BoolVal(bool(goal))
    if z3.is_true(g):
        return dict(result='unsat', backend='structural', secs=time.time() - t0, model=None)
    if FAIL_COUNT.value >= FAIL_LIMIT:
        # the tree is already known to be broken: do not spend solver time on every further obligation
        return dict(result='unknown', backend='skipped', secs=0.0, model=None, note='not examined: %d obligations already refuted/undecided in this run' % FAIL_COUNT.value)
    s = _mk_solver(timeout_ms)
    for c in pc: s.add(c)
    for c in extra: s.add(c)
    s.add(z3.Not(g))
    r = s.check()
    backend = 'z3'
    if r == z3.unknown:
        s2 = _mk_solver(timeout_ms, tactic=False)
        for c in pc: s2.add(c)
        for c in extra: s2.add(c)
        s2.add(z3.Not(g)); r = s2.check(); s = s2
    if r == z3.unknown and use_cvc5:
        smt2 = s.to_smt2().replace('(check-sat)', '')
        c = cvc5_check(smt2, timeout_ms / 1000.0)
        if c == 'unsat':
            return dict(result='unsat', backend='cvc5', secs=time.time() - t0, model=None)
        # cvc5 'sat' carries no z3 model: keep it as unknown unless z3 can confirm
        return dict(result='unknown', backend='z3+cvc5', secs=time.time() - t0, model=None, note='cvc5 says %s' % c)
    res = str(r)
    return dict(result=res, backend=backend, secs=time.time() - t0, model=(s.model() if r == z3.sat and want_model else None))

def realify(pc, goal, extra=()):
    """sound generalisation for nonlinear real obligations: ToReal(int constant) becomes a fresh real (keeping its constant bounds),
    applications of uninterpreted real-valued functions become fresh reals (congruence is dropped).  Valid generalised => valid."""
    allf = list(pc) + list(extra) + [goal]
    sub = {}; bounds = []
    def visit(t, seen):
        if t.get_id() in seen: return
        seen.add(t.get_id())
        if z3.is_app(t):
            k = t.decl().kind()
            if k == z3.Z3_OP_TO_REAL and z3.is_const(t.arg(0)) and t.arg(0).decl().kind() == z3.Z3_OP_UNINTERPRETED:
                if t.get_id() not in sub: sub[t.get_id()] = (t, z3.Real('r!' + str(t.arg(0))))
                return
            if k == z3.Z3_OP_UNINTERPRETED and t.num_args() > 0 and z3.is_real(t):
                if t.get_id() not in sub: sub[t.get_id()] = (t, z3.Real('u!%d' % t.get_id()))
                return        # do not descend: the whole application is abstracted
            for c in t.children(): visit(c, seen)
    seen = set()
    for f in allf: visit(f, seen)
    if not sub: return list(pc), goal, list(extra)
    pairs = list(sub.values())
    # integer bounds of the realified constants
    ints = {p[0].arg(0).get_id(): p[1] for p in pairs if p[0].decl().kind() == z3.Z3_OP_TO_REAL}
    for c in pc:
        if z3.is_app(c) and c.decl().kind() in (z3.Z3_OP_LE, z3.Z3_OP_GE, z3.Z3_OP_LT, z3.Z3_OP_GT) and c.num_args() == 2:
            a, b = c.arg(0), c.arg(1)
            if z3.is_const(a) and a.get_id() in ints and z3.is_int_value(b): bounds.append(z3.substitute(c, (a, z3.ToInt(ints[a.get_id()]))) if False else _cmp_real(c.decl().kind(), ints[a.get_id()], z3.RealVal(b.as_long())))
            if z3.is_const(b) and b.get_id() in ints and z3.is_int_value(a): bounds.append(_cmp_real(c.decl().kind(), z3.RealVal(a.as_long()), ints[b.get_id()]))
    S = lambda f: z3.substitute(f, *pairs)
    return [S(c) for c in pc] + bounds, S(goal), [S(e) for e in extra]
def _cmp_real(k, a, b):
    return {z3.Z3_OP_LE: a <= b, z3.Z3_OP_GE: a >= b, z3.Z3_OP_LT: a < b, z3.Z3_OP_GT: a > b}[k]

def satisfiable(pc, extra=(), timeout_ms=5000):
    s = z3.Solver(); s.set('timeout', timeout_ms)
    for c in pc: s.add(c)
    for c in extra: s.add(c)
    return str(s.check())

def mval(model, z, default=0):
    """python value of z in model (ints, bitvectors, bools, rationals)"""
    v = model.eval(z, model_completion=True)
    c = core.conc(v)
    return default if c is None else c
