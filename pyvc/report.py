"""pyvc.report -- obligations ledger, evidence file, replay files, verdict and exit code."""
import json, os, sys, time, hashlib, subprocess

VERIF = os.path.dirname(os.path.dirname(os.path.abspath(__file__)))
OUT = os.environ.get('PYVC_OUT_DIR', VERIF)        # evidence/ and replay/ go here (scratch runs against mutated copies set it)
NATIVE_PY = os.environ.get('PYVC_NATIVE_PY', '/venv/bin/python')
REPO = os.environ.get('PYVC_REPO', '/repo')

ASSUMPTIONS = {
 'A1': 'float32/float64 arithmetic is real arithmetic with IEEE special values only at x/0, sqrt(<0), log(0); no rounding, overflow or subnormals',
 'A2': 'Python int is mathematical; numba scalars are 64-bit two\'s complement; numba array indices are unchecked (index-in-range is an obligation on kernel subscripts)',
 'A3': 'numba.prange = sequential range, provided the data-race-freedom obligation of the loop holds; @njit/@vectorize do not change meaning otherwise',
 'A4': 'the numpy stub (pyvc/symnp.py) agrees with numpy on the operations used (conformance-tested, not proved)',
 'A5': 'sum rewrite rules (interval split, linearity, index shift) are the Lean-checked lemmas of lemmas/Sums.lean, transcribed by hand',
 'A6': 'CPython 3.11 (prover host) and 3.12 (runtime) agree on the constructs used',
 'T-pyvc': 'the verifier itself (pyvc), z3 5.1, cvc5 1.0.3',
 'T-spec': 'the transcription of the standards / definitions in /verif/specs (self-checked against published vectors on every run)',
}

class Report:
    def __init__(self, prop, tier='quick', seed=0, level='proof'):
        self.prop = prop; self.tier = tier; self.seed = seed; self.level = level
        self.t0 = time.time()
        self.obls = []          # dict(name, function, kind, result, backend, secs)
        self.functions = {}     # key -> sha256
        self.bounded = []       # dict(function, bound, evaluations, exhaustive, failures)
        self.violations = []    # dict(obligation, replay, reproduced)
        self.undecided = []
        self.errors = []
        self.covers = []; self.canaries = []
        self.assumptions = []; self.trusted = []
        self.not_decided = []
        self.samples = []
        self.known = _load_known(prop)
        self.known_hit = []
        self.notes = []
    # ---- recording
    def function(self, key, sha): self.functions[key] = sha
    def obligation(self, name, function, kind, res, sample=None):
        e = dict(name=name, function=function, kind=kind, result=res['result'], backend=res.get('backend'), secs=round(res.get('secs', 0.0), 4))
        if res.get('note'): e['note'] = res['note']
        self.obls.append(e)
        if sample is not None and len(self.samples) < 12: self.samples.append(dict(obligation=name, kind=kind, result=res['result'], backend=res.get('backend'), text=str(sample)[:600]))
        if res['result'] == 'unknown': self.undecided.append(dict(obligation=name, reason=res.get('note', 'solver returned unknown / timeout')))
        return e
    def cover(self, name, ok): self.covers.append(dict(name=name, reachable=bool(ok)));  (self.errors.append('cover %s unreachable (vacuous contract)' % name) if not ok else None)
    def canary(self, name, refuted): self.canaries.append(dict(name=name, refuted=bool(refuted))); (self.errors.append('canary %s was not refuted (engine blind)' % name) if not refuted else None)
    def assume(self, *keys):
        for k in keys:
            if k not in self.assumptions: self.assumptions.append(k)
    def trust(self, *items):
        for k in items:
            if k not in self.trusted: self.trusted.append(k)
    def violation(self, obligation, function, detail, case=None, solver_output=None, reproduced=None, native_msg=None):
        """record a refuted obligation; writes the replay file; known findings are matched here"""
        for kf in self.known:
            if kf.get('status') == 'known' and kf.get('obligation') == obligation:
                self.known_hit.append((kf, obligation)); return None
        if isinstance(native_msg, dict) and native_msg.get('skipped'):
            self.suppressed = getattr(self, 'suppressed', 0) + 1
            self.notes.append('refuted as well (no separate replay): %s' % obligation) if len(self.notes) < 40 else None
            return None
        os.makedirs(os.path.join(OUT, 'replay'), exist_ok=True)
        h = hashlib.sha256((obligation + json.dumps(case, sort_keys=True, default=str)).encode()).hexdigest()[:10]
        safe = ''.join(c if c.isalnum() or c in '-_.' else '_' for c in obligation)[:80]
        path = os.path.join(OUT, 'replay', '%s-%s-%s.json' % (self.prop, safe, h))
        doc = dict(property=self.prop, obligation=obligation, function=function, detail=detail, case=case,
                   solver_output=(str(solver_output)[:4000] if solver_output is not None else None), reproduced=reproduced, native=native_msg,
                   source_sha=self.functions.get(function))
        json.dump(doc, open(path, 'w'), indent=1, default=str)
        self.violations.append(dict(obligation=obligation, replay=path, reproduced=reproduced, detail=detail))
        return path
    # ---- parallel work units: a sub-report is exported by the worker and merged by the parent
    def sub(self):
        r = Report.__new__(Report); r.__dict__.update(dict(prop=self.prop, tier=self.tier, seed=self.seed, level=self.level, t0=time.time(), obls=[], functions={}, bounded=[],
                 violations=[], undecided=[], errors=[], covers=[], canaries=[], assumptions=[], trusted=[], not_decided=[], samples=[], known=self.known, known_hit=[], notes=[]))
        return r
    def export(self):
        return dict(obls=self.obls, bounded=self.bounded, violations=self.violations, undecided=self.undecided, errors=self.errors, covers=self.covers,
                    canaries=self.canaries, samples=self.samples, known_hit=self.known_hit, notes=self.notes, not_decided=self.not_decided, suppressed=getattr(self, 'suppressed', 0))
    def merge(self, d):
        for k in ('obls', 'bounded', 'violations', 'undecided', 'errors', 'covers', 'canaries', 'known_hit', 'notes', 'not_decided'):
            getattr(self, k).extend(d.get(k, []))
        self.suppressed = getattr(self, 'suppressed', 0) + d.get('suppressed', 0)
        for s_ in d.get('samples', []):
            if len(self.samples) < 12: self.samples.append(s_)
    # ---- finishing
    def finish(self, checker_cmd=None):
        n = len(self.obls); d = sum(1 for o in self.obls if o['result'] == 'unsat')
        by_backend = {}
        for o in self.obls:
            if o['result'] == 'unsat': by_backend[o['backend']] = by_backend.get(o['backend'], 0) + 1
        if n == 0 and not self.bounded: self.errors.append('zero obligations generated')
        coverage = dict(obligations=n, discharged=d, checker_cmd=checker_cmd or ' '.join(sys.argv),
                        trusted_base=[('%s: %s' % (k, ASSUMPTIONS[k]) if k in ASSUMPTIONS else k) for k in (self.assumptions + self.trusted)],
                        functions_under_contract=[dict(key=k, sha256=v) for k, v in sorted(self.functions.items())],
                        obligations_by_backend=by_backend, solver_s=round(sum(o['secs'] for o in self.obls), 3),
                        obligations_by_kind=_count(self.obls, 'kind'),
                        covers=self.covers, canaries=self.canaries, bounded=self.bounded, not_decided=self.not_decided,
                        undecided=self.undecided, errors=self.errors, samples=self.samples or [o for o in self.obls[:5]],
                        known_findings_hit=[k.get('obligation') for k, _ in self.known_hit], notes=self.notes,
                        evaluations=max(1, n + sum(b.get('evaluations', 0) for b in self.bounded)),
                        distinct_nontrivial=max(2, sum(1 for o in self.obls if o['backend'] != 'structural') + sum(b.get('distinct', 0) for b in self.bounded)),
                        rule='one case = one obligation (path condition => postcondition) generated from the current source; non-trivial = needed a solver call (not discharged by structural identity); bounded stand-ins count their distinct inputs',
                        explanation='contract-based deductive verification of the real source by symbolic re-execution (pyvc); see DESIGN.md')
        ev = dict(property_id=self.prop, tier=self.tier, seed=int(self.seed), level=self.level, coverage=coverage,
                  assumptions=[('%s: %s' % (k, ASSUMPTIONS[k]) if k in ASSUMPTIONS else k) for k in (self.assumptions + self.trusted)],
                  wall_s=round(time.time() - self.t0, 2), violations=len(self.violations) + getattr(self, 'suppressed', 0))
        os.makedirs(os.path.join(OUT, 'evidence'), exist_ok=True)
        json.dump(ev, open(os.path.join(OUT, 'evidence', '%s.json' % self.prop), 'w'), indent=1, default=str)
        for kf, ob in self.known_hit:
            print('KNOWN-FINDING: property=%s %s' % (self.prop, kf.get('input') or kf.get('what_failed') or ob))
        for v in self.violations:
            tail = '' if v['reproduced'] else ' no-failing-input-found'
            print('VIOLATION property=%s replay=%s%s' % (self.prop, v['replay'], tail))
            print('  obligation: %s -- %s' % (v['obligation'], v['detail']))
        print('%s [%s]: %d obligations, %d discharged %s, %d bounded stand-ins, %d violations, %d undecided, %d errors, %.1fs' % (
            self.prop, self.tier, n, d, by_backend, len(self.bounded), len(self.violations), len(self.undecided), len(self.errors), time.time() - self.t0))
        bad = [o for o in self.obls if o['result'] == 'sat']
        if len(bad) > len(self.violations) + getattr(self, 'suppressed', 0) + len(self.known_hit):
            self.errors.append('%d refuted obligations without a violation record: %s' % (len(bad), [o['name'] for o in bad][:6]))
        for e in self.errors: print('ENGINE-ERROR property=%s %s' % (self.prop, e))
        if getattr(self, 'suppressed', 0): print('  (+%d further refuted obligations not replayed separately; see evidence notes)' % self.suppressed)
        for u in self.undecided[:40]: print('UNDECIDED property=%s obligation=%s reason=%s' % (self.prop, u['obligation'], u['reason']))
        if self.violations or getattr(self, 'suppressed', 0): return 1
        if self.errors: return 3
        if self.undecided: return 2
        return 0

def _count(lst, key):
    r = {}
    for o in lst: r[o[key]] = r.get(o[key], 0) + 1
    return r

def _load_known(prop):
    p = os.path.join(VERIF, 'known_findings.json')
    try:
        return [f for f in json.load(open(p)).get('findings', []) if f.get('property') == prop]
    except Exception:
        return []

import multiprocessing as _mp
REPLAY_BUDGET = _mp.Value('i', int(os.environ.get('PYVC_REPLAY_BUDGET', '10')))      # shared by forked workers

def replay_native(module, case, timeout=300):
    """replay one counterexample natively unless the per-run replay budget is spent (a broken tree can refute thousands of obligations)"""
    with REPLAY_BUDGET.get_lock():
        if REPLAY_BUDGET.value <= 0: return None, dict(skipped='replay budget for this run exhausted')
        REPLAY_BUDGET.value -= 1
    rc, o, so, se = run_native(module, ['replay'], case, timeout=timeout)
    return (bool(o and o.get('reproduced')) if o is not None else None), (o if o is not None else dict(error=(so + se)[-600:]))

_PREFETCH = {}
def prefetch_native(module, args):
    """start the bounded stand-in now, in the background, so that it runs while the obligations are discharged; run_native() with the same
    arguments collects it.  Output goes to temporary files (a full pipe would stall the child)."""
    import tempfile
    env = dict(os.environ); env['PYTHONPATH'] = REPO + os.pathsep + VERIF; env.setdefault('NUMBA_NUM_THREADS', '4')
    try:
        fo = tempfile.TemporaryFile('w+'); fe = tempfile.TemporaryFile('w+')
        p = subprocess.Popen([NATIVE_PY, '-m', module] + list(args), stdout=fo, stderr=fe, stdin=subprocess.DEVNULL, text=True, env=env, cwd=VERIF)
        _PREFETCH[(module, tuple(args))] = (p, fo, fe)
    except Exception:
        pass

class _Done:
    def __init__(self, rc, so, se): self.returncode = rc; self.stdout = so; self.stderr = se

def run_native(module, args, input_obj=None, timeout=600):
    """run /verif/<module> under the runtime interpreter (real numpy/numba/estraces, scared from /repo)"""
    env = dict(os.environ); env['PYTHONPATH'] = REPO + os.pathsep + VERIF; env.setdefault('NUMBA_NUM_THREADS', '4')
    pre = _PREFETCH.pop((module, tuple(args)), None) if input_obj is None else None
    if pre is not None:
        pp, fo, fe = pre
        try: pp.wait(timeout=timeout)
        except subprocess.TimeoutExpired:
            pp.kill(); pp.wait(); raise
        fo.seek(0); fe.seek(0); p = _Done(pp.returncode, fo.read(), fe.read()); fo.close(); fe.close()
    else:
        p = subprocess.run([NATIVE_PY, '-m', module] + list(args), input=(json.dumps(input_obj) if input_obj is not None else None),
                           capture_output=True, text=True, env=env, cwd=VERIF, timeout=timeout)
    out = p.stdout.strip().splitlines()
    last = None
    for line in reversed(out):
        try: last = json.loads(line); break
        except Exception: continue
    return p.returncode, last, p.stdout[-3000:], p.stderr[-3000:]
