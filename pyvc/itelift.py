"""pyvc.itelift -- lift if-then-else with numeral branches through arithmetic / conversions so that indicator summands get one canonical form:
      ToReal(BV2Int(If(c, 1bv, 0bv)))  ->  If(c, 1.0, 0.0)          If(0 <= If(c, 1, 0), t, t - 2^64)  ->  t
Used by the sum normaliser on both the code side and the specification side of an obligation (a semantics-preserving rewrite: every step replaces
f(If(c, a, b)) by If(c, f(a), f(b)) for numerals a, b and lets z3.simplify evaluate f on the numerals)."""
import z3

def _is_num(e):
    return z3.is_int_value(e) or z3.is_rational_value(e) or z3.is_bv_value(e) or z3.is_true(e) or z3.is_false(e)
def _num_ite(e):
    return z3.is_app(e) and e.decl().kind() == z3.Z3_OP_ITE and _is_num(e.arg(1)) and _is_num(e.arg(2))

def lift(e, cache=None):
    cache = {} if cache is None else cache
    k = e.get_id()
    if k in cache: return cache[k]
    if not z3.is_app(e) or e.num_args() == 0:
        cache[k] = e; return e
    args = [lift(c, cache) for c in e.children()]
    kind = e.decl().kind()
    r = None
    if kind == z3.Z3_OP_ITE:
        c, a, b = args
        c = z3.simplify(c)
        if z3.is_true(c): r = a
        elif z3.is_false(c): r = b
        elif _num_ite(c):                       # If(If(d, T, F), a, b) etc.
            t1 = z3.simplify(z3.If(c.arg(1), a, b)); t2 = z3.simplify(z3.If(c.arg(2), a, b))
            r = lift(z3.If(c.arg(0), t1, t2), cache) if not (t1.eq(a) and t2.eq(b) and False) else None
        if r is None and not a.eq(b) and (z3.is_real(a) or z3.is_int(a)) and not z3.is_bv(a):
            # If(c, t, 0) -> If(c, 1, 0) * t : a guarded summand is an indicator times the summand
            one = z3.RealVal(1) if z3.is_real(a) else z3.IntVal(1); zero = z3.RealVal(0) if z3.is_real(a) else z3.IntVal(0)
            isz = lambda t: _is_num(t) and z3.simplify(t == zero).eq(z3.BoolVal(True))
            if isz(b) and not _is_num(a): r = z3.If(c, one, zero) * a
            elif isz(a) and not _is_num(b): r = z3.If(c, zero, one) * b
        if r is None: r = z3.If(c, a, b) if not a.eq(b) else a
    elif kind != z3.Z3_OP_UNINTERPRETED:
        its = [i for i, a in enumerate(args) if _num_ite(a)]
        others_num = all(_is_num(a) or _num_ite(a) for a in args)
        if len(its) == 1 and others_num:
            i = its[0]; it = args[i]
            mk = lambda v: z3.simplify(e.decl()(*[v if j == i else a for j, a in enumerate(args)]))
            r = z3.If(it.arg(0), mk(it.arg(1)), mk(it.arg(2)))
        elif len(its) >= 2 and others_num and all(args[i].arg(0).eq(args[its[0]].arg(0)) for i in its):      # same condition in every ite argument
            c0 = args[its[0]].arg(0)
            mk = lambda br: z3.simplify(e.decl()(*[(a.arg(br) if j in its else a) for j, a in enumerate(args)]))
            r = z3.If(c0, mk(1), mk(2))
    if r is None:
        try: r = e.decl()(*args)
        except Exception: r = e
    cache[k] = r
    return r

def orient_eq(e, cache=None):
    """one orientation for every equality (z3.simplify orders the arguments by AST creation order: 1 == D(i) and D(i) == 1 must be the same indicator).
    Applied LAST, nothing simplifies afterwards."""
    cache = {} if cache is None else cache
    k = e.get_id()
    if k in cache: return cache[k]
    if not z3.is_app(e) or e.num_args() == 0:
        cache[k] = e; return e
    args = [orient_eq(c, cache) for c in e.children()]
    if e.decl().kind() == z3.Z3_OP_EQ and len(args) == 2 and str(args[0].sexpr()) > str(args[1].sexpr()): args = [args[1], args[0]]
    try: r = e.decl()(*args)
    except Exception: r = e
    cache[k] = r; return r

def canon(e):
    return orient_eq(z3.simplify(lift(z3.simplify(e))))
