"""pyvc.loader -- mechanical extraction: read /repo's working tree, transform, exec under stubs.

What differs from the text CPython would run (and nothing else):
  T1  imports are resolved through a table (numpy -> symnp, numba -> nbstub, psutil/time -> havoc stubs,
      estraces/scipy -> axiomatic stubs, other scared modules -> their transformed selves, stdlib -> real);
      the top-level scared/__init__.py (re-exports only) is not executed.
  T1b builtins isinstance/len/range/int/float/abs/min/max/sum/hasattr-free shims understand symbolic values.
  T2  every FunctionDef gets one added decorator producing a dispatcher that keeps identity, descriptor
      protocol and parameter names, and decides per verification task between body and contract stub.
  T3  `for x in E:` becomes `for x in __pyvc_loop__(E, id)`, `while c:` becomes
      `for _ in __pyvc_while__(lambda: c, id)`: with no loop contract active both are the identity.
"""
import ast, builtins, hashlib, sys, types, os, functools, enum, importlib
import numpy as _rnp
import z3
from . import core, symnp
from .core import SInt, SBool, SBV, SFloat, NeedsContract

REPO = os.environ.get('PYVC_REPO', '/repo')

# --------------------------------------------------------------------------- contract / loop registries (per task)
class Task:
    def __init__(self):
        self.stubs = {}        # qualname key -> callable replacing the body (modular call)
        self.loops = {}        # loop id -> loop contract object
        self.calls = []        # log of modular calls
TASK = Task()

def set_task(stubs=None, loops=None):
    global TASK
    TASK = Task(); TASK.stubs = dict(stubs or {}); TASK.loops = dict(loops or {})
    return TASK

class Dispatcher:
    """T2: wraps a function of the repository; identity preserving; body or contract stub per task.
    key/body live in slots so that functools.wraps(other_dispatcher) (which copies __dict__) cannot clobber them."""
    __slots__ = ('key', 'body', '__dict__', '__weakref__')
    def __init__(self, key, body):
        self.key = key; self.body = body
        functools.update_wrapper(self, body)
    def __call__(self, *a, **k):
        stub = TASK.stubs.get(self.key)
        if stub is not None:
            TASK.calls.append(self.key)
            return stub(self.body, *a, **k)
        return self.body(*a, **k)
    def __get__(self, obj, objtype=None):
        if obj is None: return self
        return types.MethodType(self, obj)
    def __repr__(self): return '<pyvc dispatcher %s>' % self.key

def _mk_dispatch(key):
    def deco(f):
        if isinstance(f, (staticmethod, classmethod, property)): return f
        if not isinstance(f, types.FunctionType): return f
        return Dispatcher(key, f)
    return deco

# --------------------------------------------------------------------------- loop hooks (T3)
def pyvc_loop(it, loop_id):
    lc = TASK.loops.get(loop_id)
    if lc is None: return it
    return lc.iterate(it)
def pyvc_while(cond, loop_id):
    lc = TASK.loops.get(loop_id)
    if lc is None:
        def gen():
            while cond(): yield None
        return gen()
    return lc.iterate_while(cond)

def pyvc_listcomp(f, it):
    if isinstance(it, SymRange) and not isinstance(it.__pyvc_len__(), int):
        start = it.start
        return SymList(it.__pyvc_len__(), lambda i: f(start + i))
    if isinstance(it, SymList): return SymList(it.n, lambda i: f(it[i]))
    return [f(x) for x in it]

class SymList:
    """list of symbolic length built by a comprehension over a symbolic range: element i is fn(i) (lazy, memoised)"""
    def __init__(self, n, fn):
        self.n = n; self.fn = fn; self._cache = {}
    def __pyvc_len__(self): return self.n
    def __getitem__(self, i):
        if isinstance(i, int) and i < 0: i = self.n + i
        k = i if isinstance(i, int) else ('z', i.z.get_id())
        if k not in self._cache: self._cache[k] = (self.fn(i), i)
        return self._cache[k][0]
    def append(self, v):
        old_n, old_fn = self.n, self.fn
        def fn(i):
            if isinstance(i, int) and isinstance(old_n, int): return v if i == old_n else old_fn(i)
            c = (i == old_n)
            if c is True or (not core.is_sym(c) and c): return v
            if bool(c): return v          # forks when the position is symbolic
            return old_fn(i)
        self.n = old_n + 1; self.fn = fn; self._cache = {}
    def __add__(self, other):
        # concatenation of two lists of symbolic length: element i is self[i] for i < len(self), other[i - len(self)] after it
        if not isinstance(other, (SymList, list)): return NotImplemented
        n1 = self.n; n2 = other.n if isinstance(other, SymList) else len(other); a = self; b = other
        def fn(i):
            if isinstance(i, int) and isinstance(n1, int): return a[i] if i < n1 else b[i - n1]
            x = a[i]; y = b[i - n1]
            return core.Ite(i < n1, x, y)
        return SymList(n1 + n2, fn)
    def __iter__(self):
        n = self.n if isinstance(self.n, int) else self.n.__index__()
        return iter([self[i] for i in builtins.range(n)])

class _Transform(ast.NodeTransformer):
    def __init__(self, modname):
        self.modname = modname; self.scope = []; self.loop_count = {}
    def _qual(self, name): return '.'.join(self.scope + [name])
    def visit_ClassDef(self, n):
        self.scope.append(n.name); self.generic_visit(n); self.scope.pop(); return n
    def visit_FunctionDef(self, n):
        q = self._qual(n.name)
        self.scope.append(n.name); self.generic_visit(n); self.scope.pop()
        key = '%s::%s' % (self.modname, q)
        # innermost decorator position: applied first, so staticmethod/njit wrap the dispatcher
        n.decorator_list.append(ast.Call(func=ast.Name(id='__pyvc_fn__', ctx=ast.Load()), args=[ast.Constant(key)], keywords=[]))
        return n
    def _loop_id(self):
        q = '.'.join(self.scope) or '<module>'
        k = self.loop_count.get(q, 0); self.loop_count[q] = k + 1
        return '%s::%s#%d' % (self.modname, q, k)
    def visit_ListComp(self, n):
        self.generic_visit(n)
        if len(n.generators) != 1: return n
        g = n.generators[0]
        if g.ifs or g.is_async or not isinstance(g.target, ast.Name): return n
        lam = ast.Lambda(args=ast.arguments(posonlyargs=[], args=[ast.arg(arg=g.target.id)], kwonlyargs=[], kw_defaults=[], defaults=[]), body=n.elt)
        return ast.copy_location(ast.Call(func=ast.Name(id='__pyvc_listcomp__', ctx=ast.Load()), args=[lam, g.iter], keywords=[]), n)
    def visit_For(self, n):
        lid = self._loop_id()
        self.generic_visit(n)
        n.iter = ast.Call(func=ast.Name(id='__pyvc_loop__', ctx=ast.Load()), args=[n.iter, ast.Constant(lid)], keywords=[])
        return n
    def visit_While(self, n):
        lid = self._loop_id()
        self.generic_visit(n)
        if n.orelse: return n
        lam = ast.Lambda(args=ast.arguments(posonlyargs=[], args=[], kwonlyargs=[], kw_defaults=[], defaults=[]), body=n.test)
        new = ast.For(target=ast.Name(id='__pyvc_w__', ctx=ast.Store()),
                      iter=ast.Call(func=ast.Name(id='__pyvc_while__', ctx=ast.Load()), args=[lam, ast.Constant(lid)], keywords=[]),
                      body=n.body, orelse=[])
        return ast.copy_location(new, n)

# --------------------------------------------------------------------------- builtins shims (T1b)
def _is_symint(o): return isinstance(o, (SInt, SBV))
def shim_isinstance(o, c):
    if isinstance(c, tuple): return builtins.any(shim_isinstance(o, x) for x in c)
    if c is shim_int: c = int
    elif c is shim_float: c = float
    elif c is shim_range: c = (range, SymRange)
    if isinstance(c, tuple): return builtins.any(shim_isinstance(o, x) for x in c)
    if isinstance(o, SInt) and c is int: return True
    if isinstance(o, SBV):
        if c is int: return False
        try:
            if builtins.isinstance(c, type) and issubclass(c, _rnp.generic): return issubclass(o.dtype.type, c)
        except TypeError: pass
    if isinstance(o, SFloat) and c is float: return o.dtype == _rnp.dtype('float64')
    if isinstance(o, SFloat):
        try:
            if builtins.isinstance(c, type) and issubclass(c, _rnp.generic): return issubclass(o.dtype.type, c)
        except TypeError: pass
    if isinstance(o, SBool) and c in (bool, _rnp.bool_): return True
    if isinstance(o, Dispatcher) and c is types.FunctionType: return True
    return builtins.isinstance(o, c)
def shim_len(o):
    if isinstance(o, symnp.ndarray):
        if not o.shape: raise TypeError('len() of unsized object')
        return o.shape[0]
    if hasattr(o, '__pyvc_len__'): return o.__pyvc_len__()
    if isinstance(o, (list, tuple, dict, str, set, frozenset, bytes, range)): return builtins.len(o)
    lm = getattr(type(o), '__len__', None)
    if lm is not None: return lm(o)          # a user class whose __len__ may return a symbolic integer
    return builtins.len(o)
def shim_range(*a):
    if builtins.any(isinstance(x, (SInt, SBV)) for x in a):
        return SymRange(*a)
    return builtins.range(*[int(x) if isinstance(x, _rnp.integer) else x for x in a])
class SymRange:
    """range with symbolic bounds: iterable only under a loop contract, or by finite case split"""
    def __init__(self, *a):
        if len(a) == 1: self.start, self.stop, self.step = 0, a[0], 1
        elif len(a) == 2: self.start, self.stop, self.step = a[0], a[1], 1
        else: self.start, self.stop, self.step = a
    def __iter__(self):
        a = [x.__index__() if isinstance(x, (SInt, SBV)) else x for x in (self.start, self.stop, self.step)]
        return iter(builtins.range(*a))
    def __pyvc_len__(self):
        assert self.step == 1
        n = self.stop - self.start
        if not isinstance(n, int) and not bool(n >= 0): return 0
        return n
def shim_int(x=0, *a):
    if isinstance(x, SInt): return x
    if isinstance(x, SBV): return core.mk_int(x.as_int().z)
    if isinstance(x, SBool): return core.mk_int(core.zi(x))
    if isinstance(x, SFloat):
        c = core.conc(x.v)
        if c is not None and not x.special: return builtins.int(c)
        # truncation toward zero
        v = x.v
        t = z3.If(v >= 0, z3.ToInt(v), -z3.ToInt(-v))
        return core.mk_int(t)
    if isinstance(x, symnp.ndarray): return shim_int(x.item())
    return builtins.int(x, *a)
def shim_float(x=0.0):
    if isinstance(x, (SInt, SBV, SBool)): return core.to_float(x)
    if isinstance(x, SFloat): return SFloat(x.v, 'float64', x.nan, x.pinf, x.ninf)
    if isinstance(x, symnp.ndarray): return shim_float(x.item())
    return builtins.float(x)
def shim_bool(x=False):
    return builtins.bool(x)
import numpy as _rnp_l
shim_int.dtype = _rnp_l.dtype('int64'); shim_float.dtype = _rnp_l.dtype('float64'); shim_bool.dtype = _rnp_l.dtype('bool')      # numpy's dtype protocol: dtype=int / float / bool
def shim_abs(x): return builtins.abs(x)
def _pick(seq, better):
    seq = list(seq); best = seq[0]
    for v in seq[1:]:
        c = better(v, best)
        if core.is_sym(c): best = core.Ite(c, v, best)
        elif c: best = v
    return best
def shim_max(*a, **k):
    if len(a) == 1 and not k: a = tuple(a[0])
    if not k and builtins.any(core.is_sym(x) for x in a): return _pick(a, lambda v, b: v > b)
    if not k and builtins.any(isinstance(x, (_rnp.dtype, symnp.DT)) for x in a): return symnp.DT(builtins.max(*[_rnp.dtype(x) for x in a]))
    return builtins.max(*a, **k) if len(a) > 1 else builtins.max(a[0], **k)
def shim_min(*a, **k):
    if len(a) == 1 and not k: a = tuple(a[0])
    if not k and builtins.any(core.is_sym(x) for x in a): return _pick(a, lambda v, b: v < b)
    return builtins.min(*a, **k) if len(a) > 1 else builtins.min(a[0], **k)
def shim_sum(it, start=0):
    if isinstance(it, SymRange):     # sum(range(n)) = n(n-1)/2 for start 0 step 1
        n = it.stop - it.start
        return start + (it.start * n) + (n * (n - 1)) // 2
    acc = start
    for v in it: acc = acc + v
    return acc
class LazyEnum:
    """enumerate() that does not touch its iterable before iteration starts (a loop contract may replace the iteration)"""
    def __init__(self, it, start): self.it = it; self.start = start
    def __iter__(self): return builtins.enumerate(self.it, self.start)
def shim_enumerate(it, start=0):
    if isinstance(it, (list, tuple, range, str)): return builtins.enumerate(it, start)
    return LazyEnum(it, start)
def shim_hasattr(o, n): return builtins.hasattr(o, n)

def sandbox_builtins(importer):
    b = dict(vars(builtins))
    b.update(isinstance=shim_isinstance, len=shim_len, range=shim_range, int=shim_int, float=shim_float,
             max=shim_max, min=shim_min, sum=shim_sum, enumerate=shim_enumerate, __import__=importer)
    return b

# --------------------------------------------------------------------------- stub modules (T1)
def _numba_stub():
    m = types.ModuleType('numba')
    def njit(*a, **k):
        if len(a) == 1 and callable(a[0]) and not k: return a[0]
        return lambda f: f
    m.njit = njit; m.jit = njit
    m.prange = shim_range
    class _NbType:
        def __init__(self, name): self.name = name; self.dtype = _rnp.dtype(name)
        def __call__(self, *args):
            if len(args) == 1 and not isinstance(args[0], _NbType): return core.cast(args[0], self.dtype)
            return ('sig', self, args)
    for n in ('uint8', 'uint16', 'uint32', 'uint64', 'int8', 'int16', 'int32', 'int64', 'float32', 'float64'):
        setattr(m, n, _NbType(n))
    def vectorize(sigs=None, **kw):
        def deco(f):
            def vf(x):
                if not isinstance(x, symnp.ndarray): x = symnp.asarray(x)
                sig = None
                for s in (sigs or []):
                    if s[2][0].dtype == x.dtype: sig = s; break
                if sigs and sig is None:
                    raise TypeError("ufunc '%s' did not contain a loop with signature matching types %s" % (getattr(f, '__name__', 'f'), x.dtype))
                odt = sig[1].dtype if sig else x.dtype
                fx = x.snapshot()
                return symnp.ndarray.fresh(x.shape, lambda i: core.cast(f(fx(i)), odt), odt)
            vf.__wrapped__ = f; vf.__name__ = getattr(f, '__name__', 'vectorized')
            return vf
        if callable(sigs) and not isinstance(sigs, list):
            f = sigs; sigs = None; return deco(f)
        return deco
    m.vectorize = vectorize
    return m

HAVOC = {'counter': 0, 'log': []}
def havoc_real(tag):
    HAVOC['counter'] += 1
    v = z3.Real('havoc_%s_%d' % (tag, HAVOC['counter'])); HAVOC['log'].append((tag, v))
    return SFloat(v, 'float64')

def _psutil_stub():
    m = types.ModuleType('psutil')
    class VM:
        @property
        def available(self):
            r = havoc_real('mem'); core.assume(r.v >= 0); return r
    m.virtual_memory = lambda: VM()
    return m
def _time_stub():
    m = types.ModuleType('time')
    m.process_time = lambda: havoc_real('time')
    m.time = lambda: havoc_real('time')
    return m

class Loader:
    def __init__(self, repo=None):
        self.repo = repo or REPO
        self.modules = {}          # name -> module
        self.sources = {}          # name -> (path, source)
        self.fn_hash = {}          # key -> sha256 of the function's source segment
        self.extra = {}            # stub modules by name (estraces, scipy, ...)
        self.stubs = {'numpy': symnp, 'numba': _numba_stub(), 'psutil': _psutil_stub(), 'time': _time_stub()}
        from . import estub
        em, emods = estub.module(); self.extra.update(emods)
        self.builtins = sandbox_builtins(self._import)
    # -- import hook used inside the sandbox
    def _import(self, name, globals=None, locals=None, fromlist=(), level=0):
        if level > 0:
            pkg = globals.get('__package__') or globals['__name__'].rpartition('.')[0]
            parts = pkg.split('.')
            if level > 1: parts = parts[:-(level - 1)]
            base = '.'.join(parts)
            name = base + ('.' + name if name else '')
        root = name.split('.')[0]
        if root in self.stubs or name in self.stubs:
            mod = self.stubs.get(name) or self.stubs[root]
            if name != root and name not in self.stubs:
                m = self.stubs[root]
                try:
                    for part in name.split('.')[1:]: m = getattr(m, part)
                except AttributeError:
                    # an internal lazy import of the real library (e.g. numpy._core._dtype from dtype.__str__)
                    return importlib.__import__(name, globals, locals, fromlist, level)
                return m if fromlist else self.stubs[root]
            return mod
        if root == 'scared':
            mod = self.load(name)
            if fromlist:
                for f in fromlist:
                    if f != '*' and not hasattr(mod, f):
                        sub = name + '.' + f
                        if self._find(sub): setattr(mod, f, self.load(sub))
                return mod
            return self.load('scared')
        if root in self.extra or name in self.extra:
            if name in self.extra: return self.extra[name] if fromlist else self.extra[root]
            return self.extra[root]
        return importlib.__import__(name, globals, locals, fromlist, level)
    def _find(self, name):
        rel = name.replace('.', '/')
        p = os.path.join(self.repo, rel + '.py')
        if os.path.isfile(p): return p, False
        p = os.path.join(self.repo, rel, '__init__.py')
        if os.path.isfile(p): return p, True
        return None
    def load(self, name):
        if name in self.modules: return self.modules[name]
        found = self._find(name)
        if not found: raise ImportError('pyvc loader: no module %s under %s' % (name, self.repo))
        path, is_pkg = found
        parent = name.rpartition('.')[0]
        if parent:
            self.load(parent)
            if name in self.modules: return self.modules[name]      # the parent package's __init__ imported it meanwhile
        mod = types.ModuleType(name); mod.__file__ = path
        mod.__package__ = name if is_pkg else parent
        if is_pkg: mod.__path__ = [os.path.dirname(path)]
        self.modules[name] = mod
        if parent: setattr(self.modules[parent], name.rpartition('.')[2], mod)
        if name == 'scared':
            # top-level package: re-exports only; not executed.  `scared.traces` is estraces.
            if 'estraces' in self.extra: mod.traces = self.extra['estraces']
            return mod
        src = open(path).read()
        self.sources[name] = (path, src)
        tree = ast.parse(src)
        self._hash_functions(name, src, tree)
        tree = _Transform(name).visit(tree)
        ast.fix_missing_locations(tree)
        g = mod.__dict__
        g['__builtins__'] = self.builtins
        g['__pyvc_fn__'] = _mk_dispatch; g['__pyvc_loop__'] = pyvc_loop; g['__pyvc_while__'] = pyvc_while; g['__pyvc_listcomp__'] = pyvc_listcomp
        exec(compile(tree, path, 'exec'), g)
        return mod
    def _hash_functions(self, modname, src, tree):
        def rec(node, scope):
            for n in ast.iter_child_nodes(node):
                if isinstance(n, ast.ClassDef): rec(n, scope + [n.name])
                elif isinstance(n, (ast.FunctionDef,)):
                    key = '%s::%s' % (modname, '.'.join(scope + [n.name]))
                    seg = ast.get_source_segment(src, n) or ''
                    self.fn_hash[key] = hashlib.sha256(seg.encode()).hexdigest()
                    rec(n, scope + [n.name])
        rec(tree, [])
    def source_segment(self, key):
        modname, q = key.split('::')
        path, src = self.sources[modname]
        tree = ast.parse(src)
        def rec(node, scope):
            for n in ast.iter_child_nodes(node):
                if isinstance(n, ast.ClassDef):
                    r = rec(n, scope + [n.name])
                    if r: return r
                elif isinstance(n, ast.FunctionDef):
                    if '.'.join(scope + [n.name]) == q: return ast.get_source_segment(src, n)
                    r = rec(n, scope + [n.name])
                    if r: return r
        return rec(tree, [])
    def module_literal(self, modname, varname):
        """the python value of a module-level literal assignment (tables), evaluated from the AST"""
        path, src = self.sources[modname] if modname in self.sources else (self._find(modname)[0], open(self._find(modname)[0]).read())
        for n in ast.parse(src).body:
            if isinstance(n, ast.Assign) and builtins.any(isinstance(t, ast.Name) and t.id == varname for t in n.targets):
                v = n.value
                if isinstance(v, ast.Call) and v.args: v = v.args[0]      # _np.array(<literal>, dtype=...)
                return ast.literal_eval(v)
        raise KeyError(varname)

def unwrap(f):
    """the Dispatcher (or plain function) behind staticmethod / njit wrappers"""
    while True:
        if isinstance(f, staticmethod): f = f.__func__
        elif isinstance(f, Dispatcher): return f
        elif hasattr(f, '__wrapped__'): f = f.__wrapped__
        else: return f
