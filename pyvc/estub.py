"""pyvc.estub -- axiomatic stub of estraces (trusted contract, DESIGN section 6):
  len(ths) = n;  ths[slice] is the sub-sequence in order;  ths[i] is trace i;  .samples[rows, frame] and .metadatas[name]
  are row-aligned views of two uninterpreted tables S(row, column) and M_name(row, j)."""
import types, z3
import numpy as _rnp
from . import core, symnp
from .core import SInt, zi, mk_int

class Samples:
    SUPPORTED_INDICES_TYPES = (type(Ellipsis), slice, int, list, symnp.ndarray, range)
    def __init__(self, ths): self.ths = ths
    def _cols(self, frame):
        t = self.ths
        if frame is Ellipsis or frame is None or (isinstance(frame, slice) and frame == slice(None)): return t.width, (lambda c: c)
        if isinstance(frame, slice):
            start, length, step = symnp._slice_params(frame, t.width); return length, (lambda c: start + step * c)
        if isinstance(frame, int): return None, frame
        fr = symnp.asarray(frame); f = fr.snapshot()
        return fr.shape[0], (lambda c: symnp.as_index_scalar(f((c,))))
    def __getitem__(self, key):
        t = self.ths
        if not isinstance(key, tuple): key = (key, Ellipsis)
        rows, frame = key
        ncols, cmap = self._cols(frame)
        cell = lambda r, c: t.cell(t.lo + r, c)
        if isinstance(rows, slice) and rows == slice(None):
            if ncols is None: return symnp.ndarray.fresh((t.n,), lambda i: cell(i[0], cmap), t.dtype)
            return symnp.ndarray.fresh((t.n, ncols), lambda i: cell(i[0], cmap(i[1])), t.dtype)
        if isinstance(rows, (int, SInt)):
            if ncols is None: return cell(rows, cmap)
            return symnp.ndarray.fresh((ncols,), lambda i: cell(rows, cmap(i[0])), t.dtype)
        raise core.NeedsContract('estraces stub: samples[%r]' % (key,))

class Metadatas:
    def __init__(self, ths): self.ths = ths
    def keys(self): return list(self.ths.meta.keys())
    def __iter__(self): return iter(self.keys())
    def __len__(self): return len(self.ths.meta)
    def __getitem__(self, name):
        t = self.ths; width, dt, uf = t.meta[name]
        return symnp.ndarray.fresh((t.n, width), lambda i: core.SBV(uf(zi(t.lo + i[0]), zi(i[1])), dt), dt)
    def items(self): return [(k, self[k]) for k in self.keys()]

class Trace:
    def __init__(self, ths, row): self.ths = ths; self.row = row
    @property
    def samples(self): return _TraceSamples(self.ths, self.row)
    def __getattr__(self, name):
        t = self.__dict__['ths']
        if name in t.meta:
            width, dt, uf = t.meta[name]; row = self.__dict__['row']
            return symnp.ndarray.fresh((width,), lambda i: core.SBV(uf(zi(t.lo + row), zi(i[0])), dt), dt)
        raise AttributeError(name)
class _TraceSamples:
    def __init__(self, ths, row): self.ths = ths; self.row = row
    def __getitem__(self, frame): return Samples(self.ths)[self.row, frame]
    def __len__(self): return self.ths.width

class TraceHeaderSet:
    """rows [lo, lo+n) of an underlying trace set named `name`"""
    def __init__(self, name, n, width, dtype='float32', meta=None, lo=0, tables=None):
        self.name = name; self.n = n; self.width = width; self.dtype = _rnp.dtype(dtype); self.lo = lo
        if tables is None:
            if self.dtype.kind == 'f': S = z3.Function('S_' + name, z3.IntSort(), z3.IntSort(), z3.RealSort())
            else: S = z3.Function('S_' + name, z3.IntSort(), z3.IntSort(), z3.BitVecSort(8 * self.dtype.itemsize))
            metas = {k: (w, _rnp.dtype(dt), z3.Function('M_%s_%s' % (name, k), z3.IntSort(), z3.IntSort(), z3.BitVecSort(8 * _rnp.dtype(dt).itemsize))) for k, (w, dt) in (meta or {}).items()}
            tables = (S, metas)
        self.tables = tables; self.S, self.meta = tables
    def cell(self, r, c):
        v = self.S(zi(r), zi(c))
        return core.SFloat(v, self.dtype) if self.dtype.kind == 'f' else core.SBV(v, self.dtype)
    def __pyvc_len__(self): return self.n
    def __len__(self): return int(self.n)
    @property
    def samples(self): return Samples(self)
    @property
    def metadatas(self): return Metadatas(self)
    def __getitem__(self, key):
        if isinstance(key, slice):
            assert key.step in (None, 1)
            if all(isinstance(x, (int, type(None))) for x in (key.start, key.stop)) and isinstance(self.n, int):
                start, length, step = symnp._slice_params(key, self.n)
            else:
                # contract of slicing a trace set with 0 <= start: rows [start, min(stop, n)) (no case split needed)
                start = 0 if key.start is None else key.start
                stop = self.n if key.stop is None else core.mk_int(z3.If(zi(key.stop) <= zi(self.n), zi(key.stop), zi(self.n)))
                length = core.mk_int(z3.If(zi(stop) - zi(start) >= 0, zi(stop) - zi(start), 0))
            lo = self.lo + start if (isinstance(self.lo, int) and isinstance(start, int)) else mk_int(zi(self.lo) + zi(start))
            return TraceHeaderSet(self.name, length, self.width, self.dtype, None, lo, self.tables)
        if isinstance(key, (int, SInt)): return Trace(self, key)
        if isinstance(key, list) and all(isinstance(k, (int, SInt, core.SBV)) for k in key): return [Trace(self, k.as_int() if isinstance(k, core.SBV) else k) for k in key]   # contract: ths[list of rows] iterates over those rows in order
        raise core.NeedsContract('estraces stub: ths[%r]' % (key,))
    def __iter__(self):
        n = self.n if isinstance(self.n, int) else self.n.__index__()
        return iter([Trace(self, i) for i in range(n)])

def module():
    m = types.ModuleType('estraces')
    m.TraceHeaderSet = TraceHeaderSet; m.Samples = Samples; m.Trace = Trace
    fm = types.ModuleType('estraces.formats'); ew = types.ModuleType('estraces.formats.ets_writer')
    class ETSWriter:
        """trusted contract: write_trace_object_and_points(trace_object, points, index) stores (trace_object, points) at index"""
        def __init__(self, filename=None, overwrite=False): self.filename = filename; self.overwrite = overwrite; self.written = []; self.closed = False
        def write_trace_object_and_points(self, trace_object, points, index): self.written.append((index, trace_object, points))
        def close(self): self.closed = True
        def get_reader(self): return ('reader-of', self)
    ew.ETSWriter = ETSWriter; fm.ets_writer = ew; m.formats = fm
    return m, {'estraces': m, 'estraces.formats': fm, 'estraces.formats.ets_writer': ew}
