"""entry point of every check:  python3-vt -m pyvc.run <id> [--tier ...] [--replay ...]
Runs props/<id>.py as __main__ and maps what escapes it: an engine limit (NeedsContract / Undecided raised outside a work unit)
is UNDECIDED (exit 2), any other exception is an ENGINE-ERROR (exit 3).  A traceback must never look like a violation (exit 1)."""
import sys, runpy, traceback

def main():
    pid = sys.argv[1].lower(); sys.argv = ['props.' + pid] + sys.argv[2:]
    from pyvc import core
    try:
        runpy.run_module('props.' + pid, run_name='__main__')
    except SystemExit:
        raise
    except core.Undecided as e:
        traceback.print_exc()
        print('UNDECIDED property=%s obligation=(engine limit outside a work unit) reason=%s' % (pid.upper(), e)); sys.exit(2)
    except BaseException as e:
        traceback.print_exc()
        print('ENGINE-ERROR property=%s the checker crashed: %r' % (pid.upper(), e)); sys.exit(3)

if __name__ == '__main__':
    main()
