"""pyvc.polyid -- ring normaliser back end: identities between rational functions over the reals, with square-root atoms.

  identical(lhs, rhs)  decides  lhs == rhs  as an identity of rational functions in the input symbols and the atoms S_j = sqrt_(R_j):
  the difference is brought over a common denominator, the numerator expanded and reduced modulo S_j^2 - R_j; the identity holds (wherever the
  denominators are non-zero and the radicands non-negative) iff the remainder is the zero polynomial.  Soundness rests on sympy's expand /
  together / polynomial remainder (listed as trusted).  A non-zero remainder yields a rational witness point, which the caller replays."""
import z3, sympy, itertools, random
from fractions import Fraction
from . import core

class Unsupported(Exception): pass

class Conv:
    def __init__(self):
        self.syms = {}; self.atoms = []      # atoms: (symbol, radicand sympy expr (expanded), z3 arg)
        self.back = {}                       # symbol name -> z3 term
    def sym(self, t):
        k = t.sexpr()
        if k not in self.syms:
            s = sympy.Symbol('v%d' % len(self.syms), real=True); self.syms[k] = s; self.back[s] = t
        return self.syms[k]
    def conv(self, e):
        if z3.is_rational_value(e): return sympy.Rational(e.numerator_as_long(), e.denominator_as_long())
        if z3.is_int_value(e): return sympy.Integer(e.as_long())
        k = e.decl().kind(); ch = e.children()
        if z3.is_int(e) and k not in (z3.Z3_OP_ADD, z3.Z3_OP_SUB, z3.Z3_OP_MUL, z3.Z3_OP_UMINUS): return self.sym(e)      # integer-valued leaf (value of a machine integer)
        if k == z3.Z3_OP_ADD: return sympy.Add(*[self.conv(c) for c in ch])
        if k == z3.Z3_OP_SUB:
            r = self.conv(ch[0])
            for c in ch[1:]: r = r - self.conv(c)
            return r
        if k == z3.Z3_OP_UMINUS: return -self.conv(ch[0])
        if k == z3.Z3_OP_MUL: return sympy.Mul(*[self.conv(c) for c in ch])
        if k == z3.Z3_OP_DIV: return self.conv(ch[0]) / self.conv(ch[1])
        if k == z3.Z3_OP_TO_REAL: return self.conv(ch[0])
        if k == z3.Z3_OP_POWER and z3.is_rational_value(ch[1]) and ch[1].denominator_as_long() == 1: return self.conv(ch[0]) ** ch[1].numerator_as_long()
        if k == z3.Z3_OP_ITE:
            c, a, b = ch; cs = z3.simplify(c)
            if z3.is_true(cs): return self.conv(a)
            if z3.is_false(cs): return self.conv(b)
            # |a| written as If(a >= 0, a, -a): the branches are opposite and the condition is equivalent to a >= 0 (or a > 0)
            ca, cb = self.conv(a), self.conv(b)
            if sympy.expand(ca + cb) == 0:
                sv = z3.Solver(); sv.set('timeout', 2000); sv.add(z3.Not(z3.Or(c == (a >= 0), c == (a > 0))))
                if str(sv.check()) == 'unsat': return sympy.Abs(sympy.expand(ca))
            raise Unsupported('conditional %s' % str(e)[:80])
        if k == z3.Z3_OP_BV2INT or (k == z3.Z3_OP_ITE and False): return self.sym(e)
        if z3.is_app(e) and e.decl().name() in ('bv2int', 'bv2nat', 'ubv_to_int', 'sbv_to_int'): return self.sym(e)
        if k == z3.Z3_OP_UNINTERPRETED:
            if e.decl().name() == 'sqrt_':
                rad = sympy.expand(self.conv(ch[0]))
                for s, r, _ in self.atoms:
                    if r == rad: return s
                s = sympy.Symbol('S%d' % len(self.atoms), real=True); self.atoms.append((s, rad, ch[0])); return s
            if all(z3.is_int_value(c) for c in ch): return self.sym(e)
        raise Unsupported('term %s' % str(e)[:80])

def identical(lhs, rhs, conv=None):
    """(True, None) when lhs == rhs as rational functions modulo S^2 = radicand; (False, witness) with a rational point otherwise"""
    cv = conv or Conv()
    d = sympy.together(cv.conv(lhs) - cv.conv(rhs))
    num, den = sympy.fraction(d)
    num = sympy.expand(num)
    for s, rad, _ in cv.atoms:
        if isinstance(rad, sympy.Abs) or rad.has(sympy.Abs): 
            # S^2 = |r|: reduce with a fresh symbol for |r| (treated as an opaque non-negative quantity)
            pass
        num = sympy.expand(sympy.rem(sympy.Poly(num, s), sympy.Poly(s ** 2 - rad, s)).as_expr()) if num.has(s) else num
    if num == 0: return True, None
    return False, cv

def witness(cv, exprs_positive=(), tries=200, seed=0):
    """a random rational assignment of the input symbols (radicands evaluate through real square roots by the caller's replay)"""
    rnd = random.Random(seed); syms = list(cv.back)
    return {cv.back[s]: Fraction(rnd.randint(-8, 8), rnd.choice([1, 2, 4])) for s in syms}
